"""C15 — a file writer's output depends only on its own inputs.
model: lean/CRModel/WriterSM.lean; theorems: lean/CRProps/C15.lean (helper lemmas lean/CRProofs/WriterSM.lean).

A case is a *history*: 1..2 inputs (scenario + planning-problem set + author/affiliation/source/tags/location),
0..2 files that exist beforehand, and an interleaving of writer constructions and write calls.

    {"g0": 4, "inputs": [<input spec>], "pre": [[path, k]],
     "ops": [["new", label, fmt, input index, precision|null, via],
             ["write", label, kind, file|null, mode, answer|null, [y, m, d, h, min]|null (what the clock shows; optional)]]}

correspondence: the outcome of every call (wrote which file with which content / no visible change / raised which class),
  the final directory, `precision.decimals` after every call, which produced files read back and which read back alike,
  which are equal once the date stamp is erased — content abstracted to (format, input, date stamp, blocks under the root,
  decimals of the probe coordinates per block) — against CR.Writer.run (repaired semantics, symbolic codec).
oracle (no model involved): every file a write call produced is byte-identical, date stamp erased, to the file a freshly
  constructed identical writer produces in one call; it reads back, and reads back to the same objects as that reference
  file; a call with OverwriteExistingFile.SKIP leaves every existing file byte-for-byte as it was.
"""
import builtins
import contextlib
import glob
import hashlib
import io
import json
import os
import re

from common import CORPUS_DIR, Ctx, call

RULE = ("histories of 2..4 writers (XML / protobuf; precisions 1..12 incl. the default 4; facade CommonRoadFileWriter or the "
        "format class itself; constructor arguments explicit or taken from the scenario) over 1..2 generated scenarios (2..4 "
        "lanelets with 0..2 lanelet types each (0 = the constructor's empty default), one static and one dynamic obstacle with a "
        "trajectory, 1..2 planning problems, 40% with goal positions given as lanelets, probe coordinates with 12 "
        "decimals, values that print in e-notation; 12% of the inputs have a planning problem whose creator raises — XML inside "
        "the with-block, protobuf in the message creator), constructions and 1..7 write_to_file / write_scenario_to_file calls "
        "interleaved in random order (the same writer twice, identical writers, other precision / other format in between, "
        "writes after a raising write), the clock scripted per call from 3 dates (10%: real clock), file names: default, a "
        "pool of 3 names that collide, rarely ''; modes ALWAYS / SKIP / ASK (scripted answer); 0..2 files existing beforehand "
        "(30% of them empty). Per DIMENSIONS (checked against the real signatures every run): each of author / affiliation / "
        "source / tags / location explicit or not per writer, precision as int or numpy.int64, facade without file_format, empty "
        "planning-problem set, empty tags, int coordinates, a 1e8 coordinate, lanelet boundary coordinates that are 0 or +-m*10**-e, e = "
        "1..13 (85% of the inputs: below the resolution of a coarser XML writer used between the writes of writers that resolve them), "
        "traffic sign / light; between calls: user code "
        "assigns precision.decimals, setters (author, affiliation, source, tags, location, root_node) on any live writer, "
        "in-place edits of the scenario / planning-problem set (6 kinds), read-only queries of the scenario (7 kinds) and of the "
        "writer (root_node, check_validity_of_commonroad_file); write options check_validity=True, keyword arguments; failing "
        "calls: a name in a directory that does not exist, input() raising EOFError — followed by further calls; 40% of the "
        "histories end with: a writer writes a path, another writer rewrites it with other content, the first writer is called "
        "for it again with SKIP / ASK answered n / ALWAYS; "
        "distinct = canonical JSON of the history; non-trivial = a history with >= 2 performed writes")
ASSUMPTIONS = ["setters and in-place edits between two writes are outside the property's quantifier (constructions and write calls) and "
               "outside the model's operations; the oracle judges them with the reading 'content is a function of the arguments as they "
               "are when the call is made': the reference is a fresh writer constructed with the values the writer holds now, on "
               "arguments rebuilt from the specification with the same edits re-applied; the correspondence accepts 'wrote' or 'no "
               "visible change' for a rewrite from another version of the arguments and binds the model's 'equal' only within one version",
               "not varied: re-assigning writer.scenario / writer.planning_problem_set (equivalent to constructing a writer for the other "
               "objects), setter location = None (no constructor call is equivalent), decimal_precision 0 or > 12 (quantifier: 1..12)",
               "the model's Input is a value: that a write call leaves the scenario / planning-problem objects it was given as they "
               "were is not modelled but checked by the oracle — every reference file is written from arguments rebuilt from the "
               "specification, and after every history a newly constructed writer per input and format writes the history's own "
               "objects once more",
               "content production (which objects a scenario consists of, which node / message field an object turns into, "
               "serialisation) is a parameter of the model; the correspondence sees it through (format, input, date stamp, blocks "
               "under the root, decimals of probe coordinates)",
               "DateLaw (hypothesis of the 'date stamp aside' theorems): the date of a call enters a file only through the XML "
               "date attribute / the protobuf information.date field; tied by comparing, per history, which produced files are "
               "equal after erase_date() with which are equal after the model's eraseDate, on calls with different scripted dates",
               "ReadLaw (hypothesis of the read-back theorems): a file rendered by ONE call reads back, to a value determined by "
               "format, input, method and precision — this is C01 (XML) / C02 (protobuf); tied by comparing which produced files "
               "read back and which read back alike (canonical re-write of the objects read) with the model's reader",
               "the model is given, per write call, the date that ended up in the produced file (the clock is an input)",
               "the reader (CommonRoadFileReader) is deterministic on identical bytes",
               "precision.decimals after every call is compared with the model (constructor sets it, a write restores it, also "
               "when it raises): a code change that keeps the property sentence but stops restoring the global is reported as a "
               "model/code disagreement (no-failing-input-found), not as a failing input"]
TRUSTED = ["harness/c15.py describe(): recognises date stamp, blocks and probe decimals in a real XML / protobuf file",
           "harness/c15.py clock(): replaces the `datetime` module global of the two writer modules while a call runs"]
REQUIRED_BUCKETS = ["fmt/xml", "fmt/pb", "kind/full", "kind/scenario", "same-writer-twice", "identical-writers",
                    "other-precision-between", "other-format-between", "mode/skip-existing", "mode/ask-existing",
                    "mode/always-existing", "name/default", "name/collision", "pre-existing", "two-inputs", "precision/1",
                    "precision/12", "precision/default", "via/class", "dates-differ", "raising-write",
                    "write-after-raising-write", "other-writer-raised-before", "lanelet-type/empty", "goal/lanelets",
                    "probe-after-history", "probe-after-other-format",
                    "value/int-coordinates", "scenario/traffic-sign", "scenario/traffic-light", "value/empty-planning-problem-set",
                    "value/empty-tags", "value/large-magnitude", "value/tiny-boundary-coordinate", "value/below-resolution-of-coarser-writer-between",
                    "value/below-resolution-of-coarser-writer-between/later-xml", "value/below-resolution-of-coarser-writer-between/later-pb",
                    "value/below-resolution-of-coarser-writer-between/same-writer-again", "ctor/some-arguments-explicit", "ctor/numpy-precision",
                    "ctor/default-file-format", "write/check-validity", "write/keyword-arguments", "ask/input-raises",
                    "write/no-such-directory", "write-after-failed-call", "setglobal-then-write", "set-then-write",
                    "edit-then-write", "query-then-write", "queryw-then-write",
                    "own-path-rewritten-by-other/skip", "own-path-rewritten-by-other/ask", "own-path-rewritten-by-other/always"]
WORKERS = {"quick": 1, "thorough": 8}
EXTRA_MODULES = ["CRProps.T15"]      # translator tie: Gen.SrcC15 (regenerated from the repo every run) = hand model

# Every constructor parameter, method parameter, public member, instance attribute and module global of the writer classes
# that can influence what C15 observes, with how the generator varies it.  check_dimensions() compares the table with the real
# signatures on every run: a parameter / member / attribute the table does not know stops the run (exit 2).
DIMENSIONS = {
    "ctor": {   # FileWriter.__init__ (= XMLFileWriter / ProtobufFileWriter) and CommonRoadFileWriter.__init__
        "scenario": "1..2 generated inputs per history; lanelet boundary coordinates that are themselves 0 or m*10**-e, e = 1..13 (below the "
                    "resolution of a coarser writer used in between, above that of the later one: value/below-resolution-of-coarser-writer-between); lanelet types 0..2, traffic sign / light present or not, obstacle coordinates float or "
                    "int, empty or non-empty tags, location None / given; edited in place between writes (edit ops); queried (query ops)",
        "planning_problem_set": "0 (empty set), 1 or 2 planning problems; goal by shape or by lanelets; a creator that raises; add_planning_problem between writes",
        "author": "each of author / affiliation / source / tags / location is given explicitly or left None per WRITER (new-op option "
                  "'explicit'), and re-assigned after construction / between writes (set ops)",
        "affiliation": "see author", "source": "see author",
        "tags": "see author; explicit set is a different object than scenario.tags; empty set; scenario.tags edited in place (edit op)",
        "location": "see author; plain instance attribute, assigned by set ops",
        "decimal_precision": "1..12, default (omitted), int or numpy.int64; 0 and > 12 are outside the quantifier (precisions 1..12)",
        "file_format": "XML / PROTOBUF; omitted (default XML) through the facade",
    },
    "write_to_file": {
        "filename": "None (default name), pool of 3 colliding names, '', a name in a directory that does not exist",
        "overwrite_existing_file": "ALWAYS / SKIP / ASK_USER_INPUT with input() answering n / y / '' / no / raising EOFError; positional or keyword",
        "check_validity": "False / True (write option)",
    },
    "write_scenario_to_file": {"filename": "as write_to_file", "overwrite_existing_file": "as write_to_file"},
    "members": {   # public members of XMLFileWriter / ProtobufFileWriter / CommonRoadFileWriter
        "author": "property + setter: set ops", "affiliation": "set ops", "source": "set ops", "tags": "set ops",
        "root_node": "XML only: read by query ops; the setter only warns — set ops assign it and nothing may change",
        "write_to_file": "write ops", "write_scenario_to_file": "write ops",
        "check_validity_of_commonroad_file": "static, pure: called on the last written content by query ops",
    },
    "instance": {  # vars(writer) after construction
        "scenario": "not re-assigned (would be a writer for another scenario: same as constructing one)", "planning_problem_set": "as scenario",
        "location": "set ops", "_author": "via setter", "_affiliation": "via setter", "_source": "via setter", "_tags": "via setter",
        "_decimal_precision": "private; fixed at construction", "_root_node": "private state (model: Writer.root / date)",
        "_commonroad_msg": "private state (model: Writer.root / date)", "_file_format": "facade: fixed at construction",
        "_file_writer": "facade: the format writer; setters are reached through it",
    },
    "module": {"precision.decimals": "assigned by user code between calls (setglobal ops), model Op.setGlobal",
               "OverwriteExistingFile": ["ASK_USER_INPUT", "ALWAYS", "SKIP"], "FileFormat": ["XML", "PROTOBUF"]},
}


def check_dimensions():
    """Compare DIMENSIONS with the real classes; anything the table does not know is an infrastructure error (exit 2)."""
    import inspect
    from common import InfraError
    from commonroad.common.file_writer import CommonRoadFileWriter
    from commonroad.common.util import FileFormat
    from commonroad.common.writer.file_writer_interface import DecimalPrecision, FileWriter, OverwriteExistingFile
    from commonroad.common.writer.file_writer_protobuf import ProtobufFileWriter
    from commonroad.common.writer.file_writer_xml import XMLFileWriter
    from commonroad.planning.planning_problem import PlanningProblemSet
    from commonroad.scenario.scenario import Scenario, Tag
    unknown = []
    classes = (FileWriter, XMLFileWriter, ProtobufFileWriter, CommonRoadFileWriter)
    for cls in classes:
        for n in list(inspect.signature(cls.__init__).parameters)[1:]:
            if n not in DIMENSIONS["ctor"]:
                unknown.append(f"{cls.__name__}.__init__({n})")
        for meth in ("write_to_file", "write_scenario_to_file"):
            for n in list(inspect.signature(getattr(cls, meth)).parameters)[1:]:
                if n not in DIMENSIONS[meth]:
                    unknown.append(f"{cls.__name__}.{meth}({n})")
        for n, _ in inspect.getmembers(cls):
            if not n.startswith("_") and n not in DIMENSIONS["members"]:
                unknown.append(f"{cls.__name__}.{n}")
    sc = Scenario(0.1, author="a", affiliation="b", source="c", tags={Tag.URBAN})
    for obj in (XMLFileWriter(sc, PlanningProblemSet()), ProtobufFileWriter(sc, PlanningProblemSet()), CommonRoadFileWriter(sc, PlanningProblemSet())):
        for n in vars(obj):
            if n not in DIMENSIONS["instance"]:
                unknown.append(f"{type(obj).__name__} instance attribute {n}")
    if sorted(m.name for m in OverwriteExistingFile) != sorted(DIMENSIONS["module"]["OverwriteExistingFile"]):
        unknown.append(f"OverwriteExistingFile members {[m.name for m in OverwriteExistingFile]}")
    if sorted(m.name for m in FileFormat) != sorted(DIMENSIONS["module"]["FileFormat"]):
        unknown.append(f"FileFormat members {[m.name for m in FileFormat]}")
    for n in vars(DecimalPrecision):
        if not n.startswith("__") and n != "decimals":
            unknown.append(f"DecimalPrecision.{n}")
    if unknown:
        raise InfraError("C15 dimension table (harness/c15.py DIMENSIONS) does not know: " + ", ".join(unknown)
                         + " — decide how the generator varies it and add it to the table")


METHOD = {"full": "write_to_file", "scenario": "write_scenario_to_file"}
POOL = ["f0.xml", "sub/f1.pb", "f2"]


# ------------------------------------------------------------------------------------------------ inputs

def bench_name(k):
    return f"ZAM_Inp-{k + 1}_1_T-1"


def gen_probe(r):
    """A coordinate whose repr has exactly 12 decimals (so precisions 1..12 are all visible in the text)."""
    while True:
        digits = "".join(r.choice("0123456789") for _ in range(11)) + r.choice("123456789")
        x = float(f"{r.randint(1, 9)}.{digits}")
        s = repr(x)
        if "e" not in s and len(s.split(".")[1]) == 12:
            return x


def gen_value(r):
    c = r.random()
    if c < 0.15:
        return r.choice([1e-5, 2.5e-7, 1e-23, 1.5e-10])          # str() gives e-notation: the format(...) branch
    if c < 0.3:
        return float(r.randint(0, 5))
    if c < 0.4:
        return r.randint(1, 8) / 8.0
    return r.random() * r.choice([1, 1, 10])


def gen_tiny(r):
    if r.random() < 0.15:
        return 0.0
    m = r.choice(["1", "4", "9.99", "5", "2.5", "1.0000001", "4.9999999", "5.0000001"])
    return float(f"{r.choice(['', '-'])}{m}e-{r.randint(1, 13)}")


def tiny_values(spec):
    """the non-zero small boundary coordinates build_input() puts into the lanelet network of `spec`"""
    t = spec.get("tiny")
    if not t:
        return []
    return [x for x in (t[:2] + (t[2:5] if spec["nl"] >= 2 else [])) if x != 0.0]


def gen_input(r, k):
    return {"id": k, "name": bench_name(k), "dt": r.choice([0.1, 0.04, 0.2]), "nl": r.randint(2, 4),
            "width": r.choice([3.0, 3.5, 2.123456789]), "seg": r.choice([10.0, 7.25, 12.987654321]),
            "probe_s": gen_probe(r), "probe_p": gen_probe(r), "vals": [gen_value(r) for _ in range(12)],
            "steps": r.randint(2, 5), "npp": r.choice([0, 1, 1, 1, 2]),
            "tags": r.sample(["URBAN", "HIGHWAY", "INTERSECTION", "SIMULATED"], r.choice([0, 1, 1, 2, 3])),
            "int_coords": r.random() < 0.3, "big": r.choice([None, None, 123456789.123456, 98765.4321012345]), "sign": r.random() < 0.35, "light": r.random() < 0.35,
            "location": r.choice([None, [2867714, 48.262333, 11.668775], [r.randint(1, 10 ** 6), r.uniform(-80, 80), r.uniform(-170, 170)]]),
            "args": r.choice(["scenario", "explicit"]),
            # per lanelet 0..2 lanelet types (0: the constructor default, an empty set — the writers fill in a default)
            "ltypes": [r.choice([[], [], ["URBAN"], ["URBAN", "MAIN_CARRIAGE_WAY"], ["HIGHWAY"]]) for _ in range(4)],
            # goal positions given as lanelets (GoalRegion.lanelets_of_goal_position)
            "goal_lanelets": r.random() < 0.4,
            # a goal time interval with float ends: the node / message creator of the planning problem raises
            # (XML: AssertionError in create_interval_node_int, inside the with-block; protobuf: TypeError)
            "bad_goal_time": r.random() < 0.12,
            # lanelet BOUNDARY coordinates that are themselves small: 0 or sign * m * 10**-e with e over every decade 1..13, i.e.
            # below the resolution of some of the precisions 1..12 in play and above that of others (build_input: slots)
            "tiny": [gen_tiny(r) for _ in range(5)] if r.random() < 0.85 else None}


def build_input(spec):
    """Scenario, planning-problem set and the remaining constructor arguments, through the public constructors."""
    import numpy as np
    from commonroad.common.util import Interval
    from commonroad.geometry.shape import Circle, Rectangle
    from commonroad.planning.goal import GoalRegion
    from commonroad.planning.planning_problem import PlanningProblem, PlanningProblemSet
    from commonroad.prediction.prediction import TrajectoryPrediction
    from commonroad.scenario.lanelet import Lanelet, LaneletNetwork, LaneletType
    from commonroad.scenario.obstacle import DynamicObstacle, ObstacleType, StaticObstacle
    from commonroad.scenario.scenario import Location, Scenario, ScenarioID, Tag
    from commonroad.scenario.state import InitialState, KSState
    from commonroad.scenario.trajectory import Trajectory

    k, v = spec["id"], spec["vals"]
    loc = None if spec["location"] is None else Location(geo_name_id=spec["location"][0], gps_latitude=spec["location"][1],
                                                         gps_longitude=spec["location"][2])
    tags = {Tag[t] for t in spec["tags"]}
    sc = Scenario(spec["dt"], ScenarioID.from_benchmark_id(spec["name"], "2020a"), author=f"author{k}", affiliation=f"aff{k}",
                  source=f"src{k}", tags=tags, location=loc)
    w, seg, n = spec["width"], spec["seg"], spec["nl"]
    ltypes = spec.get("ltypes", [["URBAN"]] * 4)
    lanelets = []
    for i in range(n):
        x0, x1, xm = i * seg, (i + 1) * seg, (i + 0.5) * seg + v[i % len(v)]
        c = np.array([[x0, 0.0], [xm, v[(i + 1) % len(v)] * 0.01], [x1, 0.0]])
        left, right = c + np.array([0.0, w / 2]), c - np.array([0.0, w / 2])
        tiny = spec.get("tiny")
        if tiny and i == 0:          # the road starts a little off the origin of the local frame (x0 = 0 otherwise)
            left[0][0], right[0][0] = tiny[0], tiny[1]
        if tiny and i == 1:          # the right boundary of this lanelet runs (almost) on the x axis
            right[:, 1] = tiny[2:5]
        lanelets.append(Lanelet(left, c, right, 10 * k + i + 1, predecessor=[10 * k + i] if i > 0 else [],
                                successor=[10 * k + i + 2] if i < n - 1 else [],
                                **({"lanelet_type": {LaneletType[t] for t in ltypes[i]}} if ltypes[i] else {})))
    sc.add_objects(LaneletNetwork.create_from_lanelet_list(lanelets))

    def init(x, y, vel, t=0):
        return InitialState(position=np.array([x, y]), orientation=v[3] % 1.0 - 0.5, velocity=vel, acceleration=v[4], yaw_rate=v[5] * 0.1,
                            slip_angle=0.0, time_step=t)

    static = StaticObstacle(1000 + 10 * k, ObstacleType.PARKED_VEHICLE, Rectangle(4.0 + v[6], 2.0), init(spec["probe_s"], spec.get("big") or v[7], 0.0),
                            signal_series=[])
    if spec.get("int_coords"):       # int where float is usual: integer position arrays, int velocity
        states = [KSState(position=np.array([5 + i, 0]), orientation=0, velocity=5, steering_angle=0.0, time_step=i)
                  for i in range(1, spec["steps"] + 1)]
    else:
        states = [KSState(position=np.array([5.0 + i * v[8], v[9] * 0.1]), orientation=v[10] % 1.0 * 0.01, velocity=5.0 + v[11],
                          steering_angle=0.0, time_step=i) for i in range(1, spec["steps"] + 1)]
    shape = Rectangle(4.5, 1.8 + v[0] * 0.1)
    dynamic = DynamicObstacle(1001 + 10 * k, ObstacleType.CAR, shape, init(5.0, v[9] * 0.1, 5.0 + v[11]),
                              TrajectoryPrediction(Trajectory(1, states), shape), signal_series=[])
    sc.add_objects([static, dynamic])
    if spec.get("sign"):
        from commonroad.scenario.traffic_sign import TrafficSign, TrafficSignElement, TrafficSignIDZamunda
        sc.add_objects(TrafficSign(500 + 10 * k, [TrafficSignElement(TrafficSignIDZamunda.MAX_SPEED, ["13.5"])], {10 * k + 1},
                                   np.array([1.0 + v[2], w])), lanelet_ids={10 * k + 1})
    if spec.get("light"):
        from commonroad.scenario.traffic_light import TrafficLight, TrafficLightCycle, TrafficLightCycleElement, TrafficLightState
        cyc = TrafficLightCycle([TrafficLightCycleElement(TrafficLightState.RED, 2 + int(v[1])), TrafficLightCycleElement(TrafficLightState.GREEN, 3)],
                                time_offset=int(v[4]))
        sc.add_objects(TrafficLight(600 + 10 * k, np.array([seg - 0.5, -w]), cyc), lanelet_ids={10 * k + 1})
    pps = []
    for j in range(spec["npp"]):
        t_lo, t_hi = (5.5, 10.5) if spec.get("bad_goal_time") and j == 0 else (5 + j, 10 + j)
        goal = GoalRegion([KSState(time_step=Interval(t_lo, t_hi), velocity=Interval(v[1], 10.0 + v[2]),
                                   position=Circle(1.5 + v[j], np.array([n * seg - 2.0, v[5]])) if j else
                                   Rectangle(2.0 + v[2], 2.0, np.array([n * seg - 2.0, v[5]]), v[3] % 1.0 - 0.5))],
                          {0: [10 * k + n - j, 10 * k + n][:2 - j]} if spec.get("goal_lanelets") else None)
        pps.append(PlanningProblem(2000 + 10 * k + j, init(spec["probe_p"] if j == 0 else 1.0 + v[j], 0.0, 3.0 + v[6]), goal))
    pp_set = PlanningProblemSet(pps)
    if spec["args"] == "explicit":
        extra = dict(author=f"Author {k}", affiliation=f"Affiliation <{k}>", source=f"source&{k}", tags=tags, location=loc)
    else:
        extra = {}
    inp = {"scenario": sc, "pps": pp_set, "extra": extra, "spec": spec}
    for e in spec.get("edits", []):           # edits a history made in place (for the reference: the arguments as they are NOW)
        apply_edit(inp, e)
    return inp


# ------------------------------------------------------------------------------------------------ edits, queries, setters

EDITS = ["add_dynamic", "remove_dynamic", "add_pp", "retag", "lanelet_type_add", "dt"]
QUERIES = ["occupancy", "find_lanelet", "polygons", "states", "pp_lookup", "eq", "assign"]
SETTABLE = ["author", "affiliation", "source", "tags", "location", "root_node"]


def apply_edit(inp, kind):
    """In-place edit of the objects a writer was given (the user goes on working with the scenario between two writes).
    None of them changes what describe() recognises (input id, block structure, probe coordinates)."""
    import numpy as np
    from commonroad.common.util import Interval
    from commonroad.geometry.shape import Rectangle
    from commonroad.planning.goal import GoalRegion
    from commonroad.planning.planning_problem import PlanningProblem
    from commonroad.prediction.prediction import TrajectoryPrediction
    from commonroad.scenario.lanelet import LaneletType
    from commonroad.scenario.obstacle import DynamicObstacle, ObstacleType
    from commonroad.scenario.scenario import Tag
    from commonroad.scenario.state import InitialState, KSState
    from commonroad.scenario.trajectory import Trajectory
    sc, pps, k = inp["scenario"], inp["pps"], inp["spec"]["id"]
    if kind == "add_dynamic":
        oid = max(o.obstacle_id for o in sc.obstacles) + 1
        if oid < 1009 + 10 * k:
            sh = Rectangle(3.0, 1.5)
            st = [KSState(position=np.array([2.0 + t, 0.25]), orientation=0.0, velocity=1.0, steering_angle=0.0, time_step=t) for t in (1, 2)]
            sc.add_objects(DynamicObstacle(oid, ObstacleType.BICYCLE, sh, InitialState(position=np.array([2.0, 0.25]), orientation=0.0, velocity=1.0,
                                                                                         acceleration=0.0, yaw_rate=0.0, slip_angle=0.0, time_step=0),
                                           TrajectoryPrediction(Trajectory(1, st), sh), signal_series=[]))
    elif kind == "remove_dynamic":
        dyn = sorted(sc.dynamic_obstacles, key=lambda o: o.obstacle_id)
        if dyn:
            sc.remove_obstacle(dyn[-1])
    elif kind == "add_pp":
        ids = sorted(pps.planning_problem_dict)
        if ids and ids[-1] < 2008 + 10 * k:
            goal = GoalRegion([KSState(time_step=Interval(3, 9), position=Rectangle(2.0, 2.0, np.array([4.0, 0.0])))])
            pps.add_planning_problem(PlanningProblem(ids[-1] + 1, InitialState(position=np.array([0.5, 0.0]), orientation=0.0, velocity=1.0,
                                                                            acceleration=0.0, yaw_rate=0.0, slip_angle=0.0, time_step=0), goal))
    elif kind == "retag":
        sc.tags.add(Tag.RURAL)                        # the set object a writer may share
    elif kind == "lanelet_type_add":
        sc.lanelet_network.lanelets[0].lanelet_type.add(LaneletType.BUS_LANE)
    elif kind == "dt":
        sc.dt = 0.05 if sc.dt != 0.05 else 0.1


def run_query(inp, kind):
    """Read-only use of the objects between two writes (fills caches, materialises lazily computed attributes); whatever a
    query returns or raises is not C15's business."""
    import numpy as np
    sc, pps = inp["scenario"], inp["pps"]

    def q():
        if kind == "occupancy":
            sc.occupancies_at_time_step(1)
            for o in sc.dynamic_obstacles:
                o.occupancy_at_time(1)
        elif kind == "find_lanelet":
            sc.lanelet_network.find_lanelet_by_position([np.array([1.0, 0.0]), np.array([1e6, 0.0])])
            sc.lanelet_network.find_lanelet_by_shape(sc.static_obstacles[0].occupancy_at_time(0).shape)
        elif kind == "polygons":
            for la in sc.lanelet_network.lanelets:
                la.polygon.shapely_object.area
                la.distance
        elif kind == "states":
            for o in sc.dynamic_obstacles:
                o.state_at_time(2)
                o.prediction.trajectory.state_list[0].attributes
        elif kind == "pp_lookup":
            for i, pp in pps.planning_problem_dict.items():
                pps.find_planning_problem_by_id(i)
                pp.goal_reached(sc.dynamic_obstacles[0].prediction.trajectory) if sc.dynamic_obstacles else None
        elif kind == "eq":
            sc == sc
            str(sc.scenario_id)
            repr(sc.lanelet_network)
        elif kind == "assign":
            sc.obstacles_by_position_intervals([])
            sc.obstacle_states_at_time_step(1)
    with contextlib.redirect_stdout(io.StringIO()):
        call(q)


def explicit_value(spec, attr):
    """JSON token of the value a writer is given explicitly for `attr` (distinct from what the scenario carries)."""
    k = spec["id"]
    return {"author": f"Author {k}", "affiliation": f"Affiliation <{k}>", "source": f"source&{k}",
            "tags": sorted(set(spec["tags"]) | {"COMFORT"}), "location": [777 + k, 12.5, -33.25]}[attr]


def materialise(attr, token):
    from commonroad.scenario.scenario import Location, Tag
    if attr == "tags":
        return {Tag[t] for t in token}
    if attr == "location":
        return None if token is None else Location(geo_name_id=token[0], gps_latitude=token[1], gps_longitude=token[2])
    return token


# ------------------------------------------------------------------------------------------------ observing real files

def erase_date(content: bytes) -> bytes:
    """The content with the date stamp erased (XML: the root's date attribute; protobuf: information.date)."""
    if content.lstrip()[:1] == b"<":
        return re.sub(rb'(<commonRoad\b[^>]*?\sdate=")[^"]*(")', rb"\1\2", content, count=1)
    from commonroad.scenario_definition.protobuf_format.generated_scripts import commonroad_pb2
    msg = commonroad_pb2.CommonRoad()
    try:
        msg.ParseFromString(content)
        for fd, _ in msg.information.date.ListFields():
            setattr(msg.information.date, fd.name, 0)
        return msg.SerializeToString(deterministic=True)
    except Exception:  # noqa  — not a CommonRoad message (foreign or damaged content): compared as it is
        return content


def _decimals(text):
    text = (text or "").strip()
    return len(text.split(".")[1]) if "." in text else 0


def describe(content: bytes, names):
    """Abstract a real file to the model's symbolic bytes."""
    if content == b"":
        return {"foreign": 0}
    m = re.fullmatch(rb"foreign-(\d+)\n", content)
    if m:
        return {"foreign": int(m.group(1))}
    if content.lstrip()[:1] == b"<":
        from lxml import etree
        root = etree.fromstring(content)
        nodes, last_pp = [], False
        for ch in root:
            if ch.tag == "location":
                nodes.append([False, None, None])
                last_pp = False
            elif ch.tag == "staticObstacle":
                x = ch.find("initialState/position/point/x")
                if nodes and nodes[-1][0] is False:
                    nodes[-1][1] = (int(ch.get("id")) - 1000) // 10
                    nodes[-1][2] = _decimals(x.text if x is not None else "")
                last_pp = False
            elif ch.tag == "planningProblem":
                if not last_pp:
                    x = ch.find("initialState/position/point/x")
                    nodes.append([True, (int(ch.get("id")) - 2000) // 10, _decimals(x.text if x is not None else "")])
                last_pp = True
            else:
                last_pp = False
        return {"fmt": "xml", "inp": names.get(root.get("benchmarkID"), -1), "date": root.get("date"), "nodes": nodes}
    from commonroad.scenario_definition.protobuf_format.generated_scripts import commonroad_pb2
    msg = commonroad_pb2.CommonRoad()
    msg.ParseFromString(content)
    nodes = [[False, (o.static_obstacle_id - 1000) // 10, 0] for o in msg.static_obstacles]
    if len(msg.planning_problems):
        nodes.append([True, (msg.planning_problems[0].planning_problem_id - 2000) // 10, 0])
    dt = msg.information.date
    return {"fmt": "pb", "inp": names.get(msg.information.benchmark_id, -1),
            "date": f"{dt.year:04d}-{dt.month:02d}-{dt.day:02d}T{dt.hour:02d}:{dt.minute:02d}", "nodes": nodes}


_RB_CACHE = {}


def read_back(path, fmt):
    """Read a written file back -> (ids, canonical form).  The canonical form of the objects read is the text a fresh XML
    writer (precision 12, one call) produces for them, date erased — free of object identities and caches."""
    from commonroad.common.file_reader import CommonRoadFileReader
    from commonroad.common.util import FileFormat
    from commonroad.common.writer.file_writer_interface import precision
    from commonroad.common.writer.file_writer_xml import XMLFileWriter
    content = open(path, "rb").read()
    key = (fmt, hashlib.sha1(content).hexdigest())
    if key in _RB_CACHE:
        r = _RB_CACHE[key]
        if isinstance(r, Exception):
            raise r
        return r
    saved = precision.decimals
    try:
        with contextlib.redirect_stdout(io.StringIO()):
            try:
                sc, pps = CommonRoadFileReader(path, FileFormat.XML if fmt == "xml" else FileFormat.PROTOBUF).open()
            except Exception as e:  # noqa
                _RB_CACHE[key] = e
                raise
            ids = {"id": str(sc.scenario_id), "lanelets": sorted(l.lanelet_id for l in sc.lanelet_network.lanelets),
                   "obstacles": sorted(o.obstacle_id for o in sc.obstacles), "pps": sorted(pps.planning_problem_dict)}
            out = path + ".canon"
            try:
                XMLFileWriter(sc, pps, decimal_precision=12).write_to_file(out, _always())
                digest = hashlib.sha1(erase_date(open(out, "rb").read())).hexdigest()
            except Exception:  # noqa  — the objects read cannot be written: nothing to compare
                digest = None
            finally:
                if os.path.exists(out):
                    os.unlink(out)
    finally:
        precision.decimals = saved
    if len(_RB_CACHE) > 4000:
        _RB_CACHE.clear()
    _RB_CACHE[key] = (ids, digest)
    return ids, digest


def _always():
    from commonroad.common.file_writer import OverwriteExistingFile
    return OverwriteExistingFile.ALWAYS


def expected_ids(inp, kind):
    sc, pps = inp["scenario"], inp["pps"]
    return {"id": str(sc.scenario_id), "lanelets": sorted(l.lanelet_id for l in sc.lanelet_network.lanelets),
            "obstacles": sorted(o.obstacle_id for o in sc.obstacles),
            "pps": sorted(pps.planning_problem_dict) if kind == "full" else []}


# ------------------------------------------------------------------------------------------------ running the real code

def make_writer(inp, fmt, prec, via, opts=None, overrides=None):
    """A writer for `inp`. opts: {"explicit": [attrs given explicitly], "np": precision as numpy.int64, "fmt_default": the
    facade without file_format (XML only)}; overrides: {attr: token} — values given explicitly (constructor or, for the
    reference of a writer whose setters were used, the values it holds now)."""
    import numpy as np
    from commonroad.common.file_writer import CommonRoadFileWriter
    from commonroad.common.util import FileFormat
    from commonroad.common.writer.file_writer_protobuf import ProtobufFileWriter
    from commonroad.common.writer.file_writer_xml import XMLFileWriter
    opts = opts or {}
    kw = dict(inp["extra"])
    for attr, token in (overrides or {}).items():
        kw[attr] = materialise(attr, token)
    if prec is not None:
        kw["decimal_precision"] = np.int64(prec) if opts.get("np") else prec
    if via == "class":
        return (XMLFileWriter if fmt == "xml" else ProtobufFileWriter)(inp["scenario"], inp["pps"], **kw)
    if fmt == "xml" and opts.get("fmt_default"):
        return CommonRoadFileWriter(inp["scenario"], inp["pps"], **kw)
    return CommonRoadFileWriter(inp["scenario"], inp["pps"], file_format=FileFormat.XML if fmt == "xml" else FileFormat.PROTOBUF, **kw)


def list_files(root):
    out = {}
    for base, _, files in os.walk(root):
        for f in files:
            p = os.path.join(base, f)
            out[os.path.relpath(p, root)] = p
    return out


@contextlib.contextmanager
def clock(date):
    """While the block runs, `datetime.datetime.today()` as the two writer modules see it shows `date` = [y, m, d, h, min]
    (best effort: only where a module refers to the clock through its `datetime` module global; otherwise the real
    clock stays — the model is always given the date that ends up in the file)."""
    import datetime as real
    import types
    if date is None:
        yield
        return
    from commonroad.common.writer import file_writer_protobuf, file_writer_xml

    class Fixed(real.datetime):
        @classmethod
        def today(cls):
            return cls(*date)

        @classmethod
        def now(cls, tz=None):
            return cls(*date)

    fake = types.SimpleNamespace(**{k: getattr(real, k) for k in dir(real) if not k.startswith("__")})
    fake.datetime = Fixed
    patched = []
    for mod in (file_writer_xml, file_writer_protobuf):
        if getattr(mod, "datetime", None) is real:
            mod.datetime = fake
            patched.append(mod)
    try:
        yield
    finally:
        for mod in patched:
            mod.datetime = real


REF_DATE = [2001, 2, 3, 4, 5]
DATES = [[2031, 5, 17, 8, 30], [2031, 5, 18, 23, 59], [1999, 12, 31, 0, 0]]


def do_write(writer, kind, file, mode, answer, date=None, opts=None):
    """One write call with stdout swallowed, input() scripted ("EOF": it raises EOFError) and the clock set; opts:
    {"cv": check_validity=True (write_to_file only), "kw": keyword arguments}. -> ('ok', None) | ('err', cls, msg)"""
    from commonroad.common.file_writer import OverwriteExistingFile
    m = {"always": OverwriteExistingFile.ALWAYS, "skip": OverwriteExistingFile.SKIP, "ask": OverwriteExistingFile.ASK_USER_INPUT}[mode]
    opts = opts or {}

    def fake_input(prompt=""):
        if answer == "EOF":
            raise EOFError("EOF when reading a line")
        return "" if answer is None else answer

    args, kw = (file, m), {}
    if opts.get("kw"):
        args, kw = (), {"filename": file, "overwrite_existing_file": m}
    if opts.get("cv") and kind == "full":
        kw["check_validity"] = True
    old = builtins.input
    builtins.input = fake_input
    try:
        with contextlib.redirect_stdout(io.StringIO()), clock(date):
            return call(getattr(writer, METHOD[kind]), *args, **kw)
    finally:
        builtins.input = old


def snapshot(inp):
    """The numbers of the arguments a writer was given, taken without any library accessor that could compute or copy: the
    raw bytes of every numpy array and the repr of every float / int reachable from the lanelets, obstacles (initial state,
    prediction states, shapes) and planning problems' initial states.  Used only to EXPLAIN a file that differs from its twin
    (the verdict is the twin comparison: C15's sentence)."""
    import numpy as np
    out = {}

    def walk(name, o, depth=0):
        if isinstance(o, np.ndarray):
            out[name] = (str(o.dtype), o.shape, o.tobytes())
        elif isinstance(o, (float, int, np.floating, np.integer)) and not isinstance(o, bool):
            out[name] = repr(o)
        elif isinstance(o, (list, tuple)) and depth < 6:
            for j, x in enumerate(o):
                walk(f"{name}[{j}]", x, depth + 1)
        elif hasattr(o, "__dict__") and depth < 6 and type(o).__module__.startswith("commonroad"):
            for k2, x in vars(o).items():
                if k2 not in ("_lanelet_network", "_polygon", "_shapely_polygon", "_strtee", "_buffered_polygons", "_lanelet_id_index_by_id"):
                    walk(f"{name}.{k2.lstrip('_')}", x, depth + 1)

    sc = inp["scenario"]
    for l in sc.lanelet_network.lanelets:
        for k2, x in vars(l).items():
            if isinstance(x, np.ndarray):
                out[f"lanelet {l.lanelet_id} {k2.lstrip('_')}"] = (str(x.dtype), x.shape, x.tobytes())
    for o in sc.obstacles:
        walk(f"obstacle {o.obstacle_id}", o)
    for pid, pp in inp["pps"].planning_problem_dict.items():
        walk(f"planning problem {pid} initial_state", pp.initial_state)
    return out


def snapshot_diff(a, b):
    import numpy as np
    names = sorted(k for k in set(a) | set(b) if a.get(k) != b.get(k))
    if not names:
        return ""
    k = names[0]
    def show(v):
        if v is None:
            return "absent"
        if isinstance(v, tuple):
            return str(np.frombuffer(v[2], dtype=v[0]).reshape(v[1]).tolist())
        return v
    return f"{k}: {show(a.get(k))} -> {show(b.get(k))}" + (f" (+{len(names) - 1} more)" if len(names) > 1 else "")


def reference(inputs, key, cache, refdir):
    """Content (date erased) and read-back of ONE call on a freshly constructed writer for the arguments as they are at that
    moment — scenario, planning problems, ... rebuilt from the specification for every reference, with the in-place edits
    the history made so far re-applied, and with the values the writer was given explicitly or through its setters:
    key = (inp, fmt, prec, kind[, edits, overrides])."""
    if key in cache:
        return cache[key]
    from commonroad.common.writer.file_writer_interface import precision
    i, fmt, prec, kind = key[:4]
    edits = list(key[4]) if len(key) > 4 else []
    over = dict(key[5]) if len(key) > 5 else {}
    over = {a: json.loads(t) for a, t in over.items()}
    saved = precision.decimals
    path = os.path.join(refdir, f"ref{len(cache)}")
    try:
        spec = dict(inputs[i]["spec"], edits=list(inputs[i]["spec"].get("edits", [])) + edits)
        w = make_writer(build_input(spec), fmt, prec, "facade", None, over)
        r = do_write(w, kind, path, "always", None, REF_DATE)
        if r[0] == "ok" and os.path.isfile(path):
            content = erase_date(open(path, "rb").read())
            rb = call(read_back, path, fmt)
            cache[key] = {"content": content, "readback": rb}
        else:
            cache[key] = {"content": None, "error": r}
    finally:
        precision.decimals = saved
    return cache[key]


def over_key(over):
    return tuple(sorted((a, json.dumps(t, sort_keys=True)) for a, t in over.items()))


def run_case(ctx, case, model=True):
    import logging
    from commonroad.common.writer.file_writer_interface import precision
    logging.getLogger("commonroad").setLevel(logging.ERROR)
    inputs = [build_input(s) for s in case["inputs"]]
    names = {s["name"]: s["id"] for s in case["inputs"]}
    top = ctx.tmpdir()
    n = len(os.listdir(top))
    work, refdir = os.path.join(top, f"c{n}"), os.path.join(top, f"r{n}")
    os.makedirs(os.path.join(work, "sub"))
    os.makedirs(refdir)
    for p, k in case["pre"]:
        with open(os.path.join(work, p), "wb") as f:
            f.write(b"" if k == 0 else b"foreign-%d\n" % k)       # foreign file number 0 is an EMPTY existing file
    cwd = os.getcwd()
    os.chdir(work)
    g_before = precision.decimals
    precision.decimals = case.get("g0", 4)
    try:
        writers, meta, outcomes, events = {}, {}, [], []
        gprecs, dates, reads, erased = [], [], [], []     # global precision after every op; date per op; per visible write
        edits = {i: [] for i in range(len(inputs))}       # in-place edits per input so far
        over, last_content = {}, {}                       # per writer: values given explicitly / by setters; last file written
        vis, op_version = {}, {}      # per op index: (erased content, read-back) of a visible write; version of the arguments
        order = []                       # labels in order of construction (model index)
        mutated = {}                     # per input: (label, fmt, prec, what) of every write call that changed the arguments it was given
        for op in case["ops"]:
            if op[0] == "setglobal":             # user code assigns the public module global
                precision.decimals = op[1]
                outcomes.append("done")
                gprecs.append(int(precision.decimals))
                dates.append("")
                events.append(("setglobal", op[1]))
                continue
            if op[0] == "edit":                  # in-place edit of the objects the writers were given (not a model op)
                call(apply_edit, inputs[op[1]], op[2])
                edits[op[1]].append(op[2])
                events.append(("edit", op[1], op[2]))
                continue
            if op[0] == "query":                 # read-only use of the objects (not a model op)
                run_query(inputs[op[1]], op[2])
                events.append(("query", op[1], op[2]))
                continue
            if op[0] in ("set", "queryw"):
                label = op[1]
                if label not in writers:
                    continue
                target = getattr(writers[label], "_file_writer", writers[label])      # the facade exposes no setters itself
                if op[0] == "set":
                    _, _, attr, token = op
                    if attr == "root_node":
                        from lxml import etree
                        if hasattr(type(target), "root_node"):
                            with contextlib.redirect_stderr(io.StringIO()):
                                call(setattr, target, "root_node", etree.Element("other"))
                    else:
                        r = call(setattr, target, attr, materialise(attr, token))
                        if r[0] == "ok":
                            over[label][attr] = token
                    events.append(("set", label, attr))
                else:
                    if op[2] == "root_node":
                        call(lambda: list(getattr(target, "root_node", [])))
                    elif last_content.get(label) is not None:
                        with contextlib.redirect_stdout(io.StringIO()):
                            call(type(target).check_validity_of_commonroad_file, last_content[label])
                    events.append(("queryw", label, op[2]))
                continue
            if op[0] == "new":
                _, label, fmt, i, prec, via = op[:6]
                nopts = op[6] if len(op) > 6 and op[6] else {}
                over[label] = {a: explicit_value(case["inputs"][i], a) for a in nopts.get("explicit", [])}
                r = call(make_writer, inputs[i], fmt, prec, via, nopts, over[label])
                if r[0] == "ok":
                    writers[label] = r[1]
                    meta[label] = {"fmt": fmt, "inp": i, "prec": 4 if prec is None else prec, "writes": 0, "born": len(events),
                                   "opts": nopts}
                    outcomes.append({"created": len(order)})
                    order.append(label)
                    events.append(("new", label))
                else:
                    outcomes.append({"err": r[1]})
                    ctx.fail(f"C15/{fmt}.__init__/raises-{r[1]}", f"constructing a {fmt} writer raised {r[2]}", case)
                gprecs.append(int(precision.decimals))
                dates.append("")
                continue
            _, label, kind, file, mode, answer = op[:6]
            date = op[6] if len(op) > 6 else None
            wopts = op[7] if len(op) > 7 and op[7] else {}
            if label not in writers:
                outcomes.append({"err": "index"})
                gprecs.append(int(precision.decimals))
                dates.append("")
                continue
            mt = meta[label]
            before = {rel: open(p, "rb").read() for rel, p in list_files(work).items()}
            for p in list_files(work).values():
                os.utime(p, ns=(10 ** 9, 10 ** 9))
            snap = snapshot(inputs[mt["inp"]])
            r = do_write(writers[label], kind, file, mode, answer, date, wopts)
            gprecs.append(int(precision.decimals))
            moved = snapshot_diff(snap, snapshot(inputs[mt["inp"]]))
            if moved:
                mutated.setdefault(mt["inp"], []).append((label, mt["fmt"], mt["prec"], moved))
            after = list_files(work)
            now = {rel: open(p, "rb").read() for rel, p in after.items()}
            # visible change: a new file, or other bytes than before (date stamp aside)
            visible = sorted(rel for rel in now if rel not in before or (now[rel] != before[rel] and erase_date(now[rel]) != erase_date(before[rel])))
            # performed: also a rewrite with the same bytes (seen by the time stamp) unless the call was told to keep the file
            keep = mode == "skip" or (mode == "ask" and answer == "n")
            changed = sorted(set(visible) | {rel for rel, p in after.items() if not keep and os.stat(p).st_mtime_ns != 10 ** 9})
            ev = {"label": label, "kind": kind, "file": file, "mode": mode, "changed": changed, "result": r[0], "answer": answer,
                  "prior_writes": mt["writes"], "since": [e for e in events[mt["born"] + 1:]], "opts": wopts,
                  "edits": tuple(edits[mt["inp"]]), "over": over_key(over[label]),
                  "mutated_before": list(mutated.get(mt["inp"], []))}
            seen_date = ""
            if r[0] == "err":
                outcomes.append({"err": r[1]})
                ev["err"] = r
            elif not visible:
                outcomes.append("no-change")
            else:
                d = call(describe, now[visible[0]], names)
                outcomes.append({"wrote": [visible[0], d[1] if d[0] == "ok" else {"unreadable": d[1]}]})
                rb = call(_read_bytes, now[visible[0]], mt["fmt"], refdir)
                vis[len(outcomes) - 1] = (erase_date(now[visible[0]]),
                                          None if rb[0] == "err" else (mt["fmt"], rb[1][1] or json.dumps(rb[1][0], sort_keys=True)))
            op_version[len(outcomes) - 1] = (tuple(edits[mt["inp"]]), over_key(over[label]))
            if r[0] == "ok" and changed:
                rel = visible[0] if visible else changed[0]
                ev["content"] = now[rel]
                ev["path"] = rel
                last_content[label] = now[rel]
                mt["writes"] += 1
                d = call(describe, now[rel], names)
                seen_date = (d[1].get("date") or "") if d[0] == "ok" else ""
                ev["date"] = seen_date
            dates.append(seen_date)
            # SKIP leaves every existing file byte-for-byte untouched
            if mode == "skip":
                for rel, old in before.items():
                    now = open(after[rel], "rb").read() if rel in after else None
                    if now != old:
                        ctx.fail(f"C15/{mt['fmt']}.{METHOD[kind]}/skip-modified-existing-file",
                                 f"{METHOD[kind]}({file!r}, SKIP) changed the existing file {rel} "
                                 f"({len(old)} bytes -> {'deleted' if now is None else str(len(now)) + ' bytes'})", case)
            events.append(("write", label, ev))
        final = list_files(work)
        paths = sorted(set(POOL) | {s["name"] + sfx for s in case["inputs"] for sfx in ("", ".xml", ".pb")} | set(final))
        fs = []
        for p in paths:
            if p in final:
                d = call(describe, open(final[p], "rb").read(), names)
                fs.append(d[1] if d[0] == "ok" else {"unreadable": d[1]})
            else:
                fs.append(None)
        impl = {"outcomes": outcomes, "fs": fs, "gprecs": gprecs, "readable": [], "equalities": []}

        # ---- buckets
        classify(ctx, case, meta, events)
        ctx.case(case, nontrivial=sum(1 for e in events if e[0] == "write" and e[2].get("content") is not None) >= 2)

        # ---- correspondence
        if model:
            idx = {label: j for j, label in enumerate(order)}
            mops = []
            for op in case["ops"]:
                if op[0] == "new":
                    mops.append(["new", op[2], op[3], 4 if op[4] is None else op[4]])
                elif op[0] == "setglobal":
                    mops.append(["setglobal", op[1]])
                elif op[0] == "write":
                    ans_tok = {"n": "n", "EOF": "eof"}.get(op[5], "other")
                    mops.append(["write", idx.get(op[1], 10 ** 6), op[2], op[3], op[4], ans_tok, dates[len(mops)]])
                # edit / query / set / queryw: the model's Input is a value, its symbolic image does not change
            minputs = []
            for sp in case["inputs"]:
                mi = {"id": sp["id"], "name": sp["name"], "hasPP": sp["npp"] > 0}
                if sp.get("bad_goal_time") and sp["npp"] > 0:
                    mi.update(xmlErr="assert", pbErr="type")
                minputs.append(mi)
            ans = ctx.driver.ask("C15", "run", {"gprec": case.get("g0", 4), "inputs": minputs, "pre": case["pre"], "ops": mops,
                                                "paths": paths, "unwritable": sorted({op[3] for op in case["ops"]
                                                                                      if op[0] == "write" and op[3] and op[3].startswith("nodir/")})})
            # outcomes are compared by what is visible in the directory: a rewrite with the content that was there
            # (date stamp aside) is no change
            cur, cur_ver = {p: {"foreign": k} for p, k in case["pre"]}, {}
            mout, mvis = [], {}
            iout = list(outcomes)
            for j, o in enumerate(ans["outcomes"]):
                if o == "skipped":
                    o = "no-change"
                elif isinstance(o, dict) and "wrote" in o:
                    p, d = o["wrote"]
                    er = o["erased"]
                    ver = op_version.get(j)
                    if cur.get(p) == er and cur_ver.get(p) == ver:
                        new_o = "no-change"
                    elif cur.get(p) == er:
                        # the same symbolic content written from another version of the arguments (a setter / an in-place edit
                        # in between): whether the bytes changed is the oracle's business — both answers are accepted
                        new_o = "wrote-or-no-change"
                        if j < len(iout) and (iout[j] == "no-change" or iout[j] == {"wrote": [p, d]}):
                            iout[j] = "wrote-or-no-change"
                    else:
                        new_o = {"wrote": [p, d]}
                    if j in vis:
                        mvis[j] = (json.dumps(er, sort_keys=True), None if o["read"] is None else json.dumps(o["read"]))
                    cur[p], cur_ver[p] = er, ver
                    o = new_o
                mout.append(o)
            impl["outcomes"] = iout
            # equality patterns (which produced files are equal date-aside / read back alike): the model's Input is a value, so
            # its prediction "equal" only binds for files written from the same version of the arguments (same in-place edits,
            # same explicit / set values); "different" in the model must be different in the implementation
            js = sorted(set(vis) & set(mvis))
            vers = [op_version[j] for j in js]
            impl["readable"] = [vis[j][1] is not None for j in js]
            impl["equalities"] = eq_violations([vis[j][0] for j in js], [mvis[j][0] for j in js], vers, "erased") + \
                eq_violations([vis[j][1] for j in js], [mvis[j][1] for j in js], vers, "read-back")
            ctx.compare(case, impl, {"outcomes": mout, "fs": ans["fs"], "gprecs": ans["gprecs"],
                                     "readable": [mvis[j][1] is not None for j in js], "equalities": []},
                        "writer history vs CR.Writer.run repaired symCodec")

        # ---- oracle: content is a function of the writer's own inputs
        cache = {}
        # after the history: one more identically constructed writer per input and format, on the very objects the
        # history's writers were given — its file must be the file for these arguments (a write must not change them)
        written = {meta[e[1]]["inp"]: set() for e in events if e[0] == "write" and e[2].get("content") is not None}
        for e in events:
            if e[0] == "write" and e[2].get("content") is not None:
                written[meta[e[1]]["inp"]].add(meta[e[1]]["fmt"])
        for i in sorted(written):
            for fmt in ("xml", "pb"):
                kind = "full"
                ref = reference(inputs, (i, fmt, 4, kind, tuple(edits[i]), ()), cache, refdir)
                if ref["content"] is None:
                    kind = "scenario"
                    ref = reference(inputs, (i, fmt, 4, kind, tuple(edits[i]), ()), cache, refdir)
                    if ref["content"] is None:
                        continue
                path = os.path.join(refdir, f"probe_{i}_{fmt}")
                r = call(make_writer, inputs[i], fmt, 4, "facade")
                r = do_write(r[1], kind, path, "always", None, REF_DATE) if r[0] == "ok" else r
                ctx.tag("probe-after-history")
                if written[i] - {fmt}:
                    ctx.tag("probe-after-other-format")
                site = f"C15/{fmt}.{METHOD[kind]}"
                what = (f"after the history (writes with {sorted(written[i])} writers on input {i}) a newly constructed {fmt} writer on "
                        f"the same scenario / planning-problem objects")
                if r[0] == "err":
                    ctx.fail(f"{site}/identical-writer-after-history-raises-{r[1]}", f"{what} raises {r[2]}", case)
                elif os.path.isfile(path) and erase_date(open(path, "rb").read()) != ref["content"]:
                    ctx.fail(f"{site}/identical-writer-after-history-differs",
                             f"{what} writes {len(erase_date(open(path, 'rb').read()))} bytes, for the arguments as given it is "
                             f"{len(ref['content'])} bytes: an earlier write changed its arguments", case)
        for e in events:
            if e[0] != "write":
                continue
            ev = e[2]
            mt = meta[ev["label"]]
            fmt, kind = mt["fmt"], ev["kind"]
            site = f"C15/{fmt}.{METHOD[kind]}"
            if ev["result"] == "err":
                if ev["file"] == "" or (ev["file"] or "").startswith("nodir/") or ev["answer"] == "EOF":
                    ctx.excluded += 1        # no file name / no such directory / input() raised: the text says nothing about it
                elif reference(inputs, (mt["inp"], fmt, mt["prec"], kind, ev["edits"], ev["over"]), cache, refdir)["content"] is None:
                    ctx.excluded += 1        # one call on a fresh identical writer raises as well: this input cannot be written
                else:
                    ctx.fail(f"{site}/raises-{ev['err'][1]}", f"{METHOD[kind]}({ev['file']!r}, {ev['mode']}) raised {ev['err'][2]}", case)
                continue
            if ev.get("content") is None:
                continue
            if len(ev["changed"]) > 1:
                ctx.fail(f"{site}/touched-several-files", f"one call changed {ev['changed']}", case)
            ref = reference(inputs, (mt["inp"], fmt, mt["prec"], kind, ev["edits"], ev["over"]), cache, refdir)
            if ref["content"] is None:
                continue                      # the single-call baseline itself fails: not this property's business
            got = erase_date(ev["content"])
            if got != ref["content"]:
                others = [x for x in ev["since"] if x[0] == "new"]
                obs, why = "content-differs", ""
                for x in reversed(others):
                    p2 = meta[x[1]]["prec"]
                    if p2 != mt["prec"]:
                        alt = reference(inputs, (mt["inp"], fmt, p2, kind, ev["edits"], ev["over"]), cache, refdir)
                        if alt["content"] == got:
                            obs, why = "precision-of-other-writer", f" — it is the content for decimal_precision={p2}, the precision of a writer constructed in between"
                            break
                byother = [x for x in ev["mutated_before"] if x[0] != ev["label"]]
                if obs == "content-differs" and byother:
                    l2, f2, p2, moved = byother[-1]
                    obs, why = "content-differs-after-other-writer-changed-arguments", (
                        f" — the write call of another writer in between ({f2}, decimal_precision={p2}) modified the scenario / "
                        f"planning-problem objects it was given in place: {moved}")
                if obs == "content-differs" and ev["prior_writes"] > 0:
                    obs, why = "second-write-differs", f" — write number {ev['prior_writes'] + 1} of this writer object"
                ctx.fail(f"{site}/{obs}",
                         f"{fmt} writer (input {mt['inp']}, decimal_precision={mt['prec']}) {METHOD[kind]} -> {ev['path']}: {len(got)} bytes, a fresh "
                         f"identical writer gives {len(ref['content'])} bytes{why}", case)
            # each such file reads back, and to the same scenario
            rb = call(_read_bytes, ev["content"], fmt, refdir)
            if rb[0] == "err":
                if ref["readback"][0] == "ok":
                    ctx.fail(f"{site}/readback-raises-{rb[1]}", f"the file written by {METHOD[kind]} cannot be read back: {rb[2]}", case)
            elif ref["readback"][0] == "ok":
                if rb[1][0] != ref["readback"][1][0]:
                    ctx.fail(f"{site}/readback-ids-differ", f"read back {rb[1][0]}, the file of a fresh identical writer reads back {ref['readback'][1][0]}", case)
                elif rb[1][1] != ref["readback"][1][1] and None not in (rb[1][1], ref["readback"][1][1]):
                    ctx.fail(f"{site}/readback-differs", "the file reads back to a different scenario than the file of a fresh identical writer", case)
        return impl
    finally:
        precision.decimals = g_before
        os.chdir(cwd)


def eq_violations(impl_keys, model_keys, versions, what):
    out = []
    for a in range(len(impl_keys)):
        for b in range(a + 1, len(impl_keys)):
            if impl_keys[a] is None or impl_keys[b] is None or model_keys[a] is None or model_keys[b] is None:
                continue
            i_eq, m_eq = impl_keys[a] == impl_keys[b], model_keys[a] == model_keys[b]
            if m_eq and versions[a] == versions[b] and not i_eq:
                out.append(f"{what}: produced files {a} and {b} equal in the model, different in the implementation")
            if i_eq and not m_eq:
                out.append(f"{what}: produced files {a} and {b} equal in the implementation, different in the model")
    return out


def classes(xs):
    """Equality pattern of a list: every element replaced by the index of its first occurrence (None stays None)."""
    first, out = {}, []
    for x in xs:
        if x is None:
            out.append(None)
        else:
            out.append(first.setdefault(x, len(first)))
    return out


def _read_bytes(content, fmt, refdir):
    p = os.path.join(refdir, "tmp_readback")
    with open(p, "wb") as f:
        f.write(content)
    return read_back(p, fmt)


def classify(ctx, case, meta, events):
    """Coverage buckets of a history."""
    for sp in case["inputs"]:
        for flag, tag in (("int_coords", "value/int-coordinates"), ("sign", "scenario/traffic-sign"), ("light", "scenario/traffic-light")):
            if sp.get(flag):
                ctx.tag(tag)
        if sp["npp"] == 0:
            ctx.tag("value/empty-planning-problem-set")
        if not sp["tags"]:
            ctx.tag("value/empty-tags")
        if sp.get("big"):
            ctx.tag("value/large-magnitude")
        if any(not t for t in sp.get("ltypes", [["URBAN"]] * 4)[:sp["nl"]]):
            ctx.tag("lanelet-type/empty")
        if sp.get("goal_lanelets"):
            ctx.tag("goal/lanelets")
        if tiny_values(sp):
            ctx.tag("value/tiny-boundary-coordinate")
    # a boundary coordinate t below the resolution of a COARSER XML writer that performed a write, and a LATER performed write
    # of another writer on the same input that resolves t (finer XML precision, or protobuf = full doubles)
    coarse = {}
    for e in events:
        if e[0] != "write" or e[2].get("content") is None:
            continue
        m = meta[e[2]["label"]]
        ts = [abs(t) for t in tiny_values(case["inputs"][m["inp"]])]
        for (l2, pc) in coarse.get(m["inp"], []):
            if l2 != e[2]["label"] and any(t < 10.0 ** -pc and (m["fmt"] == "pb" or (m["prec"] > pc and t >= 10.0 ** -m["prec"])) for t in ts):
                ctx.tag("value/below-resolution-of-coarser-writer-between")
                ctx.tag(f"value/below-resolution-of-coarser-writer-between/later-{m['fmt']}")
                if m["writes"] > 1 and e[2]["prior_writes"] > 0:
                    ctx.tag("value/below-resolution-of-coarser-writer-between/same-writer-again")
        if m["fmt"] == "xml":
            coarse.setdefault(m["inp"], []).append((e[2]["label"], m["prec"]))
    if len(case["inputs"]) > 1:
        ctx.tag("two-inputs")
    if case["pre"]:
        ctx.tag("pre-existing")
    sigs = {}
    for label, m in meta.items():
        sigs.setdefault((m["fmt"], m["inp"], m["prec"]), []).append(label)
        ctx.tag(f"fmt/{m['fmt']}")
        if m["prec"] in (1, 12):
            ctx.tag(f"precision/{m['prec']}")
    for op in case["ops"]:
        if op[0] == "new":
            if op[4] is None:
                ctx.tag("precision/default")
            if op[5] == "class":
                ctx.tag("via/class")
            o = op[6] if len(op) > 6 and op[6] else {}
            if o.get("explicit") and len(o["explicit"]) < 5:
                ctx.tag("ctor/some-arguments-explicit")
            if o.get("np"):
                ctx.tag("ctor/numpy-precision")
            if o.get("fmt_default") and op[2] == "xml" and op[5] == "facade":
                ctx.tag("ctor/default-file-format")
    pending = set()          # kinds of non-write operations since the last performed write
    failed_before = False
    for e in events:
        if e[0] in ("setglobal", "set", "edit", "query", "queryw"):
            pending.add(e[0])
        elif e[0] == "write":
            ev = e[2]
            if ev["opts"].get("cv") and ev["kind"] == "full":
                ctx.tag("write/check-validity")
            if ev["opts"].get("kw"):
                ctx.tag("write/keyword-arguments")
            if ev["answer"] == "EOF" and ev["result"] == "err":
                ctx.tag("ask/input-raises")
                failed_before = True
            if (ev["file"] or "").startswith("nodir/") and ev["result"] == "err":
                ctx.tag("write/no-such-directory")
                failed_before = True
            if ev.get("content") is not None:
                for k in pending:
                    ctx.tag(f"{k}-then-write")
                pending = set()
                if failed_before:
                    ctx.tag("write-after-failed-call")
    wrote_by_sig = {}
    raised, dates_by_sig = set(), {}
    for e in events:
        if e[0] != "write":
            continue
        ev = e[2]
        m = meta[ev["label"]]
        if ev["result"] == "err" and ev["file"] != "":
            ctx.tag("raising-write")
            raised.add(ev["label"])
        elif ev.get("content") is not None:
            if ev["label"] in raised:
                ctx.tag("write-after-raising-write")
            elif raised:
                ctx.tag("other-writer-raised-before")
            k = (m["fmt"], m["inp"], m["prec"], ev["kind"])
            if any(d != ev.get("date") for d in dates_by_sig.get(k, [])):
                ctx.tag("dates-differ")
            dates_by_sig.setdefault(k, []).append(ev.get("date"))
        ctx.tag(f"kind/{ev['kind']}")
        if ev["file"] is None:
            ctx.tag("name/default")
        performed = ev.get("content") is not None
        if performed:
            if ev["prior_writes"] > 0:
                ctx.tag("same-writer-twice")
            sig = (m["fmt"], m["inp"], m["prec"])
            if any(l != ev["label"] for l in wrote_by_sig.get(sig, [])):
                ctx.tag("identical-writers")
            wrote_by_sig.setdefault(sig, []).append(ev["label"])
            for x in ev["since"]:
                if x[0] == "new":
                    o = meta[x[1]]
                    if o["prec"] != m["prec"]:
                        ctx.tag("other-precision-between")
                    if o["fmt"] != m["fmt"]:
                        ctx.tag("other-format-between")
    # a writer called for a path it wrote itself earlier and somebody else rewrote since
    mine, last = {}, {}
    for e in events:
        if e[0] != "write":
            continue
        ev = e[2]
        target = ev.get("path") if ev.get("content") is not None else (ev["file"] if ev["file"] not in (None, "") else None)
        if target is None:
            continue
        if target in mine.get(ev["label"], set()) and last.get(target) not in (None, ev["label"]):
            ctx.tag(f"own-path-rewritten-by-other/{ev['mode']}")
        if ev.get("content") is not None:
            mine.setdefault(ev["label"], set()).add(target)
            last[target] = ev["label"]
    # existing-target buckets are tagged by the generator-independent replay of names below
    names = set(p for p, _ in case["pre"])
    for e in events:
        if e[0] != "write":
            continue
        ev = e[2]
        target = ev.get("path")
        if ev.get("content") is None and ev["result"] == "ok" and ev["file"] not in (None, ""):
            target = ev["file"]
        if target is None:
            continue
        if target in names:
            ctx.tag(f"mode/{ev['mode']}-existing")
            if ev.get("content") is not None:
                ctx.tag("name/collision")
        if ev.get("content") is not None:
            names.add(target)


# ------------------------------------------------------------------------------------------------ generator

def gen_case(ctx):
    r = ctx.rng
    n_in = r.choice([1, 1, 2])
    inputs = [gen_input(r, k) for k in range(n_in)]
    n_w = r.randint(2, 4)
    specs = []
    for j in range(n_w):
        if specs and r.random() < 0.45:
            fmt, i, prec = r.choice(specs)                        # an identical writer
            if r.random() < 0.3:
                prec = r.choice([p for p in range(1, 13) if p != prec])   # same input, other precision
        else:
            fmt = r.choice(["xml", "xml", "pb"])
            i = r.randrange(n_in)
            prec = r.choice([1, 2, 3, 4, 4, 5, 6, 8, 10, 11, 12, 12, r.randint(1, 12)])
        specs.append((fmt, i, prec))
    labels = [f"w{j}" for j in range(n_w)]
    explicit = {}
    for sp in set(specs):              # identical writers are identical in what they are given explicitly, too
        c = r.random()
        explicit[sp] = [] if c < 0.55 else (["author", "affiliation", "source", "tags", "location"] if c < 0.65 else
                                             sorted(r.sample(["author", "affiliation", "source", "tags", "location"], r.randint(1, 3))))
    news = [["new", labels[j], specs[j][0], specs[j][1], None if specs[j][2] == 4 and r.random() < 0.6 else specs[j][2],
             r.choice(["facade", "facade", "class"]),
             {"explicit": explicit[specs[j]], "np": r.random() < 0.15, "fmt_default": r.random() < 0.3}] for j in range(n_w)]
    n_writes = r.randint(1, 7)
    ops, alive, pending = [news[0]], [labels[0]], news[1:]
    writes_left = n_writes
    last = None
    while writes_left or pending:
        if pending and (not writes_left or r.random() < 0.4):
            op = pending.pop(0)
            ops.append(op)
            alive.append(op[1])
            continue
        if not writes_left:
            break
        label = last if last is not None and r.random() < 0.45 else r.choice(alive)
        last = label
        kind = r.choice(["full", "full", "scenario"])
        c = r.random()
        file = None if c < 0.2 else ("" if c < 0.23 else ("nodir/f9.xml" if c < 0.28 else r.choice(POOL)))
        c = r.random()
        mode, answer = ("always", None) if c < 0.5 else (("skip", None) if c < 0.8 else ("ask", r.choice(["n", "y", "", "no", "EOF"])))
        # between two calls: user code assigns the global precision, uses a setter, edits the scenario in place, queries it
        c = r.random()
        if c < 0.10:
            ops.append(["setglobal", r.choice([1, 2, 7, 12, 15])])
        elif c < 0.20:
            attr = r.choice(SETTABLE)
            i_of = next(o[3] for o in ops if o[0] == "new" and o[1] == label)
            # (location = None is not generated: a constructor cannot be given "no location" when the scenario has one)
            token = None if attr == "root_node" else ([4242, 1.5, 2.5] if attr == "location" and r.random() < 0.5
                                                      else (explicit_value(inputs[i_of], attr) if attr in ("tags", "location")
                                                            else f"{attr} set later {r.randint(0, 9)}"))
            ops.append(["set", r.choice(alive), attr, token])
        elif c < 0.30:
            ops.append(["edit", r.randrange(n_in), r.choice(EDITS)])
        elif c < 0.42:
            ops.append(["query", r.randrange(n_in), r.choice(QUERIES)])
        elif c < 0.47:
            ops.append(["queryw", r.choice(alive), r.choice(["root_node", "validity"])])
        ops.append(["write", label, kind, file, mode, answer, None if r.random() < 0.1 else r.choice(DATES),
                    {"cv": r.random() < 0.08, "kw": r.random() < 0.3}])
        writes_left -= 1
    # a path this writer wrote itself, rewritten by another writer, then this writer again with SKIP / ASK-no / ALWAYS
    if len(alive) >= 2 and r.random() < 0.4:
        a = r.choice(alive)
        b = r.choice([x for x in alive if x != a])
        sig = {o[1]: (o[2], o[3], o[4], json.dumps(o[6], sort_keys=True)) for o in ops if o[0] == "new"}
        path = r.choice(POOL)
        ka = r.choice(["full", "full", "scenario"])
        kb = ka if sig[a] != sig[b] else ("scenario" if ka == "full" else "full")      # B's file differs from A's
        mode, answer = r.choice([("skip", None), ("skip", None), ("ask", "n"), ("always", None)])
        ops.append(["write", a, ka, path, "always", None, r.choice(DATES), {"cv": False, "kw": r.random() < 0.3}])
        ops.append(["write", b, kb, path, "always", None, r.choice(DATES), {"cv": False, "kw": False}])
        ops.append(["write", a, ka, path, mode, answer, r.choice(DATES), {"cv": False, "kw": r.random() < 0.3}])
    pre = []
    for k in range(r.choice([0, 0, 1, 2])):
        p = r.choice(POOL + [inputs[0]["name"] + ".xml", inputs[0]["name"]])
        if p not in [q for q, _ in pre]:
            pre.append([p, 0 if r.random() < 0.3 else k + 1])        # 0: an existing file of zero bytes
    return {"g0": r.choice([4, 4, 7]), "inputs": inputs, "pre": pre, "ops": ops}


def run(ctx):
    from common import InfraError
    problem = None
    try:
        check_dimensions()
    except InfraError as e:          # code growth the table does not know: the histories run first — a concrete failure takes precedence
        problem = e
    for p in sorted(glob.glob(os.path.join(CORPUS_DIR, "C15", "*.json"))):
        run_case(ctx, json.load(open(p)))
    for _ in range(ctx.n(300)):
        run_case(ctx, gen_case(ctx))
    if problem is not None and not ctx.failures:
        raise problem                # never a silent pass


search = run


def replay(ctx, case):
    run_case(ctx, case, model=False)


def _fails(case, key):
    ctx = Ctx("C15", "quick", 0)
    try:
        run_case(ctx, case, model=False)
        return any(f.key == key for f in ctx.failures)
    except Exception:  # noqa
        return False
    finally:
        ctx.close()


def shrink(case, key):
    """Drop operations (a construction together with the writes on it), files and inputs while the same finding stays."""
    cur = case
    changed = True
    while changed:
        changed = False
        for j in range(len(cur["ops"]) - 1, -1, -1):
            op = cur["ops"][j]
            ops = [o for n, o in enumerate(cur["ops"]) if n != j and not (op[0] == "new" and o[1] == op[1])]
            cand = dict(cur, ops=ops)
            if ops and _fails(cand, key):
                cur, changed = cand, True
                break
    if cur["pre"] and _fails(dict(cur, pre=[]), key):
        cur = dict(cur, pre=[])
    return cur
