"""C02 — protobuf write -> read is lossless.
model: lean/CRModel/CRProto.lean (CR.PBF); theorems: lean/CRProps/C02.lean; generator: c02_gen.py; snapshot: c02_snapshot.py.

Per case (a JSON spec of a scenario x planning-problem set, built through the public constructors):
  implementation   CommonRoadFileWriter(..., file_format=PROTOBUF).write_to_file -> CommonRoadFileReader(path).open()
  correspondence   (1) model `encodePb` of snapshot(original)  vs  the message tree parsed from the written file
                   (2) model `decodePb` of that message tree    vs  snapshot(read back)        (state classes included)
                   (3) model `decodePb (encScn x)`              vs  snapshot(read back)
                   (4) reader-only: optional fields cleared in the real message, real reader vs model `decodePb`
                   (5) writer error branches: out-of-range integers, enum members / state attributes the .proto lacks
                   (6) one writer object used for several files (write_to_file / write_scenario_to_file in any order):
                       every file's message tree vs the model's writer object CR.PBF.Wr.run
  oracle           every file of (6) read back vs the content handed to the writer (scenario-only file: no planning problem);
                   snapshot(original) vs snapshot(read back): discrete content identical, every real compared by float.hex(),
                   absent optional data absent, unset attributes of initial states read back as 0 (C01's documented default)
"""
from __future__ import annotations

import contextlib
import copy
import glob
import io as io_mod
import json
import logging
import os
import re
import traceback

import c02_gen as G
import c02_snapshot as S
from common import CORPUS_DIR, InfraError, err_class

RULE = ("DIMENSIONS (harness/c02_dims.py, 626 entries over 52 classes, checked against the real signatures every run) decides for every constructor parameter / setter / public operation how it is varied. "
        "A case is one scenario x planning-problem set spec (<= 4 lanelets, <= 3 signs, <= 2 lights, <= 2 intersections, "
        "<= 8 obstacles of the four roles, <= 3 planning problems) built through the public constructors with every optional "
        "constructor argument independently given / left at its default, enum members drawn from (Python enum ∩ .proto enum), "
        "reals from dyadic / uniform / subnormal / huge / -0.0 / Python-int pools; non-trivial = the case holds at least one "
        "element beyond the header; distinct = distinct canonical JSON of the spec")
ASSUMPTIONS = [
    "protobuf SerializeToString/ParseFromString is the identity on message trees (the harness re-parses the written file)",
    "ScenarioID.from_benchmark_id(str(id)) is the identity (property C13); the benchmark id is an opaque string in the model",
    "domain as in C01: 2-D, ids in [1, 2^32), time steps < 2^31, explicit sign/light positions, non-empty light cycle, string geo "
    "reference, state attributes that message State has a field for (KSTState.hitch_angle, LateralState.lateral_position, "
    "LongitudinalState.longitudinal_position have none: C02_unwritable_classes), incoming elements whose incoming_lanelets is a set",
    "initial states are InitialState objects (as Obstacle.initial_state asserts and PlanningProblem.initial_state is annotated, and "
    "as the 2020a schema of C01 can express): a PlanningProblem handed an STState/CustomState with extra attributes is constructible "
    "(the setter only checks mandatory fields) and loses those attributes on write->read in BOTH formats — outside the quantifier; "
    "Lean witness C02_witness_initial_extra_dropped, replayed on the real code by corpus/C02/outside_pp_initial_state_is_ststate.json",
    "a signal-state object without any slot (SignalState()) carries no information: as initial_signal_state it reads back as None, "
    "inside a signal series as the None the reader appends (shown as the all-unset signal state)",
    "a state's populated attributes form a map; snapshots list it in protobuf descriptor order (St.wf): the order is not content",
    "exact orientations of states are arbitrary doubles (State does not normalise them): unwrapped yaw angles beyond +-2 pi are "
    "generated and must come back bit-identical; Rectangle.orientation is validated to [-2 pi, 2 pi] by its setter, so shapes get "
    "the range ends only; a Polygon-shaped obstacle with an unwrapped initial orientation is refused by the constructor (excluded)",
    "time steps are Python `int` (numpy integers are refused by Trajectory's own assertion and by the writer's isinstance(.., int)); "
    "reals may be float, int or numpy.float64; lanelet ids may be numpy.int64",
    "read route open(lanelet_assignment=True) is compared only when every obstacle state is exact with position and orientation; if "
    "the assignment geometry (C07's machinery) still raises, the case is counted as excluded",
    "the header a writer object writes (author, affiliation, source, tags, location) is the one captured when the writer was "
    "constructed: histories edit the scenario's objects, not its header attributes (that a writer's output depends on its own "
    "inputs only is C15)",
    "not content (no field in the format / derived): lanelet centre line, obstacle-lanelet assignments, TrafficLight.color/.shape, "
    "TrafficLightCycle.active, dynamic-obstacle meta information/history, the file's date stamp; Location None == Location() "
    "(the writer's documented substitute); an empty reference set == no reference set; state CLASS (only the populated attributes)",
]
TRUSTED = ["google.protobuf (python implementation) parsing of the written file into the message tree handed to the model",
           "harness/c02_snapshot.py reads every attribute through the public accessors faithfully"]
REQUIRED_BUCKETS = ["sign:virtual-true", "sign:first-occurrence", "light:offset", "light:direction", "light:inactive",
                    "signal:horn", "static:default-signals", "dynamic:default-signals", "state:interval-attr",
                    "state:region-position", "pred:set-based", "pred:trajectory", "shape:group", "lanelet:defaults",
                    "lanelet:stop-line", "goal:lanelets-partial", "init:unset-middle-attr", "location:default",
                    "location:env-time-date", "header:via-writer", "phantom", "env-obstacle", "state:no-position",
                    "real:subnormal-or-huge", "reader-defaults", "writer-error:value", "writer-error:attr", "roundtrip-ok",
                    "real:unwrapped-exact-orientation", "real:unwrapped-exact-orientation:init",
                    "real:unwrapped-exact-orientation:traj",
                    "canonical-original", "signal:empty-object", "outside:initial-extra-attribute",
                    "history:write_scenario_to_file-after-write_to_file", "history:write_scenario_to_file-after-nothing",
                    "history:write_scenario_to_file-after-write_scenario_to_file", "history:write_to_file-after-write_to_file",
                    "history:write_to_file-after-write_scenario_to_file", "history:after-a-call-that-raised",
                    "history:scenario-edited-between-calls", "dimension-table-checked",
                    "variant:np", "variant:setters", "variant:inplace", "variant:reid", "variant:update_ops", "variant:extras",
                    "variant:shuffle", "variant:entry-list", "variant:entry-network", "variant:entry-network-list",
                    "variant:sign-refs-by-add", "variant:pps-by-add", "io:queries-before-write", "io:xml_first", "io:prefill",
                    "io:validity", "io:precision", "io:writer-direct", "read-route:Path", "read-route:bytes",
                    "read-route:explicit-format", "read-route:direct", "read-route:reopen", "read-route:lanelet-assignment",
                    "read-route:lanelet-network"]
WORKERS = {"quick": 1, "thorough": 8}
EXTRA_MODULES = ["CRProps.T02"]      # translator tie: Gen.SrcC02 (regenerated from the repo every run) = hand model

logging.disable(logging.CRITICAL)

# ------------------------------------------------------------------------------------------------ real message tree

SET_FIELDS = {("Lanelet", "lanelet_types"), ("Lanelet", "user_one_way"), ("Lanelet", "user_bidirectional"),
              ("Lanelet", "traffic_sign_refs"), ("Lanelet", "traffic_light_refs"), ("StopLine", "traffic_sign_refs"),
              ("StopLine", "traffic_light_refs"), ("TrafficSign", "first_occurrences"), ("Incoming", "incoming_lanelets"),
              ("Incoming", "successors_right"), ("Incoming", "successors_straight"), ("Incoming", "successors_left"),
              ("Intersection", "crossing_lanelets"), ("ScenarioTags", "tags")}


def _leaf(f, v):
    from google.protobuf.descriptor import FieldDescriptor as FD
    if f.type == FD.TYPE_MESSAGE:
        return msg_tree(v)
    if f.type == FD.TYPE_ENUM:
        return {"e": [f.enum_type.name, f.enum_type.values_by_number[v].name]}
    if f.type == FD.TYPE_DOUBLE:
        return {"d": float(v).hex()}
    if f.type == FD.TYPE_INT32:
        return {"i": int(v)}
    if f.type == FD.TYPE_UINT32:
        return {"u": int(v)}
    if f.type == FD.TYPE_BOOL:
        return bool(v)
    if f.type == FD.TYPE_STRING:
        return {"s": str(v)}
    raise TypeError(f"field type {f.type} of {f.full_name}")


def _set_key(v):
    if "u" in v:
        return (0, v["u"], "")
    return (1, 0, v["e"][1])


def msg_tree(msg):
    """Typed tree of the SET fields of a protobuf message (HasField semantics); repeated fields always listed; the
    repeated fields that come out of Python sets are sorted (their order is not content)."""
    from google.protobuf.descriptor import FieldDescriptor as FD
    out = {}
    tname = msg.DESCRIPTOR.name
    for f in msg.DESCRIPTOR.fields:
        if tname == "ScenarioInformation" and f.name == "date":
            continue
        if f.label == FD.LABEL_REPEATED:
            vals = [_leaf(f, v) for v in getattr(msg, f.name)]
            if (tname, f.name) in SET_FIELDS:
                vals.sort(key=_set_key)
            out[f.name] = vals
        elif msg.HasField(f.name):
            out[f.name] = _leaf(f, getattr(msg, f.name))
    return {"m": out}


_PBT = {}


def pb_tables():
    if not _PBT:
        from commonroad.scenario_definition.protobuf_format.generated_scripts import lanelet_pb2
        _PBT.update(G.tables()["pb"])
        _PBT["DrivingDir"] = list(lanelet_pb2.DrivingDirEnum.DrivingDir.keys())
    return _PBT


def tables_for(snap):
    """Only the enum tables a snapshot can touch (the traffic sign tables are large)."""
    T = pb_tables()
    need = {e["country"] for s in snap["signs"] for e in s["elements"]}
    return {k: v for k, v in T.items() if not k.startswith("TrafficSignID") or k in need
            or (k == "TrafficSignIDPuertoRico" and any(c not in T for c in need))}


# ------------------------------------------------------------------------------------------------ implementation runner

def _site(e):
    """Innermost commonroad frame of the traceback as `Class.function` (stable across line-number changes)."""
    tb = e.__traceback__
    site = None
    while tb is not None:
        code = tb.tb_frame.f_code
        if "commonroad" in code.co_filename and "site-packages" not in code.co_filename:
            loc = tb.tb_frame.f_locals
            owner = loc.get("cls") if isinstance(loc.get("cls"), type) else type(loc["self"]) if "self" in loc else None
            site = (owner.__name__ + "." if owner is not None else os.path.basename(code.co_filename) + ":") + code.co_name
        tb = tb.tb_next
    return site or "unknown"


IO_KEYS = {
    "queries": "read-only queries on the scenario / planning problems BEFORE writing (caches filled, lazy attributes materialised)",
    "xml_first": "the same objects are first written by the XML writer (another writer class, process-global decimal precision)",
    "precision": "decimal_precision given to the writer (the protobuf format stores doubles: it must not matter)",
    "writer": "facade | direct: CommonRoadFileWriter(file_format=PROTOBUF) or ProtobufFileWriter itself",
    "prefill": "the target path already holds a LARGER file (OverwriteExistingFile.ALWAYS must replace, not patch, it)",
    "validity": "check_validity_of_commonroad_file(bytes, PROTOBUF) accepts the written file",
    "reads": "alternative read routes that must all return what the plain read returns: pathlib.Path, bytes + file_format, "
             "explicit file_format, ProtobufFileReader, one reader opened twice, open(lanelet_assignment=True), open_lanelet_network()",
}
READ_ROUTES = ["Path", "bytes", "explicit-format", "direct", "reopen", "lanelet-assignment", "lanelet-network"]


def gen_io(r):
    io = {}
    if r.random() < 0.3:
        io["queries"] = True
    if r.random() < 0.15:
        io["xml_first"] = True
    if r.random() < 0.4:
        io["precision"] = r.choice([0, 1, 2, 4, 8, 12])
    io["writer"] = r.choice(["facade", "facade", "direct"])
    if r.random() < 0.2:
        io["prefill"] = True
    if r.random() < 0.3:
        io["validity"] = True
    io["reads"] = [x for x in READ_ROUTES if r.random() < 0.22]
    return io


def pre_queries(sc, pps):
    """Read-only public queries; whatever they raise is none of this property's business."""
    import numpy as np

    def q(f):
        try:
            return f()
        except Exception:  # noqa
            return None

    ln = sc.lanelet_network
    origin = np.array([0.0, 0.0])
    for l in ln.lanelets:
        for f in (lambda: l.polygon, lambda: l.distance, lambda: l.inner_distance, lambda: l.convert_to_polygon(),
                  lambda: l.interpolate_position(0.5), lambda: l.contains_points(np.array([origin])),
                  lambda: l.orientation_by_position(l.center_vertices[0]), lambda: str(l), lambda: l == l):
            q(f)
    for f in (lambda: ln.find_lanelet_by_position([origin]), lambda: ln.lanelet_polygons, lambda: ln.map_inc_lanelets_to_intersections,
              lambda: ln.lanelets_in_proximity(origin, 10.0), lambda: str(ln)):
        q(f)
    for t in ln.traffic_lights:
        q(lambda: t.get_state_at_time_step(3))
        q(lambda: t.traffic_light_cycle.cycle_init_timesteps)
        q(lambda: t.traffic_light_cycle.get_state_at_time_step(0))
    for sg in ln.traffic_signs:
        q(lambda: str(sg))
        q(lambda: sg == sg)
    for x_ in ln.intersections:
        q(lambda: x_.map_incoming_lanelets)
    for o in sc.obstacles:
        t0 = getattr(getattr(o, "initial_state", None), "time_step", 0)
        t0 = t0 if isinstance(t0, int) else 0
        for f in (lambda: o.occupancy_at_time(t0), lambda: o.occupancy_at_time(t0 + 1), lambda: o.state_at_time(t0 + 1),
                  lambda: o.signal_state_at_time_step(t0 + 1), lambda: o.obstacle_shape.shapely_object,
                  lambda: o.prediction.occupancy_set, lambda: o.prediction.final_time_step,
                  lambda: o.prediction.occupancy_at_time_step(t0 + 1), lambda: o.initial_state.attributes, lambda: str(o), lambda: o == o):
            q(f)
    for f in (lambda: sc.occupancies_at_time_step(0), lambda: sc.obstacle_states_at_time_step(1), lambda: str(sc),
              lambda: sc.obstacles_by_position_intervals([]), lambda: sc.generate_object_id.__doc__):
        q(f)
    for p in pps.planning_problem_dict.values():
        q(lambda: p.goal.is_reached(p.initial_state))
        q(lambda: pps.find_planning_problem_by_id(p.planning_problem_id))
        for g in p.goal.state_list:
            q(lambda: g.attributes)
            q(lambda: g.is_uncertain_position)


def make_writer(sc, pps, wkw, io):
    from commonroad.common.file_writer import CommonRoadFileWriter
    from commonroad.common.util import FileFormat
    from commonroad.common.writer.file_writer_protobuf import ProtobufFileWriter
    kw = dict(wkw)
    if io.get("precision") is not None:
        kw["decimal_precision"] = io["precision"]
    if io.get("writer") == "direct":
        return ProtobufFileWriter(sc, pps, **kw)
    return CommonRoadFileWriter(sc, pps, file_format=FileFormat.PROTOBUF, **kw)


def _new_path(ctx, tag):
    ctx._c02_n = getattr(ctx, "_c02_n", 0) + 1
    return os.path.join(ctx.tmpdir(), f"{tag}{ctx._c02_n}.pb")


def write_read(ctx, sc, pps, wkw, tag="c", io=None):
    """Returns dict(write=('ok', bytes)|('err', cls, site, msg), read=('ok', sc, pps)|('err', ...)|None, path)."""
    from commonroad.common.file_reader import CommonRoadFileReader
    from commonroad.common.file_writer import CommonRoadFileWriter, OverwriteExistingFile
    from commonroad.common.util import FileFormat
    io = io or {}
    path = _new_path(ctx, tag)
    out = {"write": None, "read": None, "path": path}
    if io.get("xml_first"):
        try:
            CommonRoadFileWriter(sc, pps, **wkw).write_to_file(path[:-3] + ".xml", OverwriteExistingFile.ALWAYS)
        except Exception:  # noqa  (what the XML format cannot hold is C01's business)
            pass
    if io.get("prefill"):
        with open(path, "wb") as f:
            f.write(b"\x0a\x05stale" * 40000)
    try:
        with contextlib.redirect_stdout(io_mod.StringIO()):          # "Replace file ..." of _handle_file_path
            make_writer(sc, pps, wkw, io).write_to_file(path, OverwriteExistingFile.ALWAYS)
        data = open(path, "rb").read()
        out["write"] = ("ok", data)
    except Exception as e:  # noqa
        out["write"] = ("err", err_class(e), _site(e), f"{type(e).__name__}: {str(e)[:160]}")
        return out
    try:
        sc2, pps2 = CommonRoadFileReader(path).open()
        out["read"] = ("ok", sc2, pps2)
    except Exception as e:  # noqa
        out["read"] = ("err", err_class(e), _site(e), f"{type(e).__name__}: {str(e)[:160]}")
    return out


def assignable(a):
    """lanelet assignment (C07's machinery) needs exact positions and orientations everywhere"""
    def exact(st):
        return st["pos"] is not None and "point" in st["pos"] and any(k == "orientation" and "exact" in v for k, v in st["attrs"])
    for o in a["static"]:
        if not exact(o["init"]):
            return False
    for o in a["dynamic"]:
        if not exact(o["init"]):
            return False
        if o["pred"] and "traj" in o["pred"] and not all(exact(s) for s in o["pred"]["traj"]["states"]):
            return False
    return True


def network_part(ln):
    from commonroad.planning.planning_problem import PlanningProblemSet
    from commonroad.scenario.scenario import Scenario
    tmp = Scenario(0.1, author="", affiliation="", source="", tags=set())
    tmp.replace_lanelet_network(ln)
    s_ = S.snapshot(tmp, PlanningProblemSet())
    return {k: s_[k] for k in ("lanelets", "signs", "lights", "intersections")}


def read_routes(ctx, sp, case, path, data, b, a, routes):
    """Every alternative public read route must return what the plain `CommonRoadFileReader(path).open()` returned."""
    import pathlib
    from commonroad.common.file_reader import CommonRoadFileReader
    from commonroad.common.reader.file_reader_protobuf import ProtobufFileReader
    from commonroad.common.util import FileFormat
    want = S.canon_order(b)
    for route in routes:
        whole = True
        try:
            if route == "Path":
                got = CommonRoadFileReader(pathlib.Path(path)).open()
            elif route == "bytes":
                got = CommonRoadFileReader(data, FileFormat.PROTOBUF).open()
            elif route == "explicit-format":
                got = CommonRoadFileReader(path, FileFormat.PROTOBUF).open()
            elif route == "direct":
                got = ProtobufFileReader(path).open()
            elif route == "reopen":
                rd = CommonRoadFileReader(path)
                rd.open()
                rd.open_lanelet_network()
                got = rd.open()
            elif route == "lanelet-assignment":
                if not assignable(a):
                    continue
                try:
                    got = CommonRoadFileReader(path).open(lanelet_assignment=True)
                except Exception:  # noqa  the assignment geometry (C07) refuses the input: no verdict here
                    ctx.excluded += 1
                    ctx.tag("excluded:lanelet-assignment-raises")
                    continue
            else:
                whole = False
                got = CommonRoadFileReader(path).open_lanelet_network()
        except Exception as e:  # noqa
            ctx.fail(f"C02/read-route/{route}/raises-{err_class(e)}/{_site(e)}",
                     f"read route {route} raises {type(e).__name__}: {str(e)[:120]} where the plain read succeeds", case)
            continue
        ctx.tag(f"read-route:{route}")
        if whole:
            have, ref = S.canon_order(S.snapshot(got[0], got[1])), want
        else:
            have, ref = network_part(got), {k: want[k] for k in ("lanelets", "signs", "lights", "intersections")}
            have = {k: sorted(v, key=lambda o: o["id"]) for k, v in have.items()}
        seen = set()
        for pth, x, y in S.diff(ref, have):
            k = key_of_path(pth)
            if k not in seen:
                seen.add(k)
                ctx.fail(f"C02/read-route/{route}/content/{k}",
                         f"read route {route} {pth}: plain read {json.dumps(x)[:100]} this route {json.dumps(y)[:100]}", case)


def parse_tree(data):
    from commonroad.scenario_definition.protobuf_format.generated_scripts import commonroad_pb2
    m = commonroad_pb2.CommonRoad()
    m.ParseFromString(data)
    return m


def key_of_path(path):
    p = re.sub(r"\[\d+\]", "", path).strip(".")
    parts = p.split(".")
    while parts and parts[-1] in ("d", "i", "a", "b", "x", "y", "p", "s", "v", "len", "exact", "interval", "point", "shape"):
        parts.pop()
    return ".".join(parts) or "scenario"


# ------------------------------------------------------------------------------------------------ buckets

def _walk_states(sp):
    for o in sp["static"] + sp["dynamic"]:
        yield "init", o["init"]
    for o in sp["dynamic"]:
        p = o.get("pred")
        if p and p["kind"] == "traj":
            for s in p["states"]:
                yield "traj", s
    for p in sp["pps"]:
        yield "init", p["init"]
        for g in p["goals"]:
            yield "goal", g


def _reals(x):
    if isinstance(x, float):
        yield x
    elif isinstance(x, dict):
        for v in x.values():
            yield from _reals(v)
    elif isinstance(x, list):
        for v in x:
            yield from _reals(v)


def _has_group(x):
    if isinstance(x, dict):
        return x.get("k") == "group" or any(_has_group(v) for v in x.values())
    if isinstance(x, list):
        return any(_has_group(v) for v in x)
    return False


def tag_spec(ctx, sp):
    t = ctx.tag
    for s in sp["signs"]:
        if s.get("virtual") is True:
            t("sign:virtual-true")
        if s["first"]:
            t("sign:first-occurrence")
        if s.get("virtual") is None:
            t("sign:virtual-default")
    for l in sp["lights"]:
        if l.get("offset"):
            t("light:offset")
        if l.get("direction") not in (None, "ALL"):
            t("light:direction")
        if l.get("active") is False:
            t("light:inactive")
        if l.get("offset") is None and l.get("direction") is None and l.get("active") is None:
            t("light:defaults")
    for o in sp["static"] + sp["dynamic"]:
        kind = "static" if o in sp["static"] else "dynamic"
        if o.get("sig0") is None and o.get("series") is None:
            t(f"{kind}:default-signals")
        if o.get("sig0") == {} or {} in (o.get("series") or []):
            t("signal:empty-object")
        for sg in ([o["sig0"]] if o.get("sig0") else []) + (o.get("series") or []):
            if "horn" in sg:
                t("signal:horn")
            if isinstance(sg.get("time_step"), list):
                t("signal:interval-time")
    for where, st in _walk_states(sp):
        if any(isinstance(v, list) for v in st["a"].values()):
            t("state:interval-attr")
        o_ = st["a"].get("orientation")
        if isinstance(o_, (int, float)) and abs(o_) > 2 * 3.141592653589793:
            t("real:unwrapped-exact-orientation")
            t(f"real:unwrapped-exact-orientation:{where}")
        if isinstance(st.get("pos"), dict):
            t("state:region-position")
        if st.get("pos") is None and where == "traj":
            t("state:no-position")
        if where == "init":
            a = st["a"]
            if "acceleration" not in a and ("yaw_rate" in a or "slip_angle" in a):
                t("init:unset-middle-attr")
        if where == "traj" and st["cls"] == "CustomState":
            t("state:custom")
    for o in sp["dynamic"]:
        p = o.get("pred")
        t("pred:none" if p is None else "pred:trajectory" if p["kind"] == "traj" else "pred:set-based")
    if _has_group(sp):
        t("shape:group")
    for l in sp["lanelets"]:
        if all(l.get(k) is None for k in ("pred", "succ", "adj_left", "adj_right", "lm_left", "lm_right", "stop", "types",
                                           "one_way", "bidir", "signs", "lights")):
            t("lanelet:defaults")
        if l.get("stop") is not None:
            t("lanelet:stop-line")
    for p in sp["pps"]:
        gl = p.get("goal_lanelets")
        if gl is not None and len(gl) < len(p["goals"]):
            t("goal:lanelets-partial")
        if gl:
            t("goal:lanelets")
    loc = sp.get("location")
    if loc is None:
        t("location:default")
    elif loc.get("env") and loc["env"].get("time") and loc["env"]["time"].get("day") is not None:
        t("location:env-time-date")
    if sp.get("via") != "scenario":
        t("header:via-writer")
    if sp.get("sid") is None:
        t("header:default-scenario-id")
    if sp["phantom"]:
        t("phantom")
    if sp["env"]:
        t("env-obstacle")
    if any(v != 0 and (abs(v) < 1e-290 or abs(v) > 1e14) for v in _reals(sp)):
        t("real:subnormal-or-huge")
    if any(v == 0 and str(v).startswith("-") for v in _reals(sp)):
        t("real:minus-zero")


def nontrivial(sp):
    return any(sp[k] for k in ("lanelets", "signs", "lights", "intersections", "static", "dynamic", "env", "phantom", "pps"))


# ------------------------------------------------------------------------------------------------ one case

def run_case(ctx, case, correspond=True):
    sp = case["spec"]
    kind = case.get("kind", "valid")
    try:
        sc, pps, wkw = G.build(sp)
    except Exception:  # the public constructors refuse the object: outside the quantifier
        ctx.excluded += 1
        ctx.tag("excluded:constructor-refuses")
        return
    ctx.case(sp, nontrivial(sp))
    io = case.get("io") or {}
    for k_ in io:
        if k_ not in IO_KEYS:
            raise InfraError(f"C02: unknown io key {k_}")
    for k_ in (sp.get("variant") or {}):
        if k_ not in G.VARIANT_KEYS:
            raise InfraError(f"C02: unknown variant key {k_}")
    if io.get("queries"):
        pre_queries(sc, pps)
        ctx.tag("io:queries-before-write")
    a = S.snapshot(sc, pps, wkw)
    res = write_read(ctx, sc, pps, wkw, io=io)
    w = res["write"]
    if kind == "valid":
        tag_variant(ctx, sp.get("variant") or {}, io)

    if kind == "outside":                      # constructible but outside the quantifier: model = implementation, no oracle
        w2 = res["write"]
        if w2[0] != "ok" or res["read"] is None or res["read"][0] != "ok":
            ctx.compare({"spec": sp, "kind": kind}, {"write": w2[0], "read": (res["read"] or ["-"])[0]},
                        {"write": "ok", "read": "ok"}, "outside-quantifier witness must be writable and readable")
            return
        b2 = S.snapshot(res["read"][1], res["read"][2])
        ctx.compare({"spec": sp, "kind": kind}, b2, ctx.driver.ask("C02", "norm", {"x": a}),
                    "witness: snapshot(read back) vs CR.PBF.normPb snapshot(original)")
        ca = ctx.driver.ask("C02", "canon", {"x": a})
        ctx.compare({"spec": sp, "kind": kind}, {"wf": True, "inits_ok": False}, {"wf": ca["wf"], "inits_ok": ca["inits_ok"]},
                    "witness is admissible (wf) but has an initial state outside InitialState's attributes")
        lost = [p for p, x, y in S.diff(S.expected(a), S.canon_order(S.strip_cls(b2)))]
        ctx.compare({"spec": sp, "kind": kind}, bool(lost), True, "witness: the real code does drop the extra attribute")
        ctx.tag("outside:initial-extra-attribute")
        ctx.excluded += 1
        return

    if kind == "invalid":                      # writer error branches: correspondence only, outside the property's domain
        model = ctx.driver.ask("C02", "encode", {"x": a, "T": tables_for(a)})
        impl = {"err": w[1]} if w[0] == "err" else {"ok": "written"}
        if "ok" in model:
            model = {"ok": "written"}
        ctx.compare({"spec": sp, "kind": kind}, impl, model, "writer exception class vs CR.PBF.encodePb")
        if w[0] == "err":
            ctx.tag(f"writer-error:{w[1]}")
        ctx.excluded += 1
        return

    tag_spec(ctx, sp)
    if w[0] == "err":
        ctx.fail(f"C02/write/raises-{w[1]}/{w[2]}", f"writing raises {w[3]}", {k_: case[k_] for k_ in ("spec", "io") if k_ in case})
        if correspond:
            model = ctx.driver.ask("C02", "encode", {"x": a, "T": tables_for(a)})
            ctx.compare({"spec": sp}, {"err": w[1]}, model if "err" in model else {"ok": "written"},
                        "writer raises vs CR.PBF.encodePb")
        return
    try:
        msg = parse_tree(w[1])
    except Exception as e:  # noqa  the file the writer produced is not a CommonRoad message at all
        ctx.fail("C02/write/file-is-not-a-commonroad-message", f"the written file cannot be parsed: {type(e).__name__}: {str(e)[:120]}",
                 {k_: case[k_] for k_ in ("spec", "io") if k_ in case})
        return
    tree = msg_tree(msg)
    if correspond:
        model = ctx.driver.ask("C02", "encode", {"x": a, "T": tables_for(a)})
        ctx.compare({"spec": sp}, {"ok": tree}, model, "written message tree vs CR.PBF.encodePb")
    r = res["read"]
    if r[0] == "err":
        ctx.fail(f"C02/read/raises-{r[1]}/{r[2]}", f"reading the written file raises {r[3]}", {k_: case[k_] for k_ in ("spec", "io") if k_ in case})
        if correspond:
            model = ctx.driver.ask("C02", "decode", {"m": tree})
            ctx.compare({"spec": sp}, {"err": r[1]}, model if "err" in model else {"ok": "read"}, "reader raises vs CR.PBF.decodePb")
        return
    b = S.snapshot(r[1], r[2])
    if correspond:
        model = ctx.driver.ask("C02", "decode", {"m": tree})
        ctx.compare({"spec": sp}, {"ok": b}, model, "snapshot(read back) vs CR.PBF.decodePb(message tree)")
        model = ctx.driver.ask("C02", "roundtrip", {"x": a})
        ctx.compare({"spec": sp}, {"ok": b}, model, "snapshot(read back) vs CR.PBF.decodePb (encScn snapshot(original))")
        model = ctx.driver.ask("C02", "norm", {"x": a})
        ctx.compare({"spec": sp}, b, model, "snapshot(read back) vs CR.PBF.normPb snapshot(original)")
        # the class each state reads back as = the class its populated attributes denote (St.specClass, snapshot side only)
        model = ctx.driver.ask("C02", "spec_classes", {"x": a})
        impl = {"traj": [s["cls"] for o in b["dynamic"] if o["pred"] and "traj" in o["pred"] for s in o["pred"]["traj"]["states"]],
                "goals": [g["state"]["cls"] for p in b["pps"] for g in p["goals"]]}
        ctx.compare({"spec": sp}, impl, model, "classes of the read-back states vs CR.PBF.St.specClass of the original states")
        # what the real reader returns is a canonical, typed, admissible snapshot (C02_normPb_canon / _typed)
        model = ctx.driver.ask("C02", "canon", {"x": b})
        ctx.compare({"spec": sp}, {"wf": True, "typed": True, "canon": True, "inits_ok": True}, model,
                    "read-back snapshot is canonical (Scn.canon/typed/wf of the model)")
        ca = ctx.driver.ask("C02", "canon", {"x": a})
        if ca["canon"] and ca["typed"]:
            ctx.tag("canonical-original")
            # C02_roundtrip_id: a canonical original comes back EXACTLY (state classes included)
            ctx.compare({"spec": sp}, S.canon_order(a), S.canon_order(b), "canonical original vs read back: literal identity")
    # ---- oracle: the property statement on the real code
    d = S.diff(S.expected(a), S.canon_order(S.strip_cls(b)))
    if not d:
        ctx.tag("roundtrip-ok")
    seen = set()
    for path, x, y in d:
        k = key_of_path(path)
        if k in seen:
            continue
        seen.add(k)
        ctx.fail(f"C02/content/{k}", f"{path}: written {json.dumps(x)[:120]} read back {json.dumps(y)[:120]}",
                 {k_: case[k_] for k_ in ("spec", "io") if k_ in case})
    sub = {k_: case[k_] for k_ in ("spec", "io") if k_ in case}
    if io.get("validity"):
        from commonroad.common.file_writer import CommonRoadFileWriter
        from commonroad.common.util import FileFormat
        ok = CommonRoadFileWriter.check_validity_of_commonroad_file(w[1], FileFormat.PROTOBUF)
        if ok is not True:
            ctx.fail("C02/validity/written-file-rejected", f"check_validity_of_commonroad_file says {ok!r} for the file just written", sub)
    if io.get("reads"):
        read_routes(ctx, sp, sub, res["path"], w[1], b, a, io["reads"])
    if correspond and ctx.rng.random() < 0.35:
        reader_defaults(ctx, msg, sp)
    if case.get("history"):
        run_history(ctx, case, sc, pps, wkw, correspond)
    for f_ in (res["path"], res["path"][:-3] + ".xml"):
        try:
            os.unlink(f_)
        except OSError:
            pass


# ------------------------------------------------------------------------------------------------ one writer object, several files

CALL = {True: "write_to_file", False: "write_scenario_to_file"}


EDITS = ["add-env-obstacle", "remove-obstacle", "set-dt", "toggle-light", "append-predecessor", "add-planning-problem",
         "set-signal-series"]


def gen_history(r):
    """2..4 calls on one writer object.  A step is {"call": True = write_to_file / False = write_scenario_to_file,
    "pre": None | "fail" (a call that raises comes first) | "edit:<kind>" (the scenario is edited in place first)}."""
    steps = []
    for i in range(r.choice([2, 2, 3, 4])):
        pre = None
        k = r.random()
        if i > 0 and k < 0.25:
            pre = "fail"
        elif i > 0 and k < 0.6:
            pre = "edit:" + r.choice(EDITS)
        steps.append({"call": r.random() < 0.5, "pre": pre})
    return steps


def apply_edit(kind, sc, pps, n):
    """An in-place edit of the scenario / planning-problem set the writer object holds a reference to."""
    import numpy as np
    from commonroad.geometry.shape import Circle
    from commonroad.planning.goal import GoalRegion
    from commonroad.planning.planning_problem import PlanningProblem
    from commonroad.common.util import Interval
    from commonroad.scenario.obstacle import EnvironmentObstacle, ObstacleType
    from commonroad.scenario.state import CustomState, InitialState, SignalState
    if kind == "add-env-obstacle":
        sc.add_objects(EnvironmentObstacle(5 * 10 ** 6 + n, ObstacleType.BUILDING, Circle(1.5 + n, np.array([0.25 * n, -3.0]))))
    elif kind == "remove-obstacle":
        obs = sc.obstacles
        if obs:
            sc.remove_obstacle(obs[-1])
    elif kind == "set-dt":
        sc.dt = 0.05 * (n + 1)
    elif kind == "toggle-light":
        for t in sc.lanelet_network.traffic_lights:
            t.active = not t.active
            t.traffic_light_cycle.time_offset = (t.traffic_light_cycle.time_offset or 0) + n + 1
    elif kind == "append-predecessor":
        for l in sc.lanelet_network.lanelets[:1]:
            l.predecessor.append(6 * 10 ** 6 + n)
    elif kind == "add-planning-problem":
        init = InitialState(time_step=0, position=np.array([1.0, 2.0 + n]), orientation=0.0, velocity=1.0, yaw_rate=0.0, slip_angle=0.0)
        pps.add_planning_problem(PlanningProblem(7 * 10 ** 6 + n, init, GoalRegion([CustomState(time_step=Interval(1, 9 + n))])))
    elif kind == "set-signal-series":
        for o in sc.dynamic_obstacles + sc.static_obstacles:
            o.signal_series = [SignalState(time_step=n, horn=bool(n % 2), braking_lights=True)]


def run_history(ctx, case, sc, pps, wkw, correspond=True):
    """ONE writer object used for several files; the scenario it refers to may be edited, and a call may raise, in between.
    Every file, read back, has to yield the content the scenario has AT THAT CALL (scenario-only file: no planning problem)
    whatever the writer did before; correspondence: every file's message tree vs the model's writer object (CR.PBF.Wr)."""
    import numpy as np
    from commonroad.common.file_reader import CommonRoadFileReader
    from commonroad.common.file_writer import OverwriteExistingFile
    from commonroad.geometry.shape import Circle
    from commonroad.scenario.obstacle import EnvironmentObstacle, ObstacleType
    sp, io = case["spec"], case.get("io") or {}
    steps = [st if isinstance(st, dict) else {"call": bool(st), "pre": None} for st in case["history"]]
    try:
        writer = make_writer(sc, pps, wkw, io)
    except Exception:  # noqa  (already reported by the single-write run)
        return
    calls, results = [], []          # what the model is asked / what the real writer did
    prev = "nothing"
    for i, st in enumerate(steps):
        sub = dict(case, history=steps[:i + 1])
        if st.get("pre") == "fail":
            bad = EnvironmentObstacle(2 ** 32 + 7 + i, ObstacleType.PILLAR, Circle(1.0, np.array([0.0, 0.0])))
            sc.add_objects(bad)
            calls.append({"x": S.snapshot(sc, pps, wkw), "pps": True})
            try:
                writer.write_to_file(_new_path(ctx, "f"), OverwriteExistingFile.ALWAYS)
                results.append({"ok": "written"})
            except Exception as e:  # noqa
                results.append({"err": err_class(e)})
            sc.remove_obstacle(bad)
            ctx.tag("history:after-a-call-that-raised")
            prev = "failed-call"
        elif st.get("pre"):
            apply_edit(st["pre"].split(":", 1)[1], sc, pps, i)
            ctx.tag("history:scenario-edited-between-calls")
        full = bool(st["call"])
        call = CALL[full]
        where = f"{call}-after-{prev}"
        ctx.tag(f"history:{where}")
        a_i = S.snapshot(sc, pps, wkw)
        calls.append({"x": a_i, "pps": full})
        path = _new_path(ctx, "h")
        try:
            getattr(writer, call)(path, OverwriteExistingFile.ALWAYS)
            data = open(path, "rb").read()
        except Exception as e:  # noqa
            ctx.fail(f"C02/reused-writer/{where}/write/raises-{err_class(e)}/{_site(e)}",
                     f"call {i + 1} ({call}) on a writer that was used before raises {type(e).__name__}: {str(e)[:120]}", sub)
            results.append({"err": err_class(e)})
            break
        try:
            results.append({"ok": msg_tree(parse_tree(data))})
        except Exception as e:  # noqa
            ctx.fail(f"C02/reused-writer/{where}/file-is-not-a-commonroad-message",
                     f"file {i + 1} of one writer object cannot be parsed: {type(e).__name__}: {str(e)[:120]}", sub)
            results.append({"err": "unparseable"})
            break
        want = a_i if full else dict(a_i, pps=[])
        prev = call
        try:
            sc2, pps2 = CommonRoadFileReader(path).open()
        except Exception as e:  # noqa
            ctx.fail(f"C02/reused-writer/{where}/read/raises-{err_class(e)}/{_site(e)}",
                     f"file {i + 1} of one writer object ({where}) cannot be read back: {type(e).__name__}: {str(e)[:120]}", sub)
            continue
        b = S.snapshot(sc2, pps2)
        seen = set()
        for pth, x, y in S.diff(S.expected(want), S.canon_order(S.strip_cls(b))):
            k = key_of_path(pth)
            if k not in seen:
                seen.add(k)
                ctx.fail(f"C02/reused-writer/{where}/content/{k}",
                         f"file {i + 1} of one writer object ({where}) {pth}: held by the scenario {json.dumps(x)[:100]} read back "
                         f"{json.dumps(y)[:100]}", sub)
    if correspond and calls:
        T = dict(pb_tables()) if any(c["x"]["signs"] for c in calls) else tables_for(calls[0]["x"])
        model = ctx.driver.ask("C02", "history", {"calls": calls[:len(results)], "T": T})
        model = [m if "err" in m or not isinstance(r_.get("ok"), str) else {"ok": "written"} for m, r_ in zip(model, results)]
        ctx.compare(dict(case, history=steps), results, model, "files of one writer object vs CR.PBF.Wr.runChecked")


# ------------------------------------------------------------------------------------------------ reader-only correspondence

CLEARABLE = {
    "Rectangle": ["center", "orientation"], "Circle": ["center"],
    "TrafficLight": ["time_offset", "direction", "active", "position"], "TrafficSign": ["virtual", "position"],
    "Bound": ["line_marking"], "Lanelet": ["adjacent_left", "adjacent_right", "adjacent_left_dir", "adjacent_right_dir", "stop_line"],
    "TimeStamp": ["year", "month", "day", "hour", "minute"], "Environment": ["time", "time_of_day", "weather", "underground"],
    "Location": ["geo_transformation", "environment"], "Incoming": ["is_left_of"],
    "StaticObstacle": ["initial_signal_state"], "DynamicObstacle": ["initial_signal_state"], "PhantomObstacle": ["prediction"],
    "SignalState": ["horn", "indicator_left", "indicator_right", "braking_lights", "hazard_warning_lights",
                    "flashing_blue_lights"],
}


def _mutate_msg(rng, msg, path=""):
    """Clear optional fields in place (only ones every reader branch has a default for); returns number of changes."""
    from google.protobuf.descriptor import FieldDescriptor as FD
    n = 0
    t = msg.DESCRIPTOR.name
    for f in CLEARABLE.get(t, []):
        if msg.HasField(f) and rng.random() < 0.4:
            msg.ClearField(f)
            n += 1
    if t == "StopLine" and rng.random() < 0.25:
        keep = rng.choice([0, 1])
        del msg.points[keep:]
        n += 1
    if t == "State" and path.endswith("initial_state"):
        for f in msg.DESCRIPTOR.fields:
            if f.name not in ("time_step",) and msg.HasField(f.name) and rng.random() < 0.3:
                msg.ClearField(f.name)
                n += 1
    for f in msg.DESCRIPTOR.fields:
        if f.type != FD.TYPE_MESSAGE:
            continue
        if f.label == FD.LABEL_REPEATED:
            for sub in getattr(msg, f.name):
                n += _mutate_msg(rng, sub, path + "." + f.name)
        elif msg.HasField(f.name):
            n += _mutate_msg(rng, getattr(msg, f.name), path + "." + f.name)
    return n


def reader_defaults(ctx, msg, sp):
    """Clear optional fields of the real message; real reader vs model decoder (defaults, HasField logic, IndexError)."""
    from commonroad.common.file_reader import CommonRoadFileReader
    from commonroad.common.util import FileFormat
    m2 = copy.deepcopy(msg)
    if _mutate_msg(ctx.rng, m2) == 0:
        return
    ctx.tag("reader-defaults")
    data = m2.SerializeToString()
    tree = msg_tree(m2)
    try:
        sc2, pps2 = CommonRoadFileReader(data, FileFormat.PROTOBUF).open()
        impl = {"ok": S.snapshot(sc2, pps2)}
    except Exception as e:  # noqa
        impl = {"err": err_class(e)}
        ctx.tag(f"reader-error:{err_class(e)}")
    model = ctx.driver.ask("C02", "decode", {"m": tree})
    ctx.compare({"spec": sp, "tree": tree if len(json.dumps(tree)) < 20000 else "large"}, impl, model,
                "real reader on a message with optional fields cleared vs CR.PBF.decodePb")


# ------------------------------------------------------------------------------------------------ invalid stream

def gen_invalid(r):
    """A valid spec with exactly one thing the protobuf classes refuse."""
    for _ in range(50):
        sp = G.gen_spec(r, size="small")
        sp["signs"], sp["lights"] = sp["signs"][:1], sp["lights"]
        kind = r.choice(["id", "time", "enum-weather", "enum-tod", "enum-sign", "attr", "attr", "attr", "geo-id"])
        if kind == "id":
            pool = sp["lanelets"] + sp["env"] + sp["phantom"] + sp["static"]
            if not pool:
                continue
            r.choice(pool)["id"] = 2 ** 32 + r.randint(0, 5)
        elif kind == "time":
            cands = [o for o in sp["static"] + sp["dynamic"] if o.get("sig0")]
            if not cands:
                continue
            r.choice(cands)["sig0"]["time_step"] = 2 ** 31 + r.randint(0, 9)
        elif kind in ("enum-weather", "enum-tod"):
            if not sp.get("location"):
                sp["location"] = {"geo_name_id": None, "lat": None, "lon": None, "geo": None, "env": None}
            env = sp["location"].get("env") or {"time": None, "time_of_day": None, "weather": None, "underground": None}
            if kind == "enum-weather":
                env["weather"] = r.choice(["HEAVY_RAIN", "CLEAR", "MID_RAIN", "CLOUDY"])
            else:
                env["time_of_day"] = r.choice(["NOON", "MORNING", "SUNSET", "AFTERNOON"])
            sp["location"]["env"] = env
        elif kind == "enum-sign":
            if not sp["signs"]:
                continue
            sp["signs"][0]["elements"] = [{"country": "TrafficSignIDUsa", "name": r.choice(["STOP", "ONEWAY", "NO_TURN_ON_RED"]),
                                           "values": None}]
        elif kind == "attr":
            cands = [o for o in sp["dynamic"] if o.get("pred") and o["pred"]["kind"] == "traj"]
            if not cands:
                o = {"id": max([1000] + [x["id"] for k in ("lanelets", "signs", "lights", "static", "dynamic", "env", "phantom")
                                          for x in sp[k]]) + 1000,
                     "type": "CAR", "shape": {"k": "rect", "l": 4.5, "w": 2.0, "c": None, "o": None},
                     "init": G.g_init_state(r, region_ok=False), "pred": None, "sig0": None, "series": None}
                o["pred"] = {"kind": "traj", "t0": o["init"]["t"] + 1, "states": [None] * r.choice([1, 2, 3]),
                             "shape": {"k": "rect", "l": 4.5, "w": 2.0, "c": None, "o": None}}
                sp["dynamic"].append(o)
                cands = [o]
            p = r.choice(cands)["pred"]
            t0 = p["t0"]
            p["states"] = [{"cls": "KSTState", "t": t0 + i, "pos": [1.0 * i, 2.0],
                            "a": {"steering_angle": 0.1, "velocity": 3.0, "orientation": 0.25, "hitch_angle": -0.5}}
                           for i in range(len(p["states"]))]
        elif kind == "geo-id":
            if not sp.get("location"):
                sp["location"] = {"geo_name_id": None, "lat": None, "lon": None, "geo": None, "env": None}
            sp["location"].update(geo_name_id=r.choice([2 ** 31, -2 ** 31 - 1]), lat=1.0, lon=2.0)
        return {"spec": sp, "kind": "invalid"}
    return None


# ------------------------------------------------------------------------------------------------ model tables vs the code

def check_tables(ctx):
    import dataclasses
    import commonroad.scenario.state as st
    T = G.tables()
    model = ctx.driver.ask("C02", "tables", {})
    impl = {"state_fields": T["state_fields"],
            "classes": [[c.__name__, [f.name for f in dataclasses.fields(c)]] for c in st.SpecificStateClasses],
            "init_fields": [a for a in T["state_fields"] if a in [f.name for f in dataclasses.fields(st.InitialState)]],
            "sign_fields": model["sign_fields"]}
    from commonroad.scenario_definition.protobuf_format.generated_scripts import traffic_sign_pb2
    oneof = {f.enum_type.name: f.name for f in traffic_sign_pb2.TrafficSignElement.DESCRIPTOR.fields if f.enum_type is not None}
    impl["sign_fields"] = [[c, oneof.get(c, "?")] for c, _ in model["sign_fields"]]
    ctx.compare({"tables": True}, impl, model, "state field order / state class tables / sign oneof members vs the model's constants")


# ------------------------------------------------------------------------------------------------ driver

FORMAT_FIELDS_IGNORED = {("ScenarioInformation", "date"): "time of writing, not content"}
UNUSED_MESSAGES = {"IntegerList", "FloatList"}          # declared in util.proto, used by neither writer nor reader


def dimension_classes():
    import commonroad.scenario.state as st
    from commonroad.common.common_lanelet import StopLine
    from commonroad.common.file_reader import CommonRoadFileReader
    from commonroad.common.file_writer import CommonRoadFileWriter
    from commonroad.common.reader.file_reader_protobuf import ProtobufFileReader
    from commonroad.common.util import AngleInterval, Interval, Time
    from commonroad.common.writer.file_writer_protobuf import ProtobufFileWriter
    from commonroad.geometry.shape import Circle, Polygon, Rectangle, ShapeGroup
    from commonroad.planning.goal import GoalRegion
    from commonroad.planning.planning_problem import PlanningProblem, PlanningProblemSet
    from commonroad.prediction.prediction import Occupancy, SetBasedPrediction, TrajectoryPrediction
    from commonroad.scenario.intersection import Intersection, IntersectionIncomingElement
    from commonroad.scenario.lanelet import Lanelet, LaneletNetwork
    from commonroad.scenario.obstacle import DynamicObstacle, EnvironmentObstacle, PhantomObstacle, StaticObstacle
    from commonroad.scenario.scenario import Environment, GeoTransformation, Location, Scenario, ScenarioID
    from commonroad.scenario.traffic_light import TrafficLight, TrafficLightCycle, TrafficLightCycleElement
    from commonroad.scenario.traffic_sign import TrafficSign, TrafficSignElement
    from commonroad.scenario.trajectory import Trajectory
    cl = [Scenario, ScenarioID, Location, GeoTransformation, Environment, Time, Interval, AngleInterval, Lanelet, LaneletNetwork,
          StopLine, TrafficSign, TrafficSignElement, TrafficLight, TrafficLightCycle, TrafficLightCycleElement, Intersection,
          IntersectionIncomingElement, StaticObstacle, DynamicObstacle, EnvironmentObstacle, PhantomObstacle, st.SignalState,
          st.CustomState, st.State, Rectangle, Circle, Polygon, ShapeGroup, Occupancy, SetBasedPrediction, TrajectoryPrediction,
          Trajectory, PlanningProblem, PlanningProblemSet, GoalRegion, CommonRoadFileWriter, CommonRoadFileReader, ProtobufFileWriter,
          ProtobufFileReader] + list(st.SpecificStateClasses)
    return cl


def check_dimensions(ctx):
    """The dimension table (c02_dims.DIMENSIONS) against the code under test: a constructor parameter, settable attribute or
    public operation the table does not know is a dimension the generator cannot have decided about => exit 2."""
    import inspect
    from c02_dims import DIMENSIONS
    unknown, n = [], 0
    seen = set()
    for c in dimension_classes():
        name = c.__name__
        if name in seen:
            continue
        seen.add(name)
        if name not in DIMENSIONS:
            unknown.append(f"class {name}")
            continue
        t = DIMENSIONS[name]
        try:
            params = [p for p in inspect.signature(c.__init__).parameters if p != "self"]
        except (TypeError, ValueError):
            params = []
        sets = [m for m, v in inspect.getmembers(c) if isinstance(v, property) and v.fset is not None and not m.startswith("_")]
        ops = [m for m, v in inspect.getmembers(c, predicate=lambda f: inspect.isfunction(f) or inspect.ismethod(f))
               if not m.startswith("_")]
        for kind, names in (("ctor", params), ("set", sets), ("ops", ops)):
            for m in names:
                n += 1
                if m not in t[kind]:
                    unknown.append(f"{name}.{kind}.{m}")
    # the format side: every field of every message of the shipped .proto files is produced by the snapshot / model
    from commonroad.scenario_definition.protobuf_format.generated_scripts import commonroad_pb2
    import commonroad.scenario.state as st
    model = ctx.driver.ask("C02", "tables", {})
    if list(st.SignalState.__slots__) != S.SIGNAL_SLOTS + ["time_step"]:
        unknown.append(f"SignalState.__slots__ = {st.SignalState.__slots__}")
    msgs, todo = {}, [commonroad_pb2.CommonRoad.DESCRIPTOR]
    while todo:
        d = todo.pop()
        if d.name in msgs:
            continue
        msgs[d.name] = [f.name for f in d.fields]
        todo += [f.message_type for f in d.fields if f.message_type is not None]
    want = FORMAT_FIELDS
    for m, fs in msgs.items():
        n += len(fs)
        for f in fs:
            if f not in want.get(m, ()) and (m, f) not in FORMAT_FIELDS_IGNORED and not (m == "State" and f in model["state_fields"]):
                unknown.append(f"proto field {m}.{f}")
    if unknown:
        raise InfraError("C02 dimension table does not know: " + ", ".join(unknown[:25])
                         + " — decide how the generator varies it (harness/c02_dims.py / FORMAT_FIELDS in harness/c02.py)")
    ctx.tag("dimension-table-checked")
    return n


# message -> fields the writer fills and the reader reads; each is produced by c02_snapshot / CRModel.CRProto (enc… / dec…)
FORMAT_FIELDS = {
    "CommonRoad": ["information", "scenario_tags", "location", "lanelets", "traffic_signs", "traffic_lights", "intersections",
                   "static_obstacles", "dynamic_obstacles", "environment_obstacles", "phantom_obstacles", "planning_problems"],
    "ScenarioInformation": ["common_road_version", "benchmark_id", "author", "affiliation", "source", "time_step_size"],
    "TimeStamp": ["year", "month", "day", "hour", "minute"], "ScenarioTags": ["tags"],
    "Location": ["geo_name_id", "gps_latitude", "gps_longitude", "geo_transformation", "environment"],
    "GeoTransformation": ["geo_reference", "x_translation", "y_translation", "z_rotation", "scaling"],
    "Environment": ["time", "time_of_day", "weather", "underground"],
    "Lanelet": ["lanelet_id", "left_bound", "right_bound", "predecessors", "successors", "adjacent_left", "adjacent_right",
                "adjacent_left_dir", "adjacent_right_dir", "stop_line", "lanelet_types", "user_one_way", "user_bidirectional",
                "traffic_sign_refs", "traffic_light_refs"],
    "Bound": ["points", "line_marking"], "Point": ["x", "y"],
    "StopLine": ["points", "line_marking", "traffic_sign_refs", "traffic_light_refs"],
    "TrafficSign": ["traffic_sign_id", "traffic_sign_elements", "first_occurrences", "position", "virtual"],
    "TrafficSignElement": ["germany_element_id", "zamunda_element_id", "usa_element_id", "china_element_id", "spain_element_id",
                           "russia_element_id", "argentina_element_id", "belgium_element_id", "france_element_id",
                           "greece_element_id", "croatia_element_id", "italy_element_id", "puerto_rico_element_id",
                           "additional_values"],
    "TrafficLight": ["traffic_light_id", "cycle_elements", "position", "time_offset", "direction", "active"],
    "CycleElement": ["duration", "color"],
    "Intersection": ["intersection_id", "incomings", "crossing_lanelets"],
    "Incoming": ["incoming_id", "incoming_lanelets", "successors_right", "successors_straight", "successors_left", "is_left_of"],
    "StaticObstacle": ["static_obstacle_id", "obstacle_type", "shape", "initial_state", "initial_signal_state", "signal_series"],
    "DynamicObstacle": ["dynamic_obstacle_id", "obstacle_type", "shape", "initial_state", "trajectory_prediction",
                        "set_based_prediction", "initial_signal_state", "signal_series"],
    "EnvironmentObstacle": ["environment_obstacle_id", "obstacle_type", "obstacle_shape"],
    "PhantomObstacle": ["obstacle_id", "prediction"],
    "Shape": ["rectangle", "circle", "polygon", "shape_group"], "Rectangle": ["length", "width", "center", "orientation"],
    "Circle": ["radius", "center"], "Polygon": ["vertices"], "ShapeGroup": ["shapes"],
    "State": ["point", "shape", "time_step"],                       # + the float fields = the model's stateFields (checked)
    "SignalState": ["time_step", "horn", "indicator_left", "indicator_right", "braking_lights", "hazard_warning_lights",
                    "flashing_blue_lights"],
    "IntegerExactOrInterval": ["exact", "interval"], "FloatExactOrInterval": ["exact", "interval"],
    "IntegerInterval": ["start", "end"], "FloatInterval": ["start", "end"],
    "TrajectoryPrediction": ["trajectory", "shape"], "Trajectory": ["initial_time_step", "states"],
    "SetBasedPrediction": ["initial_time_step", "occupancy_set"], "OccupancySet": ["occupancies"], "Occupancy": ["time_step", "shape"],
    "PlanningProblem": ["planning_problem_id", "initial_state", "goal_states"], "GoalState": ["state", "goal_position_lanelets"],
}


def tag_variant(ctx, v, io):
    for k_ in ("np", "setters", "inplace", "reid", "update_ops", "extras", "shuffle"):
        if v.get(k_):
            ctx.tag(f"variant:{k_}")
    if v.get("entry"):
        ctx.tag(f"variant:entry-{v['entry']}")
    if v.get("sign_refs") == "add":
        ctx.tag("variant:sign-refs-by-add")
    if v.get("pps") == "add":
        ctx.tag("variant:pps-by-add")
    for k_ in ("xml_first", "prefill", "validity"):
        if io.get(k_):
            ctx.tag(f"io:{k_}")
    if io.get("precision") is not None:
        ctx.tag("io:precision")
    if io.get("writer") == "direct":
        ctx.tag("io:writer-direct")


def gen_case(rng, i):
    sp = G.gen_spec(rng, size="small" if i % 3 == 0 else "normal")
    case = {"spec": sp}
    if i % 5 != 0:                                   # every fifth case: the plain route
        sp["variant"] = G.gen_variant(rng)
        case["io"] = gen_io(rng)
    if i % 4 == 1:
        case["history"] = gen_history(rng)
    return case


def run(ctx):
    check_tables(ctx)
    check_dimensions(ctx)
    for p in sorted(glob.glob(os.path.join(CORPUS_DIR, "C02", "*.json"))):
        run_case(ctx, json.load(open(p)))
    n = ctx.n(700)
    for i in range(n):
        run_case(ctx, gen_case(ctx.rng, i))
    for _ in range(ctx.n(60)):
        c = gen_invalid(ctx.rng)
        if c is not None:
            run_case(ctx, c)


def search(ctx):
    """Failing-input search (no model): oracle only, more cases."""
    for p in sorted(glob.glob(os.path.join(CORPUS_DIR, "C02", "*.json"))):
        run_case(ctx, json.load(open(p)), correspond=False)
    for i in range(ctx.n(150)):
        run_case(ctx, gen_case(ctx.rng, i), correspond=False)


def replay(ctx, case):
    run_case(ctx, case, correspond=False)


class _Probe:
    """Minimal ctx for shrinking."""

    def __init__(self):
        import random
        import tempfile
        self.failures, self.excluded, self.rng = [], 0, random.Random(0)
        self._tmp = tempfile.mkdtemp(prefix="crverif_C02_shrink_")

    def tmpdir(self):
        return self._tmp

    def tag(self, *a):
        pass

    def case(self, *a, **k):
        pass

    def compare(self, *a, **k):
        return True

    def fail(self, key, what, case, detail=None):
        self.failures.append(key)


def _still_fails(case, sp, key):
    p = _Probe()
    try:
        run_case(p, dict(case, spec=sp), correspond=False)
    except Exception:  # noqa
        return False
    finally:
        import shutil
        shutil.rmtree(p._tmp, ignore_errors=True)
    return key in p.failures


def shrink(case, key):
    """Greedy: drop whole elements, then signal states, then the construction / io variants, while `key` still fails."""
    if case.get("kind") in ("invalid", "outside") or "spec" not in case:
        return case
    case = copy.deepcopy(case)
    sp = case["spec"]
    if not _still_fails(case, sp, key):
        return case
    lists = ["lanelets", "signs", "lights", "intersections", "static", "dynamic", "env", "phantom", "pps"]
    changed = True
    rounds = 0
    while changed and rounds < 6:
        changed = False
        rounds += 1
        for k in lists:
            i = 0
            while i < len(sp[k]):
                cand = copy.deepcopy(sp)
                del cand[k][i]
                if _still_fails(case, cand, key):
                    sp = cand
                    changed = True
                else:
                    i += 1
    for simple in (("location", None), ("sid", None), ("tags", []), ("via", "scenario")):
        cand = copy.deepcopy(sp)
        cand[simple[0]] = simple[1]
        if _still_fails(case, cand, key):
            sp = cand
    for o in sp["static"] + sp["dynamic"]:
        for f in ("sig0", "series"):
            if o.get(f) is not None:
                save = o[f]
                o[f] = None
                if not _still_fails(case, sp, key):
                    o[f] = save
    for vk in list((sp.get("variant") or {}).keys()):
        cand = copy.deepcopy(sp)
        del cand["variant"][vk]
        if _still_fails(case, cand, key):
            sp = cand
    case["spec"] = sp
    for ik in list((case.get("io") or {}).keys()):
        cand = copy.deepcopy(case)
        del cand["io"][ik]
        if _still_fails(cand, sp, key):
            case = cand
    return case
