"""Structural snapshot of a (Scenario, PlanningProblemSet) through public accessors, and a tolerant structural diff.

The snapshot is a tree of dicts / lists whose leaves are either *discrete* (int, bool, str, None) or *real* (Python float).
Everything semantically real is converted with float(); ids, time steps, durations, enum values, booleans stay discrete.
The *shape* of a value is part of the tree, so exact-vs-interval-vs-region and "which attributes a state populates" are
discrete facts:   exact real {"x": 1.5} | interval {"iv": [lo, hi]} | point {"pt": [x, y]} | region {"shape": {...}} |
time {"t": 3} | time interval {"tiv": [a, b]}.   Unordered collections (sets) are sorted; sequences in time (trajectory states,
occupancies, signal series, cycle elements) and vertex lists keep their order.  Collections keyed by id are dicts
(str(id) -> ...) and carry an explicit count next to them, so a duplicate or a dropped element is visible.

`diff(a, b, tol)` returns a list of differences (path, kind, a, b): discrete leaves must be equal, real leaves within
`tol(a, b)`; kinds: "real", "discrete", "missing" (in b), "extra" (in b), "length", "shape".
"""
from __future__ import annotations

import math


def _f(x):
    return float(x)


def _i(x):
    import numpy as np
    if isinstance(x, (bool, np.bool_)):
        return bool(x)
    if isinstance(x, (int, np.integer)):
        return int(x)
    if isinstance(x, (float, np.floating)) and float(x).is_integer():
        return int(x)
    return x


def _pt(p):
    return [_f(v) for v in p]


def _pts(ps):
    return [_pt(p) for p in ps]


def _sorted_ids(s):
    return sorted(_i(v) for v in s) if s is not None else []


def snap_shape(s):
    from commonroad.geometry.shape import Circle, Polygon, Rectangle, ShapeGroup
    if s is None:
        return None
    if isinstance(s, Rectangle):
        return {"k": "rect", "l": _f(s.length), "w": _f(s.width), "c": _pt(s.center), "o": _f(s.orientation)}
    if isinstance(s, Circle):
        return {"k": "circ", "r": _f(s.radius), "c": _pt(s.center)}
    if isinstance(s, Polygon):
        return {"k": "poly", "v": _pts(s.vertices)}
    if isinstance(s, ShapeGroup):
        return {"k": "group", "s": [snap_shape(x) for x in s.shapes]}
    return {"k": type(s).__name__}


def snap_time(t):
    from commonroad.common.util import Interval
    if isinstance(t, Interval):
        return {"tiv": [_i(t.start), _i(t.end)]}
    return {"t": _i(t)}


def snap_value(name, v):
    import numpy as np
    from commonroad.common.util import Interval
    from commonroad.geometry.shape import Shape
    if name == "time_step":
        return snap_time(v)
    if isinstance(v, Interval):
        return {"iv": [_f(v.start), _f(v.end)]}
    if isinstance(v, Shape):
        return {"shape": snap_shape(v)}
    if isinstance(v, (np.ndarray, list, tuple)):
        return {"pt": _pt(v)}
    if isinstance(v, (bool, np.bool_)):
        return {"b": bool(v)}
    if isinstance(v, (int, float, np.integer, np.floating)):
        return {"x": _f(v)}
    return {"other": repr(v)}


def snap_state(st):
    if st is None:
        return None
    return {"cls": type(st).__name__, "attrs": {a: snap_value(a, getattr(st, a)) for a in st.used_attributes}}


SIGNALS = ["horn", "indicator_left", "indicator_right", "braking_lights", "hazard_warning_lights", "flashing_blue_lights"]


def snap_signal(sg):
    if sg is None:
        return None
    out = {"time_step": snap_time(sg.time_step) if hasattr(sg, "time_step") else None, "vals": {}}
    for n in SIGNALS:
        if hasattr(sg, n) and getattr(sg, n) is not None:
            out["vals"][n] = _i(getattr(sg, n))
    return out


def snap_prediction(p):
    from commonroad.prediction.prediction import SetBasedPrediction, TrajectoryPrediction
    if p is None:
        return None
    if isinstance(p, TrajectoryPrediction):
        tr = p.trajectory
        return {"kind": "trajectory", "initial_time_step": _i(p.initial_time_step), "traj_initial_time_step": _i(tr.initial_time_step),
                "n": len(tr.state_list), "states": [snap_state(s) for s in tr.state_list], "shape": snap_shape(p.shape)}
    if isinstance(p, SetBasedPrediction):
        return {"kind": "set", "initial_time_step": _i(p.initial_time_step), "n": len(p.occupancy_set),
                "occupancies": [{"time": snap_time(o.time_step), "shape": snap_shape(o.shape)} for o in p.occupancy_set]}
    return {"kind": type(p).__name__}


def snap_obstacle(o):
    from commonroad.scenario.obstacle import DynamicObstacle, EnvironmentObstacle, PhantomObstacle, StaticObstacle
    d = {"role": o.obstacle_role.value, "id": _i(o.obstacle_id), "cls": type(o).__name__}
    if isinstance(o, PhantomObstacle):
        d["prediction"] = snap_prediction(o.prediction)
        return d
    d["type"] = o.obstacle_type.value
    d["shape"] = snap_shape(o.obstacle_shape)
    if isinstance(o, EnvironmentObstacle):
        return d
    d["initial_state"] = snap_state(o.initial_state)
    d["initial_signal_state"] = snap_signal(o.initial_signal_state)
    ser = o.signal_series
    d["signal_series"] = [snap_signal(s) for s in ser] if ser else []
    if isinstance(o, DynamicObstacle):
        d["prediction"] = snap_prediction(o.prediction)
    elif isinstance(o, StaticObstacle):
        pass
    return d


def snap_lanelet(ln):
    d = {"id": _i(ln.lanelet_id), "left": _pts(ln.left_vertices), "right": _pts(ln.right_vertices),
         "center": _pts(ln.center_vertices),
         "lm_left": ln.line_marking_left_vertices.value, "lm_right": ln.line_marking_right_vertices.value,
         "pred": _sorted_ids(ln.predecessor), "succ": _sorted_ids(ln.successor),
         "pred_seq": [_i(v) for v in ln.predecessor], "succ_seq": [_i(v) for v in ln.successor],
         "adj_left": None if ln.adj_left is None else {"id": _i(ln.adj_left), "same": _i(ln.adj_left_same_direction)},
         "adj_right": None if ln.adj_right is None else {"id": _i(ln.adj_right), "same": _i(ln.adj_right_same_direction)},
         "types": sorted(t.value for t in ln.lanelet_type),
         "one_way": sorted(t.value for t in ln.user_one_way), "bidir": sorted(t.value for t in ln.user_bidirectional),
         "signs": _sorted_ids(ln.traffic_signs), "lights": _sorted_ids(ln.traffic_lights), "stop_line": None}
    sl = ln.stop_line
    if sl is not None:
        d["stop_line"] = {"start": None if sl.start is None else _pt(sl.start), "end": None if sl.end is None else _pt(sl.end),
                          "line_marking": sl.line_marking.value if sl.line_marking is not None else None,
                          "sign_refs": _sorted_ids(sl.traffic_sign_ref), "light_refs": _sorted_ids(sl.traffic_light_ref)}
    return d


def snap_sign(s):
    return {"id": _i(s.traffic_sign_id),
            "elements": [{"id": e.traffic_sign_element_id.name, "value": e.traffic_sign_element_id.value,
                          "enum": type(e.traffic_sign_element_id).__name__, "values": list(e.additional_values)}
                         for e in s.traffic_sign_elements],
            "position": None if s.position is None else _pt(s.position), "virtual": _i(s.virtual),
            "first_occurrence": _sorted_ids(s.first_occurrence)}


def snap_light(t):
    c = t.traffic_light_cycle
    return {"id": _i(t.traffic_light_id),
            "cycle": None if c is None else [[e.state.value, _i(e.duration)] for e in (c.cycle_elements or [])],
            "offset": None if c is None else _i(c.time_offset),
            "position": None if t.position is None else _pt(t.position), "direction": t.direction.value, "active": _i(t.active),
            "color": [s.value for s in (t.color or [])]}


def snap_intersection(it):
    incs = {}
    for inc in it.incomings:
        incs[str(_i(inc.incoming_id))] = {
            "id": _i(inc.incoming_id), "lanelets": _sorted_ids(inc.incoming_lanelets), "right": _sorted_ids(inc.successors_right),
            "straight": _sorted_ids(inc.successors_straight), "left": _sorted_ids(inc.successors_left),
            "left_of": _i(inc.left_of) if inc.left_of is not None else None}
    return {"id": _i(it.intersection_id), "n_incomings": len(it.incomings), "incomings": incs,
            "incoming_seq": [_i(i.incoming_id) for i in it.incomings], "crossings": _sorted_ids(it.crossings)}


def snap_location(loc):
    if loc is None:
        return None
    d = {"geo_name_id": _i(loc.geo_name_id), "lat": _f(loc.gps_latitude), "lon": _f(loc.gps_longitude), "geo": None, "env": None}
    g = loc.geo_transformation
    if g is not None:
        d["geo"] = {"ref": g.geo_reference, "x": _f(g.x_translation), "y": _f(g.y_translation), "rot": _f(g.z_rotation),
                    "scaling": _f(g.scaling)}
    e = loc.environment
    if e is not None:
        d["env"] = {"h": _i(e.time.hours), "m": _i(e.time.minutes), "time_of_day": e.time_of_day.value,
                    "weather": e.weather.value, "underground": e.underground.value}
    return d


def snap_planning_problem(p):
    g = p.goal
    gl = g.lanelets_of_goal_position
    return {"id": _i(p.planning_problem_id), "initial_state": snap_state(p.initial_state), "n_goals": len(g.state_list),
            "goals": [snap_state(s) for s in g.state_list],
            "goal_lanelets": {} if not gl else {str(_i(k)): [_i(x) for x in v] for k, v in sorted(gl.items())}}


def _by_id(items, key, f):
    out = {}
    for it in items:
        out.setdefault(str(_i(key(it))), []).append(f(it))
    # a duplicate id stays visible as a list of length 2
    return {k: (v[0] if len(v) == 1 else {"DUPLICATE": v}) for k, v in out.items()}


def snapshot_network(net):
    """the lanelet-network part of `snapshot` (what `open_lanelet_network` returns)"""
    return {
        "n_lanelets": len(net.lanelets), "lanelets": _by_id(net.lanelets, lambda x: x.lanelet_id, snap_lanelet),
        "n_signs": len(net.traffic_signs), "signs": _by_id(net.traffic_signs, lambda x: x.traffic_sign_id, snap_sign),
        "n_lights": len(net.traffic_lights), "lights": _by_id(net.traffic_lights, lambda x: x.traffic_light_id, snap_light),
        "n_intersections": len(net.intersections),
        "intersections": _by_id(net.intersections, lambda x: x.intersection_id, snap_intersection)}


def snapshot(scenario, pps):
    net = scenario.lanelet_network
    snap = {
        "meta": {"dt": _f(scenario.dt), "scenario_id": str(scenario.scenario_id), "author": scenario.author,
                 "affiliation": scenario.affiliation, "source": scenario.source,
                 "tags": sorted(t.value for t in (scenario.tags or [])), "location": snap_location(scenario.location)},
        "n_lanelets": len(net.lanelets), "lanelets": _by_id(net.lanelets, lambda x: x.lanelet_id, snap_lanelet),
        "n_signs": len(net.traffic_signs), "signs": _by_id(net.traffic_signs, lambda x: x.traffic_sign_id, snap_sign),
        "n_lights": len(net.traffic_lights), "lights": _by_id(net.traffic_lights, lambda x: x.traffic_light_id, snap_light),
        "n_intersections": len(net.intersections),
        "intersections": _by_id(net.intersections, lambda x: x.intersection_id, snap_intersection),
        "n_obstacles": len(scenario.obstacles), "obstacles": _by_id(scenario.obstacles, lambda x: x.obstacle_id, snap_obstacle),
    }
    if pps is not None:
        plist = list(pps.planning_problem_dict.values())
        snap["n_pps"] = len(plist)
        snap["pps"] = _by_id(plist, lambda x: x.planning_problem_id, snap_planning_problem)
    return snap


# ====================================================================================================== diff

def ulp(x):
    return math.ulp(abs(x)) if math.isfinite(x) else 0.0


def tol_precision(d, ulps=4):
    """|a-b| < 10^-d (+ a few ulp of the larger magnitude: decimal -> double conversion of the written text)."""
    bound = 10.0 ** (-d)

    def t(a, b):
        return abs(a - b) < bound + ulps * ulp(max(abs(a), abs(b), bound))
    return t


def tol_exact(a, b):
    return a == b


def diff(a, b, tol=tol_exact, path="", ignore=(), out=None, limit=200):
    """Differences between two snapshots. `ignore`: set of key names skipped wherever they occur."""
    if out is None:
        out = []
    if len(out) >= limit:
        return out
    if isinstance(a, bool) or isinstance(b, bool):
        if type(a) is not type(b) or a != b:
            out.append((path, "discrete", a, b))
        return out
    if isinstance(a, float) and isinstance(b, float):
        if not (a == b or tol(a, b)):
            out.append((path, "real", a, b))
        return out
    if isinstance(a, dict) and isinstance(b, dict):
        for k in a:
            if k in ignore:
                continue
            if k not in b:
                out.append((f"{path}/{k}", "missing", a[k], None))
            else:
                diff(a[k], b[k], tol, f"{path}/{k}", ignore, out, limit)
        for k in b:
            if k not in ignore and k not in a:
                out.append((f"{path}/{k}", "extra", None, b[k]))
        return out
    if isinstance(a, list) and isinstance(b, list):
        if len(a) != len(b):
            out.append((path, "length", len(a), len(b)))
            return out
        for i, (x, y) in enumerate(zip(a, b)):
            diff(x, y, tol, f"{path}/{i}", ignore, out, limit)
        return out
    if type(a) is not type(b) and not (isinstance(a, (int, float)) and isinstance(b, (int, float))):
        out.append((path, "shape", a, b))
        return out
    if a != b:
        out.append((path, "discrete", a, b))
    return out
