#!/venv/bin/python
"""CLI for the xsd -> Lean translator (the code lives in harness/translate/xsd.py, run on every check by
common.run_translators):  translate_xsd.py [--update] [repo]   prints the schema term / rewrites the committed copy."""
import os
import runpy
import sys

sys.path.insert(0, os.path.dirname(os.path.abspath(__file__)))
runpy.run_module("translate.xsd", run_name="__main__")
