"""C03 — every written XML scenario file is valid against the shipped CommonRoad 2020a XSD (and the reader accepts it).

model     lean/CRModel/CRXmlWDoc.lean (complete tree encoders), lean/CRModel/CRXmlWOk.lean (decidable "schema-expressible"),
          lean/CRModel/XsdModel.lean (validator), lean/Gen/XsdScenario.lean (schema term, regenerated from the XSD by
          harness/translate/xsd.py on every run), lean/CRModel/XmlNum.lean (number formatters), lean/CRModel/CRXml.lean
          (node builders as child-name sequences)
theorems  lean/CRProps/C03.lean
generator harness/c03_gen.py (content + spec["var"]: construction path, value classes, entry points, writer object), harness/c03_dims.py
          (the table of every constructor parameter / setter / public operation, checked against the live signatures on every run;
          the histories applied between building and writing)
oracle    bytes written by CommonRoadFileWriter -> lxml.etree.XMLSchema(shipped XSD) + a scan for exponent/nan/inf numbers
          + CommonRoadFileReader on the same file.
"""
from __future__ import annotations

import copy
import glob
import json
import math
import os
import re
import signal

import logging

import c03_gen
from common import CORPUS_DIR, REPO, err_class

logging.disable(logging.CRITICAL)   # the reader / writer log every defaulted value

RULE = ("a case is one schema-expressible scenario + planning-problem set (JSON spec in harness/c03_gen.py: 1-5 lanelets with "
        "bounds/line markings/stop lines/adjacency/references, traffic signs of every country enum, traffic lights, "
        "intersections, static/dynamic(trajectory of 5 state classes or occupancy set)/phantom/environment obstacles, 1-3 "
        "planning problems with interval goals; shapes of dynamic obstacles centred+unrotated as well as off-centre / rotated; "
        "signal states with any subset of the six flags incl. horn) built through the public constructors and written at a precision 1..12; numbers "
        "are drawn from ordinary, tiny (1e-6 rad, lengths below 1e-4, 5e-324), big (1e5 m .. 1e15) and exponent-form-huge "
        "(>=1e16) pools, ids up to 10^18. Every case is non-trivial (>= 1 number whose repr is in exponent form or >= 1 optional "
        "element); distinct = distinct canonical JSON of the spec. Per document: 8 mutants (swapped / dropped / duplicated / "
        "renamed children, exponent-form / nan / malformed numbers, dangling / duplicate / malformed ids and refs, bad enum / "
        "boolean / integer / time texts, unknown or missing attributes, benign reorderings inside xs:all) go through lxml and "
        "the Lean validator. A second stream: single numbers (all magnitudes 5e-324..1.8e308, rounding boundaries, repr "
        "switch-over points 1e-4 / 1e16) x precision 0..12 through float_to_str / decimal_to_str. Quick: 260 documents, ~2000 "
        "mutants, 4000 numbers. Beyond the content every document draws (spec['var'], c03_gen.gen_var; the table of all constructor "
        "parameters / setters / public operations is harness/c03_dims.py, checked against the live signatures on every run): the "
        "construction path (constructors / setters + add_* methods incl. re-assigned ids), numpy scalar types (np.float64, np.float32 "
        "lengths), Python-list positions, 3-D lanelet vertices, repeated references, the entry point (single objects / lists / signs, "
        "lights and intersections through Scenario.add_objects with lanelet ids, references added by the library, explicit cleanup_*), "
        "the goal state class, a history before the write (setters handed their own values, read-only queries, failing operations, "
        "removals, translate_rotate, convert_to_2d, deepcopy / pickle / network copy), what the writer object is (facade / "
        "XMLFileWriter, author / tags / location overrides, precision spec / default / 0 / 15 / 20, filename None, check_validity) and "
        "what it did before (a full write, write_scenario_to_file, a write failing at the end or half-way, a skipped write, another "
        "writer or a protobuf write in between), and which reader entry point reads the file back. Interval-valued orientations "
        "(goal states, uncertain obstacle / trajectory states) are also drawn almost a full turn long (c03_gen.near_full_circle: "
        "+-pi cut off after more decimals than the writer keeps, length 2 pi - k*10**-precision from any start, bounds on the "
        "writer's grid, a bound with an exponent-form repr beside zero), at every writer precision in every run; the reader's "
        "verdict on the written file decides.")
ASSUMPTIONS = [
    "schema-expressible (the property's own restriction) is what harness/c03_gen.py documents: enum members whose value the XSD "
    "lists, initial states at time 0 with the required elements, interval goal states, a prediction for every dynamic/phantom "
    "obstacle, a cycle for every light, finite numbers, positive lengths, unique positive ids, resolvable references, and a "
    "well-formed network (every sign/light referenced by a lanelet; acyclic adjacent_right/left chains — the reader's own "
    "preconditions)",
    "str(float) of a finite float is -?d+(.d+)?(e[+-]?d+)? (contract of Python's repr; checked on every sampled number)",
    "np.format_float_positional(x, trim='0') prints the digits of the shortest repr shifted by the exponent (sampled)",
    "orientations are valid orientations of the library (is_valid_orientation: within [-2 pi, 2 pi]) also after a value class changed "
    "their type: np.float32(2 pi) = 6.2831855 is above 2 pi, the state constructors store it unchecked and the reader's occupancy "
    "computation rejects it, so the generator rounds float32 orientations towards zero at the ends of the range",
    "outside the quantifier (named, no verdict): Scenario.remove_lanelet / erase_lanelet_network results that are no longer "
    "schema-expressible (an incoming left without lanelets; goal lanelets of the planning problems, which the scenario does not know) "
    "— decided by CR.C03.Expressible on the data read off the objects, counted as excluded_ambiguous / outside/history-left-the-quantifier; observation: LaneletNetwork.create_from_lanelet_network(network) (a plain copy) drops every incoming without successors but keeps the left_of references to it, so the copied scenario has a dangling reference and is not schema-expressible either (corpus/C03/outside_network_copy_dangling_left_of.json: model and code agree on the tree and on its being invalid); state positions given as "
    "tuples (silently not written) or with 3 coordinates (obstacle constructors reject them); traffic lights given by a colour list "
    "without a cycle; dynamic / phantom obstacles without prediction; DynamicObstacle.update_initial_state (initial time > 0); state "
    "classes without a 2020a element (PMState, KSTState, STDState, input / lateral / longitudinal states); OverwriteExistingFile."
    "ASK_USER_INPUT (needs a terminal); the file write_scenario_to_file itself produces (no planning problem: the XSD requires one)",
]
TRUSTED = [
    "'accepted by the library's own reader' is not a theorem of C03: it is evaluated by the oracle (CommonRoadFileReader on the written "
    "bytes, every document) and proved for C01's model of writer + reader (C01_xml_roundtrip_whole_file)",
    "harness/translate/xsd.py (XSD -> Lean schema term) and lxml/libxml2's XSD validator: the Lean validator is compared with "
    "lxml's verdict on every written document and on 8 mutants of each, not proved equal",
    "lxml serialisation / parsing of element trees is the identity on trees",
]
REQUIRED_BUCKETS = ["doc/valid", "doc/reader-ok", "num/exponent-repr-small", "num/exponent-repr-large", "num/length<1e-4",
                    "mutant/valid", "mutant/invalid", "mutant/swap", "mutant/number", "mutant/ref", "mutant/id", "mutant/enum",
                    "builder/lanelet", "builder/dynamicObstacle", "builder/state",
                    "tree/compared", "tree/expressible", "builder/dyn-shape-default", "builder/dyn-shape-offcentre-or-rotated", "builder/signalState", "precision/1", "precision/12",
                    "num/orientation<1e-4", "fmt/float_to_str",
                    # dimensions of harness/c03_dims.py (construction path, value classes, entry points, histories, writer object)
                    "var/setters", "var/np", "var/np32", "var/pos_list", "var/lanelet3d", "var/dup_refs", "var/refs_by_library",
                    "var/cleanup", "var/goal-KSState", "var/goal-InitialState", "entry/add-list", "entry/add-scenario",
                    "hist/reassign", "hist/queries", "hist/fail", "hist/remove", "hist/transform", "hist/convert2d", "hist/copy",
                    "hist/pickle", "hist/network-copy", "writer/XMLFileWriter", "writer/override", "writer/precision-default",
                    "writer/precision-0", "writer/precision-15", "writer/precision-20", "doc/second-write-of-one-writer",
                    "writer/after-write_scenario_to_file", "writer/after-failed-write", "writer/after-half-written",
                    "writer/after-skipped-write", "writer/decoy-between", "writer/protobuf-between", "writer/check_validity=True",
                    "writer/filename-none", "entry/reader-lanelet-assignment", "entry/reader-network-only", "entry/check_validity",
                    "num/z-zero-at-some-vertices", "num/z-zero-at-all-vertices", "num/z-nowhere-zero", "num/z-negative-zero",
                    "num/state-value-zero", "dims/table-checked", "outside/history-left-the-quantifier", "outside/after-network-copy",
                    # interval orientations whose length is within 4 units of the writer's last decimal of a full turn
                    "ori/near-full-circle-goal", "ori/near-full-circle-state", "ori/near-full-circle-read-back"]
REQUIRED_BUCKETS += [f"ori/near-full-circle/precision-{_p}" for _p in range(1, 13)]
WORKERS = {"quick": 1, "thorough": 8}
# translator tie of the WRITER: Gen.SrcC03 (regenerated from the working tree on every run by harness/translate/src_c03.py)
# against the regenerated XSD (T03A, table checks) and the hand models XmlW.*Kids (T03, for all environments)
EXTRA_MODULES = ["CRProps.T03", "CRProps.T03A"]

XS_DECIMAL = re.compile(r"[+-]?([0-9]+(\.[0-9]*)?|\.[0-9]+)\Z")
EXPONENTISH = re.compile(r"\s*[+-]?([0-9]+\.?[0-9]*|\.[0-9]+)[eE][+-]?[0-9]+\s*\Z")
NANINF = {"nan", "inf", "-inf", "+inf", "infinity", "-infinity", "+infinity"}
TEXT_FIELDS = {"additionalValue", "geoReference"}                # xs:string content: may hold anything
TEXT_ATTRS = {"author", "affiliation", "source", "benchmarkID"}

_state = {}


def _schema():
    from lxml import etree
    path = os.path.join(REPO, c03_gen.XSD_REL)
    key = (path, os.path.getmtime(path))
    if _state.get("schema_key") != key:
        _state["schema"] = etree.XMLSchema(etree.parse(path))
        _state["schema_key"] = key
    return _state["schema"]


class _Timeout(Exception):
    pass


def _alarm(*_):
    raise _Timeout()


def with_timeout(seconds, f, *a):
    old = signal.signal(signal.SIGALRM, _alarm)
    signal.alarm(seconds)
    try:
        return f(*a)
    finally:
        signal.alarm(0)
        signal.signal(signal.SIGALRM, old)


# ------------------------------------------------------------------------------------------------ trees

def tree_json(e):
    """lxml element -> ["name", {attrs}, "text", [kids]] (comments / PIs dropped; white-space-only character data of an
    element with children is passed as "")."""
    kids = [c for c in e if isinstance(c.tag, str)]
    text = e.text or ""
    for c in e:
        text += c.tail or ""
    if kids and not text.strip(" \t\r\n"):
        text = ""
    return [e.tag, {k: v for k, v in e.attrib.items()}, text, [tree_json(c) for c in kids]]


def lxml_verdict(doc):
    sch = _schema()
    ok = sch.validate(doc)
    return ok, list(sch.error_log) if not ok else []


# ------------------------------------------------------------------------------------------------ mutants

BAD_NUMBERS = ["1e-05", "1E+3", "2.5e17", "nan", "inf", "-inf", "NaN", "INF", "", "1.2.3", " 1.5 ", "+.5", "5.", ".", "-", "0x1f",
               "1,5", "-0.0", "+7", "00012.50", "1.0\n", "１２", "1 000", "--1", ".5", "1e", "e5", "0.0000", "0", "-3"]
BAD_INTS = ["0", "-1", "1.0", "+3", "007", "", " 5 ", "1e3", "abc", "-0", "99999999999999999999999999", "0x10", "5."]
BAD_BOOLS = ["True", "1", "0", "yes", "FALSE", "", " true ", "none", "false", "true"]
BAD_TIMES = ["25:00:00", "7:05:00", "12:30:00Z", "12:60:00", "24:00:00", "24:00:01", "12:30", "12:30:00.5", "12:30:00+01:00",
             "12:30:00+15:00", "", "noon", "23:59:59", "12:30:00.", " 08:15:00 "]
BAD_DATES = ["2024-13-01", "2024-02-30", "2024-02-29", "2023-02-29", "24-01-01", "2024-1-1", "", "2024-01-01Z", "0000-01-01",
             "2024-04-31", "today", "2024-12-31+02:00", "12024-01-01", "1900-02-29", "2000-02-29"]


def _elements(root):
    return [e for e in root.iter() if isinstance(e.tag, str)]


def mutate(r, root):
    """Apply one random mutation in place; returns its kind (or None if not applicable)."""
    from lxml import etree
    els = _elements(root)
    kind = r.choice(["swap", "swap", "drop", "dup", "number", "number", "number", "ref", "ref", "id", "id", "enum", "enum", "attr",
                     "insert", "text", "bool", "int", "rename", "allswap", "time", "date", "wsnum"])
    if kind in ("swap", "allswap"):
        cands = []
        for e in els:
            ks = [c for c in e if isinstance(c.tag, str)]
            for i in range(len(ks) - 1):
                if ks[i].tag != ks[i + 1].tag:
                    cands.append((e, ks[i], ks[i + 1]))
        if kind == "allswap":   # inside xs:all content: order is free, the mutant stays valid
            cands = [c for c in cands if c[0].tag in ("initialState", "state", "goalState", "signalState", "initialSignalState",
                                                       "scenarioTags")]
        if not cands:
            return None
        e, a, b = r.choice(cands)
        ia, ib = e.index(a), e.index(b)
        ta, tb = a.tail, b.tail
        e[ib] = copy.deepcopy(a)
        e[ia] = copy.deepcopy(b)
        e[ia].tail, e[ib].tail = ta, tb
        return kind
    if kind == "drop":
        e = r.choice([x for x in els if x is not root])
        e.getparent().remove(e)
        return kind
    if kind == "dup":
        e = r.choice([x for x in els if x is not root])
        e.addnext(copy.deepcopy(e))
        return kind
    leaves = [e for e in els if len(e) == 0 and e.text is not None]
    if kind in ("number", "wsnum"):
        c = [e for e in leaves if XS_DECIMAL.match(e.text) and e.tag not in TEXT_FIELDS]
        if not c:
            return None
        e = r.choice(c)
        e.text = (r.choice([" ", "\n", "\t"]) + e.text + r.choice([" ", "\r\n", ""])) if kind == "wsnum" else r.choice(BAD_NUMBERS)
        return kind
    if kind == "ref":
        c = [e for e in els if e.get("ref") is not None]
        if not c:
            return None
        e = r.choice(c)
        ids = [x.get("id") for x in els if x.get("id") is not None]
        choice = r.randrange(7)
        if choice == 0:
            e.set("ref", str(max([int(i) for i in ids if i.lstrip("+-").isdigit()] + [0]) + r.randint(1, 9)))   # dangling
        elif choice == 1:
            e.set("ref", r.choice(["abc", "", "1.0", "1e3", "-", " "]))
        elif choice == 2:
            e.set("ref", "00" + e.get("ref"))          # same value, other lexical form
        elif choice == 3:
            del e.attrib["ref"]
        elif choice == 4:
            e.set("ref", "+" + e.get("ref").lstrip("+"))
        elif choice == 5:
            e.set("ref", "-" + e.get("ref"))           # negative: an integer, but no such key
        else:
            e.set("ref", r.choice(ids))                # some other existing id: still resolves
        return kind
    if kind == "id":
        c = [e for e in els if e.get("id") is not None]
        if not c:
            return None
        e = r.choice(c)
        others = [x.get("id") for x in c if x is not e]
        choice = r.randrange(7)
        if choice == 0 and others:
            e.set("id", r.choice(others))              # duplicate key (and possibly dangling refs to the old id)
        elif choice == 1:
            e.set("id", r.choice(["0", "-5", "1.0", "", "abc", "1e2", "-0"]))
        elif choice == 2:
            del e.attrib["id"]
        elif choice == 3:
            e.set("id", "+" + e.get("id"))
        elif choice == 4 and others:
            e.set("id", "0" + r.choice(others))        # duplicate by value, different lexical form
        elif choice == 5:
            e.set("id", " " + e.get("id") + " ")
        else:
            e.set("id", "000" + e.get("id"))
        return kind
    if kind == "enum":
        c = [e for e in leaves if e.text and not XS_DECIMAL.match(e.text) and e.tag not in TEXT_FIELDS and e.tag != "time"
             and e.text not in ("true", "false")]
        if not c:
            return None
        e = r.choice(c)
        e.text = r.choice([e.text.upper(), "bogus", " " + e.text, e.text + " ", "", e.text.capitalize(), e.text[:-1], "unknown", "day",
                           "sunny", "car", "solid"])
        return kind
    if kind == "attr":
        choice = r.randrange(8)
        if choice == 0:
            k = r.choice(sorted(root.attrib))
            del root.attrib[k]
        elif choice == 1:
            r.choice(els).set("foo", "1")
        elif choice == 2:
            root.set("commonRoadVersion", r.choice(["2018b", "2020A", "", "2020a "]))
        elif choice == 3:
            root.set("timeStepSize", r.choice(BAD_NUMBERS))
        elif choice == 4:
            c = [e for e in els if e.get("drivingDir") is not None]
            if not c:
                return None
            e = r.choice(c)
            if r.random() < 0.5:
                e.set("drivingDir", r.choice(["Same", "both", "", "opposite", "same "]))
            else:
                del e.attrib["drivingDir"]
        elif choice == 5:
            root.set("author", r.choice(["", "x<y", "  ", "1e5"]))          # xs:string: anything goes
        elif choice == 6:
            root.set("benchmarkID", r.choice(["", "-1", "ZAM_X-1_1_T-1"]))
        else:
            root.tag = r.choice(["commonroad", "CommonRoad", "scenario"])
        return kind
    if kind == "date":
        root.set("date", r.choice(BAD_DATES))
        return kind
    if kind == "insert":
        e = r.choice(els)
        new = etree.Element(r.choice(["bogus", "point", "x", "lanelet", "exact", "time"]))
        if r.random() < 0.5:
            new.text = "1.0"
        e.insert(r.randint(0, len(e)), new)
        return kind
    if kind == "text":
        e = r.choice(els)
        if len(e):
            e.text = r.choice(["x", "1.0", " \n ", "\t"])
        else:
            e.text = r.choice(["", None, "x", " "])
        return kind
    if kind == "bool":
        c = [e for e in leaves if e.text in ("true", "false")]
        if not c:
            return None
        r.choice(c).text = r.choice(BAD_BOOLS)
        return kind
    if kind == "int":
        c = [e for e in leaves if e.tag in ("duration", "timeOffset", "geoNameId") or
             (e.tag in ("exact", "intervalStart", "intervalEnd") and e.getparent().tag == "time")]
        if not c:
            return None
        r.choice(c).text = r.choice(BAD_INTS)
        return kind
    if kind == "rename":
        e = r.choice([x for x in els if x is not root])
        e.tag = r.choice(sorted({x.tag for x in els}))
        return kind
    if kind == "time":
        c = [e for e in leaves if e.tag == "time" and e.getparent().tag == "environment"]
        if not c:
            return None
        r.choice(c).text = r.choice(BAD_TIMES)
        return kind
    return None


# ------------------------------------------------------------------------------------------------ builder correspondence

def _shape_kinds(shape):
    from commonroad.geometry.shape import Circle, Polygon, Rectangle, ShapeGroup
    def one(s):
        return "rectangle" if isinstance(s, Rectangle) else "circle" if isinstance(s, Circle) else "polygon" if isinstance(s, Polygon) else "?"
    return [one(s) for s in shape.shapes] if isinstance(shape, ShapeGroup) else [one(shape)]


def _kids(e):
    return [c.tag for c in e if isinstance(c.tag, str)]


def builder_items(sc, pps, writer_location, writer_tags, root):
    """[(builder, params, actual child names)] for the objects of the scenario, paired with the nodes the writer produced."""
    from commonroad.common.util import Interval
    from commonroad.geometry.shape import Circle, Polygon, Rectangle, Shape, ShapeGroup
    from commonroad.prediction.prediction import SetBasedPrediction, TrajectoryPrediction
    from commonroad.scenario.obstacle import DynamicObstacle, EnvironmentObstacle, PhantomObstacle, StaticObstacle
    from commonroad.common.common_lanelet import LineMarking
    from commonroad.scenario.scenario import Location, TimeOfDay, Underground, Weather
    from commonroad.scenario.traffic_light import TrafficLightDirection
    import numpy as np
    items = []
    ctx_tags = []

    def add(b, params, node):
        items.append((b, params, _kids(node)))

    def shape_nodes(container, shape, dyn=False):
        ks = _shape_kinds(shape)
        nodes = [c for c in container if c.tag in ("rectangle", "circle", "polygon")]
        shapes = shape.shapes if isinstance(shape, ShapeGroup) else [shape]
        for s, n in zip(shapes, nodes):
            if isinstance(s, Rectangle):
                # guards of the writer as written: `rectangle.orientation != 0.0`, `np.any(np.asarray(center) != 0.0)`
                ori, ctr = bool(s.orientation != 0.0), bool(np.any(np.asarray(s.center) != 0.0))
                add("rectangle", {"dyn": dyn, "ori": ori, "ctr": ctr}, n)
                if dyn:
                    ctx_tags.append("builder/dyn-shape-default" if not (ori or ctr) else "builder/dyn-shape-offcentre-or-rotated")
            elif isinstance(s, Circle):
                ctr = bool(np.any(np.asarray(s.center) != 0.0))
                add("circle", {"dyn": dyn, "ctr": ctr}, n)
                if dyn:
                    ctx_tags.append("builder/dyn-shape-default" if not ctr else "builder/dyn-shape-offcentre-or-rotated")
            elif isinstance(s, Polygon):
                add("polygon", {"n": len(s.vertices)}, n)
        return ks

    by = {}
    for c in root:
        by.setdefault(c.tag, []).append(c)
    obst = sc.obstacles
    add("commonRoad", {"lanelets": len(sc.lanelet_network.lanelets), "signs": len(sc.lanelet_network.traffic_signs),
                       "lights": len(sc.lanelet_network.traffic_lights), "intersections": len(sc.lanelet_network.intersections),
                       "static": sum(isinstance(o, StaticObstacle) for o in obst), "dynamic": sum(isinstance(o, DynamicObstacle) for o in obst),
                       "phantom": sum(isinstance(o, PhantomObstacle) for o in obst),
                       "environment": sum(isinstance(o, EnvironmentObstacle) for o in obst),
                       "problems": len(pps.planning_problem_dict)}, root)
    loc = writer_location if writer_location is not None else Location()
    ln = by["location"][0]
    add("location", {"geo": loc.geo_transformation is not None, "env": loc.environment is not None}, ln)
    if loc.geo_transformation is not None:
        g = ln.find("geoTransformation")
        add("geoTransformation", {}, g)
        add("additionalTransformation", {}, g.find("additionalTransformation"))
    if loc.environment is not None:
        env = loc.environment
        add("environment", {"time": env.time_of_day.value is not TimeOfDay.UNKNOWN, "weather": env.weather.value is not Weather.UNKNOWN,
                            "underground": env.underground.value is not Underground.UNKNOWN}, ln.find("environment"))
    add("scenarioTags", {"tags": [t.value for t in writer_tags]}, by["scenarioTags"][0])
    for la, n in zip(sc.lanelet_network.lanelets, by.get("lanelet", [])):
        add("lanelet", {"pred": len(la.predecessor), "succ": len(la.successor), "adjl": bool(la.adj_left), "adjr": bool(la.adj_right),
                        "stop": bool(la.stop_line), "types": len(la.lanelet_type), "oneway": len(la.user_one_way or ()),
                        "bidir": len(la.user_bidirectional or ()), "signs": len(la.traffic_signs or ()),
                        "lights": len(la.traffic_lights or ())}, n)
        add("bound", {"n": len(la.left_vertices), "marking": isinstance(la.line_marking_left_vertices, LineMarking) and
                      la.line_marking_left_vertices is not LineMarking.UNKNOWN}, n.find("leftBound"))
        add("bound", {"n": len(la.right_vertices), "marking": isinstance(la.line_marking_right_vertices, LineMarking) and
                      la.line_marking_right_vertices is not LineMarking.UNKNOWN}, n.find("rightBound"))
        for p in n.find("leftBound").findall("point")[:1]:
            add("point", {"z": la.left_vertices.shape[1] == 3}, p)
        if la.stop_line:
            s = la.stop_line
            add("stopLine", {"points": s.start is not None or s.end is not None, "marking": bool(s.line_marking),
                             "signs": len(s.traffic_sign_ref) if s.traffic_sign_ref is not None else 0,
                             "lights": len(s.traffic_light_ref) if s.traffic_light_ref is not None else 0}, n.find("stopLine"))
    for sg, n in zip(sc.lanelet_network.traffic_signs, by.get("trafficSign", [])):
        add("trafficSign", {"elements": len(sg.traffic_sign_elements), "position": sg.position is not None,
                            "virtual": sg.virtual is not None}, n)
        for el, en in zip(sg.traffic_sign_elements, n.findall("trafficSignElement")):
            add("trafficSignElement", {"values": len(el.additional_values)}, en)
    for tl, n in zip(sc.lanelet_network.traffic_lights, by.get("trafficLight", [])):
        cyc = tl.traffic_light_cycle
        add("trafficLight", {"cycle": cyc is not None, "position": tl.position is not None,
                             "direction": tl.direction is not TrafficLightDirection.ALL, "active": tl.active is not None}, n)
        if cyc is not None:
            cn = n.find("cycle")
            add("cycle", {"n": len(cyc.cycle_elements), "offset": cyc.time_offset is not None and cyc.time_offset > 0}, cn)
            for en in cn.findall("cycleElement")[:1]:
                add("cycleElement", {}, en)
    for it, n in zip(sc.lanelet_network.intersections, by.get("intersection", [])):
        add("intersection", {"incomings": len(it.incomings), "crossing": it.crossings is not None and len(it.crossings) > 0}, n)
        for inc, inn in zip(it.incomings, n.findall("incoming")):
            add("incoming", {"in": len(inc.incoming_lanelets), "right": len(inc.successors_right or ()),
                             "straight": len(inc.successors_straight or ()), "left": len(inc.successors_left or ()),
                             "leftOf": bool(inc.left_of)}, inn)
        if it.crossings:
            add("crossing", {"n": len(it.crossings)}, n.find("crossing"))

    def value_nodes(st, node):
        for attr in st.used_attributes:
            if attr in ("position", "time_step"):
                continue
            v = getattr(st, attr)
            from commonroad.common.writer.file_writer_xml import StateXMLNode
            child = node.find(StateXMLNode._map_to_xml_prop(attr))
            if child is not None:
                add("value", {"interval": isinstance(v, Interval)}, child)

    def occ_nodes(occs, setnode):
        add("occupancySet", {"n": len(occs)}, setnode)
        for o, on in zip(occs, setnode.findall("occupancy")):
            add("occupancy", {}, on)
            add("shape", {"kinds": shape_nodes(on.find("shape"), o.shape)}, on.find("shape"))
            add("value", {"interval": isinstance(o.time_step, Interval)}, on.find("time"))

    def signal_params(s):
        return {"horn": hasattr(s, "horn"), "il": hasattr(s, "indicator_left"), "ir": hasattr(s, "indicator_right"), "bl": hasattr(s, "braking_lights"),
                "hz": hasattr(s, "hazard_warning_lights"), "fb": hasattr(s, "flashing_blue_lights")}

    for tag, cls in (("staticObstacle", StaticObstacle), ("dynamicObstacle", DynamicObstacle), ("phantomObstacle", PhantomObstacle),
                     ("environmentObstacle", EnvironmentObstacle)):
        objs = [o for o in obst if isinstance(o, cls)]
        for o, n in zip(objs, by.get(tag, [])):
            if cls is StaticObstacle:
                add("staticObstacle", {}, n)
                add("shape", {"kinds": shape_nodes(n.find("shape"), o.obstacle_shape)}, n.find("shape"))
                add("state", {"attrs": list(o.initial_state.used_attributes)}, n.find("initialState"))
                value_nodes(o.initial_state, n.find("initialState"))
            elif cls is EnvironmentObstacle:
                add("environmentObstacle", {}, n)
                add("shape", {"kinds": shape_nodes(n.find("shape"), o.obstacle_shape)}, n.find("shape"))
            elif cls is PhantomObstacle:
                sb = isinstance(o.prediction, SetBasedPrediction)
                add("phantomObstacle", {"setBased": sb}, n)
                if sb:
                    occ_nodes(o.prediction.occupancy_set, n.find("occupancySet"))
            else:
                pred = "occupancySet" if isinstance(o.prediction, SetBasedPrediction) else \
                    "trajectory" if isinstance(o.prediction, TrajectoryPrediction) else "none"
                series = o.signal_series is not None and len(o.signal_series) > 0
                add("dynamicObstacle", {"signal0": o.initial_signal_state is not None, "pred": pred, "series": series}, n)
                add("shape", {"kinds": shape_nodes(n.find("shape"), o.obstacle_shape, dyn=True)}, n.find("shape"))
                add("state", {"attrs": list(o.initial_state.used_attributes)}, n.find("initialState"))
                value_nodes(o.initial_state, n.find("initialState"))
                if o.initial_signal_state is not None:
                    add("signalState", signal_params(o.initial_signal_state), n.find("initialSignalState"))
                if pred == "trajectory":
                    tn = n.find("trajectory")
                    sl = o.prediction.trajectory.state_list
                    add("trajectory", {"n": len(sl)}, tn)
                    for st, sn in zip(sl, tn.findall("state")):
                        add("state", {"attrs": list(st.used_attributes)}, sn)
                        value_nodes(st, sn)
                        if isinstance(st.position, Shape):
                            shape_nodes(sn.find("position"), st.position)
                        else:
                            add("point", {"z": len(st.position) == 3}, sn.find("position").find("point"))
                elif pred == "occupancySet":
                    occ_nodes(o.prediction.occupancy_set, n.find("occupancySet"))
                if series:
                    ssn = n.find("signalSeries")
                    add("signalSeries", {"n": len(o.signal_series)}, ssn)
                    for s, sn in zip(o.signal_series, ssn.findall("signalState")):
                        add("signalState", signal_params(s), sn)
    for pp, n in zip(pps.planning_problem_dict.values(), by.get("planningProblem", [])):
        add("planningProblem", {"goals": len(pp.goal.state_list)}, n)
        add("state", {"attrs": list(pp.initial_state.used_attributes)}, n.find("initialState"))
        for g, gn in zip(pp.goal.state_list, n.findall("goalState")):
            add("state", {"attrs": list(g.used_attributes)}, gn)
    return items, ctx_tags


# ------------------------------------------------------------------------------------------------ whole-tree correspondence

def _num(v):
    """A number as the writer's formatters see it: str(v) and the exact value."""
    from fractions import Fraction
    f = float(v)
    fr = Fraction(*abs(f).as_integer_ratio())
    return [str(v), math.copysign(1.0, f) < 0, str(fr.numerator), str(fr.denominator)]


def _num64(v):
    import numpy as np
    return _num(np.float64(v))


def _pt(a):
    return [_num64(c) for c in a]


def _shape1(s):
    from commonroad.geometry.shape import Circle, Polygon, Rectangle
    import numpy as np
    if isinstance(s, Rectangle):   # length / width: decimal_to_str(raw), orientation: decimal_to_str(np.float64), center: float_to_str
        return ["rect", _num(s.length), _num(s.width), _num64(s.orientation), _num64(s.center[0]), _num64(s.center[1])]
    if isinstance(s, Circle):
        return ["circ", _num64(s.radius), _num64(s.center[0]), _num64(s.center[1])]
    if isinstance(s, Polygon):
        return ["poly", [[_num64(v[0]), _num64(v[1])] for v in s.vertices]]
    raise TypeError(type(s))


def _shape(s):
    from commonroad.geometry.shape import ShapeGroup
    return [_shape1(x) for x in s.shapes] if isinstance(s, ShapeGroup) else [_shape1(s)]


def _val(v):
    from commonroad.common.util import Interval
    return ["i", _num64(v.start), _num64(v.end)] if isinstance(v, Interval) else ["e", _num64(v)]


def _timev(t):
    from commonroad.common.util import Interval
    return ["i", int(t.start), int(t.end)] if isinstance(t, Interval) else ["e", int(t)]


def _state_data(st, goal_lanelets=None):
    import numpy as np
    from commonroad.geometry.shape import Shape
    out = []
    for a in st.used_attributes:
        v = getattr(st, a)
        if a == "position":
            if goal_lanelets is not None and len(goal_lanelets) > 0:
                out.append(["pos", ["ll", [int(i) for i in goal_lanelets]]])
            elif type(v) in (np.ndarray, list):
                out.append(["pos", ["pt", _pt(v)]])
            elif isinstance(v, Shape):
                out.append(["pos", ["sh", _shape(v)]])
        elif a == "time_step":
            out.append(["time", _timev(v)])
        else:
            out.append(["val", a, _val(v)])
    return out


def _signal(s):
    d = {"t": int(s.time_step)}
    for k, a in (("horn", "horn"), ("il", "indicator_left"), ("ir", "indicator_right"), ("bl", "braking_lights"),
                 ("hz", "hazard_warning_lights"), ("fb", "flashing_blue_lights")):
        d[k] = bool(getattr(s, a)) if hasattr(s, a) else None
    return d


def _occ(o):
    return {"shape": _shape(o.shape), "t": _timev(o.time_step)}


def doc_data(sc, pps, loc, tags, writer_meta, precision, date):
    """The data the XML writer reads off the objects, in the writer's iteration orders (CR.XmlW.DocD)."""
    import commonroad
    from commonroad.common.common_lanelet import LineMarking
    from commonroad.prediction.prediction import SetBasedPrediction, TrajectoryPrediction
    from commonroad.scenario.obstacle import DynamicObstacle, EnvironmentObstacle, PhantomObstacle, StaticObstacle
    from commonroad.scenario.scenario import Location
    from commonroad.scenario.traffic_light import TrafficLightDirection
    loc = loc if loc is not None else Location()

    def lm(x):    # enum MEMBER names travel; the model maps member -> written text (CR.XmlW.enumValue / boundMarking ...)
        return x.name
    lanelets = []
    for la in sc.lanelet_network.lanelets:
        stop = None
        if la.stop_line:
            sl = la.stop_line
            stop = {"pts": [_pt(sl.start), _pt(sl.end)] if (sl.start is not None or sl.end is not None) else None,
                    "marking": sl.line_marking.name if sl.line_marking else None,
                    "signs": [int(i) for i in sl.traffic_sign_ref] if sl.traffic_sign_ref is not None else [],
                    "lights": [int(i) for i in sl.traffic_light_ref] if sl.traffic_light_ref is not None else []}
        lanelets.append({
            "id": int(la.lanelet_id), "left": [_pt(v) for v in la.left_vertices], "right": [_pt(v) for v in la.right_vertices],
            "lml": lm(la.line_marking_left_vertices), "lmr": lm(la.line_marking_right_vertices),
            "pred": [int(i) for i in la.predecessor], "succ": [int(i) for i in la.successor],
            "adjl": [int(la.adj_left), bool(la.adj_left_same_direction)] if la.adj_left else None,
            "adjr": [int(la.adj_right), bool(la.adj_right_same_direction)] if la.adj_right else None,
            "stop": stop, "types": [t.name for t in la.lanelet_type],
            "oneway": [u.name for u in la.user_one_way] if la.user_one_way else [],
            "bidir": [u.name for u in la.user_bidirectional] if la.user_bidirectional else [],
            "signs": [int(i) for i in la.traffic_signs] if la.traffic_signs else [],
            "lights": [int(i) for i in la.traffic_lights] if la.traffic_lights else []})
    signs = [{"id": int(sg.traffic_sign_id),
              "elements": [[type(e.traffic_sign_element_id).__name__, e.traffic_sign_element_id.name, [str(v) for v in e.additional_values]]
                           for e in sg.traffic_sign_elements],
              "pos": _pt(sg.position[:2]) if sg.position is not None else None,
              "virtual": bool(sg.virtual) if sg.virtual is not None else None} for sg in sc.lanelet_network.traffic_signs]
    lights = []
    for tl in sc.lanelet_network.traffic_lights:
        cyc = tl.traffic_light_cycle
        lights.append({"id": int(tl.traffic_light_id),
                       "cycle": {"elements": [[int(e.duration), e.state.name] for e in cyc.cycle_elements],
                                 "offset": int(cyc.time_offset) if cyc.time_offset is not None else None} if cyc is not None else None,
                       "pos": _pt(tl.position[:2]) if tl.position is not None else None,
                       "direction": tl.direction.name,
                       "active": bool(tl.active) if tl.active is not None else None})
    inters = [{"id": int(it.intersection_id),
               "incomings": [{"id": int(i.incoming_id), "lanelets": [int(x) for x in i.incoming_lanelets],
                              "right": [int(x) for x in i.successors_right] if i.successors_right else [],
                              "straight": [int(x) for x in i.successors_straight] if i.successors_straight else [],
                              "left": [int(x) for x in i.successors_left] if i.successors_left else [],
                              "leftOf": int(i.left_of) if i.left_of else None} for i in it.incomings],
               "crossings": [int(x) for x in it.crossings] if it.crossings is not None else []}
              for it in sc.lanelet_network.intersections]
    statics, dynamics, phantoms, envs = [], [], [], []
    for o in sc.obstacles:
        if isinstance(o, DynamicObstacle):
            pred = None
            if isinstance(o.prediction, SetBasedPrediction):
                pred = ["occ", [_occ(x) for x in o.prediction.occupancy_set]]
            elif isinstance(o.prediction, TrajectoryPrediction):
                pred = ["traj", [_state_data(x) for x in o.prediction.trajectory.state_list]]
            dynamics.append({"id": int(o.obstacle_id), "type": o.obstacle_type.name, "shape": _shape(o.obstacle_shape),
                             "init": _state_data(o.initial_state),
                             "sig0": _signal(o.initial_signal_state) if o.initial_signal_state is not None else None,
                             "pred": pred, "series": [_signal(x) for x in o.signal_series] if o.signal_series is not None else []})
        elif isinstance(o, StaticObstacle):
            statics.append({"id": int(o.obstacle_id), "type": o.obstacle_type.name, "shape": _shape(o.obstacle_shape),
                            "init": _state_data(o.initial_state)})
        elif isinstance(o, EnvironmentObstacle):
            envs.append({"id": int(o.obstacle_id), "type": o.obstacle_type.name, "shape": _shape(o.obstacle_shape)})
        elif isinstance(o, PhantomObstacle):
            phantoms.append({"id": int(o.obstacle_id),
                             "occ": [_occ(x) for x in o.prediction.occupancy_set] if isinstance(o.prediction, SetBasedPrediction) else None})
    problems = []
    for pp in pps.planning_problem_dict.values():
        goals = []
        for gi, g in enumerate(pp.goal.state_list):
            ll = pp.goal.lanelets_of_goal_position
            goals.append(_state_data(g, ll[gi] if ll is not None and gi in ll else []))
        problems.append({"id": int(pp.planning_problem_id), "init": _state_data(pp.initial_state), "goals": goals})
    geo = env = None
    if loc.geo_transformation is not None:
        g = loc.geo_transformation
        geo = {"ref": g.geo_reference if isinstance(g.geo_reference, str) else "", "x": _num(g.x_translation), "y": _num(g.y_translation), "rot": _num(g.z_rotation),
               "scale": _num(g.scaling)}
    if loc.environment is not None:
        e = loc.environment
        env = {"h": int(e.time.hours), "m": int(e.time.minutes), "tod": e.time_of_day.name, "weather": e.weather.name,
               "underground": e.underground.name}
    return {"precision": precision, "dt": _num(sc.dt), "author": writer_meta[0],
            "affiliation": writer_meta[1], "source": writer_meta[2], "benchmark": str(sc.scenario_id), "date": date,
            "location": {"geoNameId": int(loc.geo_name_id), "lat": _num(loc.gps_latitude), "lon": _num(loc.gps_longitude),
                         "geo": geo, "env": env},
            "tags": [t.name for t in tags], "lanelets": lanelets, "signs": signs, "lights": lights, "intersections": inters,
            "statics": statics, "dynamics": dynamics, "phantoms": phantoms, "envs": envs, "problems": problems}


def tree_diff(a, b, path=""):
    """First difference between two ["name", attrs, text, kids] trees (None if equal)."""
    if a[0] != b[0]:
        return f"{path}: element <{a[0]}> vs <{b[0]}>"
    here = f"{path}/{a[0]}"
    if a[1] != b[1]:
        return f"{here}: attributes {a[1]} vs {b[1]}"
    if a[2] != b[2]:
        return f"{here}: text {a[2]!r} vs {b[2]!r}"
    if len(a[3]) != len(b[3]):
        return f"{here}: children {[k[0] for k in a[3]]} vs {[k[0] for k in b[3]]}"
    for i, (x, y) in enumerate(zip(a[3], b[3])):
        d = tree_diff(x, y, f"{here}[{i}]")
        if d:
            return d
    return None


# ------------------------------------------------------------------------------------------------ one document

def xsd_key(err):
    m = re.match(r"Element '([^']*)'(?:, attribute '([^']*)')?", err.message)
    where = (m.group(1) + ("@" + m.group(2) if m.group(2) else "")) if m else "?"
    return f"C03/xsd/{err.type_name.replace('SCHEMAV_', '').lower()}/{where}"


def number_tags(ctx, spec):
    """Coverage buckets from the generated spec (not from the output): small lengths, exponent-form reprs."""
    def walk(o):
        if isinstance(o, dict):
            if o.get("k") == "rect" and (0 < o["l"] < 1e-4 or 0 < o["w"] < 1e-4):
                ctx.tag("num/length<1e-4")
            if o.get("k") == "circ" and 0 < o["r"] < 1e-4:
                ctx.tag("num/length<1e-4")
            if o.get("k") == "rect" and 0 < abs(o["o"]) < 1e-4:
                ctx.tag("num/orientation<1e-4")
            if isinstance(o.get("vals"), dict) and any(isinstance(v, (int, float)) and v == 0 for v in o["vals"].values()):
                ctx.tag("num/state-value-zero")       # an exact state value 0 / 0.0 / -0.0 (falsy, but a value to be written)
            for v in o.values():
                walk(v)
        elif isinstance(o, list):
            for v in o:
                walk(v)
        elif isinstance(o, float) and o != 0 and (abs(o) >= 1e16):
            ctx.tag("num/coordinate>=1e16")
    walk(spec)


def scan_numbers(root):
    """Independent of any schema: no exponent-form / nan / inf number anywhere outside free-text fields."""
    bad = []
    for e in root.iter():
        if not isinstance(e.tag, str):
            continue
        for k, v in e.attrib.items():
            if k not in TEXT_ATTRS and (EXPONENTISH.match(v) or v.strip().lower() in NANINF):
                bad.append((f"{e.tag}@{k}", v))
        if len(e) == 0 and e.text and e.tag not in TEXT_FIELDS:
            if EXPONENTISH.match(e.text) or e.text.strip().lower() in NANINF:
                bad.append((e.tag, e.text))
    return bad


def _innermost(exc, suffixes):
    """Class.function of the innermost traceback frame inside the given library files (part of the failure key)."""
    name, tb = "?", exc.__traceback__
    while tb is not None:
        code = tb.tb_frame.f_code
        if code.co_filename.endswith(suffixes):
            loc = tb.tb_frame.f_locals
            owner = loc.get("cls") if isinstance(loc.get("cls"), type) else (type(loc["self"]) if "self" in loc else None)
            name = (owner.__name__ + "." if owner is not None else "") + code.co_name
        tb = tb.tb_next
    return name


def _writer_function(exc):
    return _innermost(exc, ("file_writer_xml.py", "file_writer_interface.py", "file_writer.py"))


def _reader_function(exc):
    return _innermost(exc, ("file_reader_xml.py",))


def _poison(pps):
    """A planning-problem set the writer chokes on after the whole scenario has been appended to the root node."""
    saved = pps._planning_problem_dict
    pps._planning_problem_dict = {**saved, -1: object()}
    return saved


def write_doc(ctx, spec):
    """-> (status, payload): ('ok', (path, sc, pps, loc, tags, (author, affiliation, source), precision)) | ('build', msg) |
    ('write', exc).  spec["var"] (c03_gen.gen_var) says how the objects were assembled, what happened to them before the write
    (c03_dims.apply_history) and what the writer object is and did before."""
    import contextlib
    import io
    import random
    import warnings
    import c03_dims
    from commonroad.common.file_writer import CommonRoadFileWriter
    from commonroad.common.util import FileFormat
    from commonroad.common.writer.file_writer_interface import OverwriteExistingFile
    from commonroad.common.writer.file_writer_xml import XMLFileWriter
    from commonroad.scenario.scenario import Location, Tag
    V = spec.get("var") or {}
    W = V.get("writer") or {}
    tags_seen = []
    try:
        sc, pps, kw = c03_gen.build(spec)
        with warnings.catch_warnings():
            warnings.simplefilter("ignore")
            sc, pps = c03_dims.apply_history(sc, pps, V, tags_seen)
    except Exception as e:  # noqa  -- the constructors rejected the spec: not a writer matter
        return "build", f"{type(e).__name__}: {str(e)[:160]}"
    ctx.tag(*tags_seen)
    for k in ("setters", "np", "np32", "refs_by_library", "cleanup", "lanelet3d", "dup_refs", "pos_list", "geo_default", "np_state"):
        if V.get(k):
            ctx.tag(f"var/{k}")
    if V:
        ctx.tag(f"entry/add-{V.get('entry')}", f"var/goal-{V.get('goal_cls')}")
    for la in sc.lanelet_network.lanelets:      # observed on the objects: elevations that are exactly zero at some / all vertices
        if la.left_vertices.shape[1] == 3:
            zs = list(la.left_vertices[:, 2]) + list(la.right_vertices[:, 2])
            zero = [float(z) == 0.0 for z in zs]
            ctx.tag("num/z-zero-at-some-vertices" if any(zero) and not all(zero) else
                    "num/z-zero-at-all-vertices" if all(zero) else "num/z-nowhere-zero")
            if any(math.copysign(1.0, float(z)) < 0 and float(z) == 0.0 for z in zs):
                ctx.tag("num/z-negative-zero")
    r = random.Random(V.get("hseed", 0))
    path = os.path.join(ctx.tmpdir(), f"doc_{ctx.worker}.xml")
    prec = W.get("precision", "spec")
    eff_prec = spec["precision"] if prec == "spec" else (4 if prec == "default" else prec)
    kw = {} if prec == "default" else {"decimal_precision": eff_prec}
    meta, eff_tags, eff_loc = (sc.author, sc.affiliation, sc.source), sc.tags, sc.location
    over = {}
    if W.get("override"):
        ctx.tag("writer/override")
        meta = ("writer <&> " + spec["author"][::-1], "", "écrit 'par' \"" + spec["source"] + "\"")
        eff_tags = set(r.sample(sorted(Tag, key=lambda t: t.name), r.choice([0, 1, 3])))
        eff_loc = Location(2867714, 48.262333, 11.668775, None, sc.location.environment if sc.location is not None else None)
        over = {"author": meta[0], "affiliation": meta[1], "source": meta[2], "tags": eff_tags, "location": eff_loc}
    cwd = os.getcwd()
    try:
        with contextlib.redirect_stdout(io.StringIO()), warnings.catch_warnings():
            warnings.simplefilter("ignore")
            if W.get("cls") == "xml":
                ctx.tag("writer/XMLFileWriter")
                if over:      # the writer's own setters
                    w = XMLFileWriter(sc, pps, location=over["location"], **kw)
                    w.author, w.affiliation, w.source, w.tags = over["author"], over["affiliation"], over["source"], over["tags"]
                    w.root_node = None
                else:
                    w = XMLFileWriter(sc, pps, **kw)
            else:
                w = CommonRoadFileWriter(sc, pps, file_format=FileFormat.XML, **over, **kw)
            ctx.tag(f"writer/precision-{prec}")
            if W.get("decoy"):    # other writers constructed (and used) in between: process-global precision
                ctx.tag("writer/decoy-between")
                d = CommonRoadFileWriter(sc, pps, decimal_precision=(eff_prec + 5) % 13)
                if r.random() < 0.5:
                    d.write_to_file(path + ".decoy", OverwriteExistingFile.ALWAYS)
            if W.get("pb_between"):
                ctx.tag("writer/protobuf-between")
                try:
                    CommonRoadFileWriter(sc, pps, file_format=FileFormat.PROTOBUF).write_to_file(path + ".pb", OverwriteExistingFile.ALWAYS)
                except Exception:  # noqa  -- the protobuf writer's own restrictions (C15)
                    pass
            first = W.get("first")
            if first is None and not V and spec.get("precision", 4) % 3 == 0:
                first = "write_to_file"
            if first == "write_to_file":      # every file the writer produces has to be valid, also the one a REUSED writer produces
                ctx.tag("doc/second-write-of-one-writer")
                w.write_to_file(path + ".first", OverwriteExistingFile.ALWAYS)
            elif first == "write_scenario_to_file":
                ctx.tag("doc/second-write-of-one-writer", "writer/after-write_scenario_to_file")
                w.write_scenario_to_file(path + ".first", OverwriteExistingFile.ALWAYS)
            elif first == "fail":             # a write that fails at the very end (directory does not exist)
                ctx.tag("writer/after-failed-write")
                try:
                    w.write_to_file(os.path.join(ctx.tmpdir(), "no", "such", "dir", "x.xml"), OverwriteExistingFile.ALWAYS)
                except OSError:
                    pass
            elif first == "fail_mid":         # a write that fails half-way (after the scenario, inside the planning problems)
                ctx.tag("writer/after-failed-write", "writer/after-half-written")
                saved = _poison(pps)
                try:
                    w.write_to_file(path + ".first", OverwriteExistingFile.ALWAYS)
                except Exception:  # noqa
                    pass
                finally:
                    pps._planning_problem_dict = saved
            elif first == "skip":             # SKIP on an existing file writes nothing and must leave the writer usable
                ctx.tag("writer/after-skipped-write")
                with open(path, "w") as f:
                    f.write("<junk/>")
                w.write_to_file(path, OverwriteExistingFile.SKIP)
                if open(path).read() != "<junk/>":
                    ctx.fail("C03/write/skip-overwrites", "write_to_file(existing file, OverwriteExistingFile.SKIP) changed the file",
                             {"kind": "doc", "spec": spec})
            args = {"check_validity": True} if W.get("check_validity") else {}
            if args:
                ctx.tag("writer/check_validity=True")
            if W.get("filename_none"):
                ctx.tag("writer/filename-none")
                os.chdir(ctx.tmpdir())
                w.write_to_file(None, OverwriteExistingFile.ALWAYS, **args)
                path = os.path.join(ctx.tmpdir(), str(sc.scenario_id) + ".xml")
            else:
                w.write_to_file(path, OverwriteExistingFile.ALWAYS, **args)
    except Exception as e:  # noqa
        return "write", e
    finally:
        os.chdir(cwd)
    return "ok", (path, sc, pps, eff_loc, eff_tags, meta, eff_prec, tags_seen)


def orientation_intervals(sc, pps):
    """(where, start, end) of every interval-valued orientation of the objects handed to the writer (input data)."""
    out = []

    def see(where, st):
        o = getattr(st, "orientation", None) if st is not None else None
        if o is not None and hasattr(o, "start") and hasattr(o, "end"):
            out.append((where, float(o.start), float(o.end)))
    for pp in pps.planning_problem_dict.values():
        see("state", pp.initial_state)
        for st in pp.goal.state_list:
            see("goal", st)
    for ob in sc.obstacles:
        see("state", getattr(ob, "initial_state", None))
        traj = getattr(getattr(ob, "prediction", None), "trajectory", None)
        for st in (traj.state_list if traj is not None else []):
            see("state", st)
    return out


def near_full_tags(ctx, sc, pps, eff_prec):
    """buckets of the dimension 'orientation interval almost a full turn long' (measured in units of the writer's last decimal)"""
    hit = False
    for where, a, b in orientation_intervals(sc, pps):
        if 0 < 2 * math.pi - (b - a) <= 4 * 10.0 ** -min(eff_prec, 15):
            ctx.tag(f"ori/near-full-circle-{where}")
            if 1 <= eff_prec <= 12:
                ctx.tag(f"ori/near-full-circle/precision-{eff_prec}")
            hit = True
    return hit


def overlong_orientations(root):
    """(intervalStart text, intervalEnd text) of the <orientation> intervals of the file that are not shorter than a full turn"""
    out = []
    for e in root.iter("orientation"):
        lo, hi = e.find("intervalStart"), e.find("intervalEnd")
        if lo is not None and hi is not None:
            try:
                if float(hi.text) - float(lo.text) >= 2 * math.pi:
                    out.append((lo.text, hi.text))
            except (TypeError, ValueError):
                pass
    return out


def _cut_or_rounded(text, x, prec):
    """how `text` relates to the given bound x: 'cut' = the digits of repr(x) cut off after prec decimals (never farther from zero
    than x), 'exp-rounded-out' = repr(x) is in exponent form and text is x rounded to prec decimals, AWAY from zero, else None"""
    from fractions import Fraction
    try:
        t = Fraction(text.rstrip(".") if text.rstrip(".") not in ("", "-") else "0")
    except (ValueError, ZeroDivisionError):
        return None
    X, u = Fraction(x), Fraction(1, 10 ** prec)
    if "e" in repr(float(x)):
        if abs(t - X) <= u / 2 and abs(t) > abs(X):
            return "exp-rounded-out"
        return "cut" if abs(t - X) <= u / 2 else None
    X = Fraction(repr(float(x)))          # the digits of the shortest repr are what is cut off
    return "cut" if (abs(t) <= abs(X) and abs(X) - abs(t) < u and (t == 0 or (t > 0) == (X > 0))) else None


def exponent_bound_overlong(root, sc, pps, eff_prec):
    """True iff every over-long <orientation> interval of the file is an input interval (shorter than a full turn) one of whose
    bounds has an exponent-form repr and was ROUNDED away from zero while the other bound is written as given / cut off: the
    known rounding of float_to_str's exponent branch (known-findings.txt), not any other way of lengthening an interval."""
    over = overlong_orientations(root)
    if not over:
        return False
    given = [(a, b) for _, a, b in orientation_intervals(sc, pps) if b - a < 2 * math.pi]
    for lo, hi in over:
        ok = False
        for a, b in given:
            ka, kb = _cut_or_rounded(lo, a, eff_prec), _cut_or_rounded(hi, b, eff_prec)
            if ka and kb and "exp-rounded-out" in (ka, kb):
                ok = True
                break
        if not ok:
            return False
    return True


def run_doc(ctx, spec, mutants=8, correspond=True):
    from lxml import etree
    case = {"kind": "doc", "spec": spec}
    st, payload = write_doc(ctx, spec)
    if st == "build":
        ctx.excluded += 1
        ctx.tag("doc/constructor-rejected")
        _state.setdefault("build_errors", []).append(payload)
        return
    ctx.case(case)
    if ((spec.get("var") or {}).get("writer") or {}).get("precision", "spec") == "spec":
        ctx.tag(f"precision/{spec['precision']}")
    number_tags(ctx, spec)
    if st == "write":
        fn = _writer_function(payload)
        ctx.fail(f"C03/write/raises-{err_class(payload)}/{fn}", f"XMLFileWriter.write_to_file raised {type(payload).__name__} in {fn}: "
                 f"{str(payload)[:200]}", case)
        return
    path, sc, pps, loc, tags, meta, eff_prec, hist_tags = payload
    V = spec.get("var") or {}
    near_full = near_full_tags(ctx, sc, pps, eff_prec)
    doc = etree.parse(path)
    root = doc.getroot()
    # ---- oracle 1: the shipped XSD (lxml)
    ok, errs = lxml_verdict(doc)
    # Two histories may leave the quantifier: Scenario.remove_lanelet (an intersection incoming without lanelets; goal lanelets of
    # the planning problems, which the scenario does not know) and LaneletNetwork.create_from_lanelet_network (drops the incomings
    # without successors, keeps left_of references to them).  The decidable hypothesis of C03_valid_doc (CR.C03.Expressible) on the
    # data read off the objects decides, not the outcome; on such a scenario the model and the code still have to agree (same tree,
    # same verdict).  Every other history has to stay expressible (compared below).
    why_risky = [t for t in ("hist/remove-lanelet", "hist/network-copy") if t in hist_tags]
    risky = bool(why_risky)
    data = tres = None
    if correspond or (risky and not ok):
        try:
            data = doc_data(sc, pps, loc, tags, meta, eff_prec, root.get("date"))
            tres = ctx.driver.ask("C03", "tree", {"doc": data})
        except Exception as e:  # noqa  -- objects outside the modelled data (reported through the oracle / other ops)
            data = None
            ctx.tag("tree/data-unavailable")
    if risky and tres is not None and not tres["expressible"]:
        ctx.excluded += 1
        ctx.tag("outside/history-left-the-quantifier", *[f"outside/after-{t.split('/')[1]}" for t in why_risky])
        real = tree_json(root)
        diff = tree_diff(real, tres["tree"])
        ctx.compare({"kind": "tree-outside", "spec": spec}, "equal" if diff is None else f"writer vs model: {diff}", "equal",
                    "tree written by XMLFileWriter vs CR.XmlW.docNode on a scenario that is not schema-expressible")
        ctx.compare({"kind": "inexpressible-after-history", "spec": spec}, {"valid": ok}, {"valid": tres["valid"]},
                    f"lxml on the written file vs CR.Xsd.validDoc on the model tree (scenario not expressible: {tres['why']})")
        return
    if ok:
        ctx.tag("doc/valid")
    seen = set()
    for err in errs:
        k = xsd_key(err)
        if k not in seen:
            seen.add(k)
            ctx.fail(k, f"written file is invalid against the 2020a XSD (precision {eff_prec}): {err.message[:220]}", case)
    # ---- oracle 2: plain decimal notation everywhere
    for where, text in scan_numbers(root)[:3]:
        ctx.fail(f"C03/number/not-plain-decimal/{where}", f"<{where}> is written as {text!r} (exponent form / nan / inf)", case)
    # ---- oracle 3: the library's own reader (all three entry points)
    from commonroad.common.file_reader import CommonRoadFileReader
    how = V.get("hseed", 0) % 6 if V else 0
    try:
        if how == 1:
            ctx.tag("entry/reader-lanelet-assignment")
            with_timeout(20, lambda: CommonRoadFileReader(path).open(lanelet_assignment=True))
        elif how == 2:
            ctx.tag("entry/reader-network-only")
            with_timeout(20, lambda: CommonRoadFileReader(path).open_lanelet_network())
        else:
            with_timeout(20, lambda: CommonRoadFileReader(path).open())
        ctx.tag("doc/reader-ok")
        if near_full and how != 2:
            ctx.tag("ori/near-full-circle-read-back")
    except _Timeout:
        ctx.fail("C03/reader/does-not-return", "CommonRoadFileReader.open() did not return within 20 s on the written file", case)
    except Exception as e:  # noqa
        entry = ["open()", "open(lanelet_assignment=True)", "open_lanelet_network()"][how if how < 3 else 0]
        key = f"C03/reader/raises-{err_class(e)}"
        if how == 1:      # only this entry point?  then the key names it and the reader function that failed
            try:
                with_timeout(20, lambda: CommonRoadFileReader(path).open())
                key = f"C03/reader/lanelet_assignment/{_reader_function(e)}"
            except Exception as e2:  # noqa  -- open() rejects the file as well: that failure is the finding
                e, entry, key = e2, "open()", f"C03/reader/raises-{err_class(e2)}"
        if isinstance(e, AssertionError) and how != 2 and exponent_bound_overlong(root, sc, pps, eff_prec):
            key = "C03/reader/raises-assert/orientation-interval-exponent-bound-rounded-outward"
        ctx.fail(key, f"CommonRoadFileReader ({entry}) rejects the written file: {type(e).__name__}: {str(e)[:200]}", case)
    # ---- oracle 4: the writer's own validity check agrees with the shipped XSD (on the file and on a broken copy)
    if V and V.get("hseed", 0) % 4 == 0:
        from commonroad.common.file_writer import CommonRoadFileWriter
        ctx.tag("entry/check_validity")
        raw = open(path, "rb").read()
        got = CommonRoadFileWriter.check_validity_of_commonroad_file(raw)
        if bool(got) != bool(ok):
            ctx.fail("C03/check_validity/disagrees-with-xsd", f"check_validity_of_commonroad_file = {got} on a file lxml finds "
                     f"{'valid' if ok else 'invalid'} against the shipped XSD", case)
        broken = raw.replace(b"<location>", b"<location><bogus/>", 1)
        if CommonRoadFileWriter.check_validity_of_commonroad_file(broken):
            ctx.fail("C03/check_validity/accepts-invalid", "check_validity_of_commonroad_file accepts a file with an unknown element", case)
    if not correspond:
        return
    # ---- correspondence A: Lean validator vs lxml on the real document
    res = ctx.driver.ask("C03", "validate", {"doc": tree_json(root)})
    ctx.compare({"kind": "validate", "spec": spec}, {"valid": ok}, {"valid": res["valid"]},
                f"lxml.XMLSchema vs CR.Xsd.validDoc on writer output; model diag {res['diag']}; lxml {[e.message[:120] for e in errs[:2]]}")
    # ---- correspondence B: builders (child-name sequences)
    try:
        items, btags = builder_items(sc, pps, loc, tags, root)
        ctx.tag(*btags)
    except Exception as e:  # noqa  -- the document does not have the expected nodes: the oracle above has reported it
        items = []
        ctx.tag("builder/unpaired")
    if items:
        plain = json.loads(json.dumps([[b, p] for b, p, _ in items], default=lambda o: o.item()))      # numpy scalars -> Python values
        out = ctx.driver.ask("C03", "kids", {"items": plain})
        for (b, p, actual), model in zip(items, out):
            ctx.tag(f"builder/{b}")
            ctx.compare({"kind": "kids", "builder": b, "params": p}, actual, model, f"children of <{b}> vs CR.XmlW.{b}Kids")
    # ---- correspondence B2: the whole tree — model encoder (CR.XmlW.docNode) on the data read off the objects vs the writer
    if data is not None and tres is not None:
        real = tree_json(root)
        diff = tree_diff(real, tres["tree"])
        ctx.tag("tree/compared")
        ctx.compare({"kind": "tree", "spec": spec}, "equal" if diff is None else f"writer vs model: {diff}", "equal",
                    "tree written by XMLFileWriter vs CR.XmlW.docNode on the same data")
        ctx.compare({"kind": "tree-valid", "spec": spec}, {"valid": ok}, {"valid": tres["valid"]},
                    "lxml on the written file vs CR.Xsd.validDoc on the model tree")
        # the hypotheses of C03_valid_doc (schema-expressible, unique ids, resolvable references) hold on the generated scenario
        ctx.tag("tree/expressible" if tres["expressible"] else "tree/not-expressible")
        ctx.compare({"kind": "expressible", "spec": spec}, True, tres["expressible"],
                    f"generated scenario vs CR.C03.Expressible (decidable hypotheses of C03_valid_doc); failing clauses {tres['why']}")
    # ---- correspondence C: mutants, both validators
    r = ctx.rng
    for _ in range(mutants):
        m = copy.deepcopy(root)
        kind = mutate(r, m)
        if kind is None:
            continue
        m = etree.fromstring(etree.tostring(m))      # validate the document (bytes), not the in-memory artefacts of the edit
        mok, merrs = lxml_verdict(etree.ElementTree(m))
        mres = ctx.driver.ask("C03", "validate", {"doc": tree_json(m)})
        ctx.tag(f"mutant/{kind}", "mutant/valid" if mok else "mutant/invalid")
        if mok != mres["valid"]:
            xml = etree.tostring(m).decode("utf-8", "replace")
            ctx.compare({"kind": "mutant", "mutation": kind, "xml": xml if len(xml) < 20000 else xml[:20000]}, {"valid": mok},
                        {"valid": mres["valid"]},
                        f"mutant ({kind}): lxml {[e.message[:160] for e in merrs[:2]]} vs model node={mres['node']} keys={mres['keys']} "
                        f"refs={mres['refs']} diag={mres['diag']}")
        else:
            ctx.traces += 1


# ------------------------------------------------------------------------------------------------ numbers

def gen_number(r):
    x = r.random()
    if x < 0.25:
        v = r.choice(c03_gen.TINY + c03_gen.BIG + c03_gen.HUGE + c03_gen.ORD)
    elif x < 0.5:
        v = r.choice([-1, 1]) * r.random() * 10.0 ** r.randint(-30, 30)
    elif x < 0.6:
        v = r.choice([-1, 1]) * r.random() * 10.0 ** r.randint(-320, 308)
    elif x < 0.75:
        v = r.choice([-1, 1]) * round(r.uniform(0, 1000), r.randint(0, 12))
    elif x < 0.85:       # rounding boundaries of format(x, '.pf')
        p = r.randint(0, 6)
        v = (r.randint(0, 10 ** 6) + 0.5) / 10 ** p * 10.0 ** (-r.choice([5, 6, 7, 8]))
    elif x < 0.92:
        v = r.choice([9.9999e-5, 0.0001, 0.00010001, 9999999999999998.0, 1e16, 1.0000000000000002e16, 999999999999999.9,
                      0.00009999999999999999, 123456789012345680.0])
    else:
        v = float(r.randint(-10 ** 17, 10 ** 17))
    return v


def run_number(ctx, case):
    import numpy as np
    from fractions import Fraction
    import commonroad.common.writer.file_writer_xml as W
    from commonroad.common.writer.file_writer_interface import precision
    x, p = case["x"], case["p"]
    ctx.case(case, nontrivial=True)
    f = np.float64(x)
    rp = str(f)
    if "e-" in rp:
        ctx.tag("num/exponent-repr-small")
    elif "e" in rp:
        ctx.tag("num/exponent-repr-large")
    fr = Fraction(*abs(float(x)).as_integer_ratio())
    neg = math.copysign(1.0, float(x)) < 0
    model = ctx.driver.ask("C03", "fmt", {"items": [[rp, neg, str(fr.numerator), str(fr.denominator), p]]})[0]
    if not model[2]:
        ctx.compare(case, rp, "a repr of the form -?d+(.d+)?(e[+-]?d+)?", "str(np.float64 x) is outside the modelled repr grammar")
    old = precision.decimals
    try:
        precision.decimals = p
        fts = getattr(W, "float_to_str", None)
        if fts is not None:
            ctx.tag("fmt/float_to_str")
            out = fts(f)
            ctx.compare(case, out, model[0], "float_to_str vs CR.XmlNum.floatToStr")
            if not XS_DECIMAL.match(out):
                ctx.fail("C03/float_to_str/not-xs-decimal", f"float_to_str({x!r}) at precision {p} = {out!r} is not an xs:decimal", case)
        dts = getattr(W, "decimal_to_str", None)
        if dts is not None:
            ctx.tag("fmt/decimal_to_str")
            args = [x, f]
            models = ctx.driver.ask("C03", "fmt", {"items": [[str(a), neg, str(fr.numerator), str(fr.denominator), p] for a in args]})
            for arg, mod in zip(args, models):
                out = dts(arg)
                ctx.compare(case, out, mod[1], "decimal_to_str vs CR.XmlNum.decimalToStr")
                if not XS_DECIMAL.match(out):
                    ctx.fail("C03/decimal_to_str/not-xs-decimal", f"decimal_to_str({x!r}) = {out!r} is not an xs:decimal", case)
                elif x > 0 and not any(ch in "123456789" for ch in out):
                    ctx.fail("C03/decimal_to_str/positive-written-as-zero", f"decimal_to_str({x!r}) = {out!r} is not a positive decimal", case)
    finally:
        precision.decimals = old


# ------------------------------------------------------------------------------------------------ driver

def run_case(ctx, case, **kw):
    if case.get("kind") == "num":
        run_number(ctx, case)
    else:
        run_doc(ctx, case["spec"], **kw)


def _lex_table(ctx):
    """Leaf lexical grammars: Lean Simple.accepts vs lxml on one-element mutants is covered by the mutants; here the
    schema-independent xs:decimal regex of the oracle is cross-checked against the model once per run."""
    samples = sorted(set(BAD_NUMBERS + ["0.5", "12", "-7.25", "1e5", "+0.0", "3.", "007.100"]))
    out = ctx.driver.ask("C03", "lex", {"items": [["xs:decimal", s] for s in samples]})
    for s, m in zip(samples, out):
        ctx.compare({"kind": "lex", "s": s}, bool(XS_DECIMAL.match(s.strip(" \t\r\n"))), m, "oracle regex vs CR.Xsd.isDecimal")


def check_dimension_table(ctx):
    """The generator's dimension table against the live signatures: an unknown parameter / setter / method is an infrastructure
    error (the generator has to be extended before a verdict means anything)."""
    import c03_dims
    from common import InfraError
    bad = c03_dims.check_dimensions()
    if bad:
        raise InfraError("C03 generator dimension table (harness/c03_dims.py) does not match the library: " + "; ".join(bad[:8]))
    ctx.tag("dims/table-checked")


def run(ctx, docs=260, numbers=4000, mutants=8):
    check_dimension_table(ctx)
    for p in sorted(glob.glob(os.path.join(CORPUS_DIR, "C03", "*.json"))):
        run_case(ctx, json.load(open(p)))
    _lex_table(ctx)
    r = ctx.rng
    n = ctx.n(docs)
    for i in range(n):
        spec = c03_gen.gen_spec(r, REPO)
        if i < 12:
            spec["precision"] = i + 1          # every precision in every run
            spec["var"]["writer"]["precision"] = "spec"
            c03_gen.widen_orientations(r, spec, force=True)      # ... with orientation intervals almost a full turn long
        elif i < 12 + len(c03_gen.Z_PROFILES):
            spec["var"]["lanelet3d"] = c03_gen.Z_PROFILES[i - 12]      # every elevation profile in every run
            spec["var"]["hist"] = [h for h in spec["var"]["hist"] if h != "convert2d"]
        run_doc(ctx, spec, mutants=mutants)
    for i in range(ctx.n(numbers)):
        run_number(ctx, {"kind": "num", "x": gen_number(r), "p": r.randint(0, 12) if i % 7 else r.choice([1, 4, 12])})
    if ctx.evaluations and ctx.excluded > 0.2 * ctx.evaluations:
        from common import InfraError
        raise InfraError(f"generator: {ctx.excluded} specs rejected by the constructors, e.g. {_state.get('build_errors', [''])[:2]}")


def search(ctx):
    """Failing-input search: documents and numbers only through the oracle (no model), more of them."""
    r = ctx.rng
    for p in sorted(glob.glob(os.path.join(CORPUS_DIR, "C03", "*.json"))):
        run_case(ctx, json.load(open(p)))
    for i in range(ctx.n(40)):
        spec = c03_gen.gen_spec(r, REPO)
        if i < 12:
            spec["precision"] = i + 1
            spec["var"]["writer"]["precision"] = "spec"
            c03_gen.widen_orientations(r, spec, force=True)
        run_doc(ctx, spec, correspond=False)
    for _ in range(ctx.n(500)):
        run_number(ctx, {"kind": "num", "x": gen_number(r), "p": r.randint(0, 12)})
    for b in ("doc/valid", "doc/reader-ok"):
        ctx.hist.setdefault(b, 0)


def replay(ctx, case):
    if case.get("kind") == "num":
        run_number(ctx, case)
    else:
        run_doc(ctx, case["spec"], correspond=False)


def shrink(case, key):
    """Greedy: drop obstacles / intersections / extra planning problems / goal states while the same key still fails."""
    if case.get("kind") != "doc":
        return case
    from common import Ctx
    spec = copy.deepcopy(case["spec"])

    def fails(s):
        c = Ctx("C03", "quick", 0)
        try:
            run_doc(c, s, correspond=False)
            return any(f.key == key for f in c.failures)
        except Exception:  # noqa
            return False
        finally:
            c.close()
    if not fails(spec):
        return case
    for field, keep in (("dynamic", 0), ("static", 0), ("phantom", 0), ("envobs", 0), ("intersections", 0), ("problems", 1)):
        i = 0
        while len(spec[field]) > keep and i < len(spec[field]):
            cand = copy.deepcopy(spec)
            del cand[field][i]
            if fails(cand):
                spec = cand
            else:
                i += 1
    for p in spec["problems"]:
        while len(p["goals"]) > 1:
            cand = copy.deepcopy(spec)
            cp = [q for q in cand["problems"] if q["id"] == p["id"]][0]
            cp["goals"].pop()
            if fails(cand):
                spec = cand
                p = [q for q in spec["problems"] if q["id"] == p["id"]][0]
            else:
                break
    if spec["location"] is not None:
        for f in ("geo", "env"):
            cand = copy.deepcopy(spec)
            cand["location"][f] = None
            if fails(cand):
                spec = cand
    # the dimensions beyond the content: none at all, else one history step / writer option / flag at a time
    if spec.get("var"):
        cand = copy.deepcopy(spec)
        cand["var"] = None
        if fails(cand):
            return {"kind": "doc", "spec": cand}
        plain = {"cls": "facade", "override": False, "precision": "spec", "first": None, "decoy": False, "pb_between": False,
                 "check_validity": False, "filename_none": False}
        for op in list(spec["var"].get("hist") or []):
            cand = copy.deepcopy(spec)
            cand["var"]["hist"].remove(op)
            if fails(cand):
                spec = cand
        for k, v in plain.items():
            if (spec["var"].get("writer") or {}).get(k, v) != v:
                cand = copy.deepcopy(spec)
                cand["var"]["writer"][k] = v
                if fails(cand):
                    spec = cand
        for k, v in (("setters", False), ("np", False), ("np32", False), ("entry", "single"), ("refs_by_library", False), ("cleanup", False),
                     ("lanelet3d", False), ("dup_refs", False), ("goal_cls", "CustomState"), ("pos_list", False), ("geo_default", False),
                     ("np_state", False), ("sid", {"cooperative": False, "prediction": None})):
            if spec["var"].get(k, v) != v:
                cand = copy.deepcopy(spec)
                cand["var"][k] = v
                if fails(cand):
                    spec = cand
    return {"kind": "doc", "spec": spec}
