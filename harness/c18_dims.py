"""C18 — the dimension tables of the generator, checked against the real classes on every run.

OPERATIONS  every public method and property of the classes a scenario / planning-problem set is made of, of the renderer,
            the writers and the reader, with ONE decision each:
              "mutator"        documented mutator or a property with a setter used as one: outside the quantifier of C18 (the
                               generator uses some of them to build HISTORIES before the read-only sequence: "mutator, pre:<kind>")
              "op:<kind>"      read-only; exercised by the harness operation <kind> (c18.gen_ops / c18.run_op)
              "snapshot"       read-only property; read by the reflective snapshot after every operation (its setter, if any, is a mutator)
              "n/a:<why>"      cannot act on a scenario (takes raw geometry / a string / renderer-only state)
CONSTRUCTORS every parameter of every constructor the builder calls (and of the parameterised read-only entry points), with how
            the generator varies it.
`check()` compares both tables with inspect on the library under test: a public name or a parameter the tables do not know
stops the run with exit 2, so that code growth cannot silently escape the generator.
"""
from __future__ import annotations

import functools
import importlib
import inspect

from common import InfraError

M, S = "mutator", "snapshot"

CLASSES = {
    "Scenario": "commonroad.scenario.scenario", "ScenarioID": "commonroad.scenario.scenario", "Location": "commonroad.scenario.scenario",
    "Environment": "commonroad.scenario.scenario", "GeoTransformation": "commonroad.scenario.scenario", "Time": "commonroad.common.util",
    "LaneletNetwork": "commonroad.scenario.lanelet", "Lanelet": "commonroad.scenario.lanelet", "MapInformation": "commonroad.scenario.lanelet",
    "StopLine": "commonroad.common.common_lanelet", "Area": "commonroad.scenario.area", "AreaBorder": "commonroad.scenario.area",
    "StaticObstacle": "commonroad.scenario.obstacle", "DynamicObstacle": "commonroad.scenario.obstacle",
    "PhantomObstacle": "commonroad.scenario.obstacle", "EnvironmentObstacle": "commonroad.scenario.obstacle",
    "Occupancy": "commonroad.prediction.prediction", "SetBasedPrediction": "commonroad.prediction.prediction",
    "TrajectoryPrediction": "commonroad.prediction.prediction", "Trajectory": "commonroad.scenario.trajectory",
    "State": "commonroad.scenario.state", "PMState": "commonroad.scenario.state", "ExtendedPMState": "commonroad.scenario.state",
    "CustomState": "commonroad.scenario.state", "SignalState": "commonroad.scenario.state", "MetaInformationState": "commonroad.scenario.state",
    "PlanningProblem": "commonroad.planning.planning_problem", "PlanningProblemSet": "commonroad.planning.planning_problem",
    "GoalRegion": "commonroad.planning.goal",
    "TrafficLight": "commonroad.scenario.traffic_light", "TrafficLightCycle": "commonroad.scenario.traffic_light",
    "TrafficLightCycleElement": "commonroad.scenario.traffic_light", "TrafficSign": "commonroad.scenario.traffic_sign",
    "TrafficSignElement": "commonroad.scenario.traffic_sign", "Intersection": "commonroad.scenario.intersection",
    "IntersectionIncomingElement": "commonroad.scenario.intersection", "TrafficSignInterpreter": "commonroad.scenario.traffic_sign_interpreter",
    "Rectangle": "commonroad.geometry.shape", "Circle": "commonroad.geometry.shape", "Polygon": "commonroad.geometry.shape",
    "ShapeGroup": "commonroad.geometry.shape", "Interval": "commonroad.common.util", "AngleInterval": "commonroad.common.util",
    "MPRenderer": "commonroad.visualization.mp_renderer", "CommonRoadFileWriter": "commonroad.common.file_writer",
    "XMLFileWriter": "commonroad.common.writer.file_writer_xml", "ProtobufFileWriter": "commonroad.common.writer.file_writer_protobuf",
    "CommonRoadFileReader": "commonroad.common.file_reader",
}

_SHAPE = {"contains_point": "op:shape_q", "draw": "op:draw/obstacles", "rotate_translate_local": "op:shape_q (returns a new shape)",
          "translate_rotate": "op:shape_q (returns a new shape)", "shapely_object": "op:shape_q"}
_STATE = {"convert_state_to_state": "op:state_q (writes into its ARGUMENT, reads self)", "draw": "op:draw/states", "fill_with_defaults": M,
          "has_value": "op:state_q", "translate_rotate": "op:state_q (returns a new state)", "attributes": S, "is_uncertain_orientation": S,
          "is_uncertain_position": S, "used_attributes": S}
_OBST = {"draw": "op:draw/obstacles", "occupancy_at_time": "op:occ", "signal_state_at_time_step": "op:signal", "state_at_time": "op:state",
         "translate_rotate": "mutator, pre:translate", "initial_center_lanelet_ids": S, "initial_shape_lanelet_ids": S, "initial_signal_state": S,
         "initial_state": S, "obstacle_id": S, "obstacle_role": S, "obstacle_shape": S, "obstacle_type": S, "signal_series": S}
_WRITER = {"check_validity_of_commonroad_file": "op:write_x (check_validity=True); takes the file text, no scenario",
           "write_scenario_to_file": "op:write_xml / write_pb / write_x", "write_to_file": "op:write_xml / write_pb / write_x",
           "affiliation": "n/a:writer's own header fields", "author": "n/a:writer's own header fields", "source": "n/a:writer's own header fields",
           "tags": "n/a:writer's own header fields", "root_node": "n/a:writer's own XML tree"}

OPERATIONS = {
    "Scenario": {
        "add_objects": "mutator, pre:remove_readd", "assign_obstacles_to_lanelets": "mutator, pre:assign", "convert_to_2d": M, "draw": "op:draw",
        "erase_lanelet_network": M, "generate_object_id": "mutator, pre:gen_id", "obstacle_by_id": "op:occ (every obstacle query goes through it)",
        "obstacle_states_at_time_step": "op:states_at", "obstacles_by_position_intervals": "op:by_interval", "obstacles_by_role_and_type": "op:by_role",
        "occupancies_at_time_step": "op:occs", "remove_hanging_lanelet_members": M, "remove_intersection": M, "remove_lanelet": M,
        "remove_obstacle": "mutator, pre:remove_readd", "remove_traffic_light": M, "remove_traffic_sign": M, "replace_lanelet_network": M,
        "translate_rotate": "mutator, pre:translate", "dt": S, "dynamic_obstacles": S, "environment_obstacle": S, "lanelet_network": S,
        "obstacles": "op:draw (draw_scenario iterates it); the four role lists are in the snapshot", "phantom_obstacle": S, "static_obstacles": S},
    "ScenarioID": {"from_benchmark_id": "op:scenario_id_q (alternative constructor from str(id))", "country_id": S, "country_name": S, "map_name": S,
                   "prediction_type": S},
    "Location": {k: S for k in ("environment", "geo_name_id", "geo_transformation", "gps_latitude", "gps_longitude")},
    "Environment": {k: S for k in ("time", "time_of_day", "underground", "weather")},
    "GeoTransformation": {k: S for k in ("geo_reference", "scaling", "x_translation", "y_translation", "z_rotation")},
    "Time": {k: S for k in ("day", "hours", "minutes", "month", "year")},
    "LaneletNetwork": {
        "add_area": M, "add_intersection": M, "add_lanelet": M, "add_lanelets_from_network": M, "add_traffic_light": M, "add_traffic_sign": M,
        "cleanup_lanelet_references": M, "cleanup_traffic_light_references": M, "cleanup_traffic_sign_references": M, "convert_to_2d": M,
        "create_from_lanelet_list": "op:net_copy", "create_from_lanelet_network": "op:net_copy", "draw": "op:draw/network",
        "filter_obstacles_in_network": "op:map_obstacles", "find_area_by_id": "op:net_find", "find_intersection_by_id": "op:net_find",
        "find_lanelet_by_id": "op:lanelet_q (every lanelet query goes through it)", "find_lanelet_by_position": "op:find_pos",
        "find_lanelet_by_shape": "op:find_shape", "find_most_likely_lanelet_by_state": "op:most_likely", "find_traffic_light_by_id": "op:light",
        "find_traffic_sign_by_id": "op:net_find", "get_traffic_lights_referenced_lanelets": "op:net_find",
        "get_traffic_sign_referenced_lanelets": "op:net_find", "lanelets_in_proximity": "op:proximity", "map_obstacles_to_lanelets": "op:map_obstacles",
        "remove_area": M, "remove_intersection": M, "remove_lanelet": M, "remove_traffic_light": M, "remove_traffic_sign": M,
        "translate_rotate": "mutator, pre:translate", "areas": S, "information": S, "intersections": S, "lanelet_polygons": "op:net_find",
        "lanelets": S, "map_inc_lanelets_to_intersections": S, "traffic_lights": S, "traffic_signs": S},
    "Lanelet": {
        "add_adjacent_area_to_lanelet": M, "add_dynamic_obstacle_to_lanelet": M, "add_predecessor": M, "add_static_obstacle_to_lanelet": M,
        "add_successor": M, "add_traffic_light_to_lanelet": M, "add_traffic_sign_to_lanelet": M,
        "all_lanelets_by_merging_predecessors_from_lanelet": "op:lanelet_q/merge_pred", "all_lanelets_by_merging_successors_from_lanelet": "op:lanelet_q/merge_succ",
        "contains_points": "op:lanelet_q/contains", "convert_to_2d": M, "convert_to_polygon": "op:lanelet_q/polygon",
        "dynamic_obstacle_by_time_step": "op:lanelet_q/dyn_by_time", "find_lanelet_predecessors_in_range": "op:lanelet_q/pred_range",
        "find_lanelet_successors_in_range": "op:lanelet_q/succ_range", "get_obstacles": "op:lanelet_q/obstacles", "interpolate_position": "op:lanelet_q/interpolate",
        "merge_lanelets": "op:lanelet_q/merge_direct", "orientation_by_position": "op:lanelet_q/orientation", "remove_predecessor": M, "remove_successor": M,
        "translate_rotate": "mutator, pre:translate", "distance": "op:lanelet_q/distance (lazy cache; not read by the snapshot)",
        "inner_distance": "op:lanelet_q/distance (lazy cache; not read by the snapshot)", "polygon": S,
        **{k: S for k in ("adj_left", "adj_left_same_direction", "adj_right", "adj_right_same_direction", "adjacent_areas", "center_vertices",
                          "dynamic_obstacles_on_lanelet", "lanelet_id", "lanelet_type", "left_vertices", "line_marking_left_vertices",
                          "line_marking_right_vertices", "predecessor", "right_vertices", "static_obstacles_on_lanelet", "stop_line", "successor",
                          "traffic_lights", "traffic_signs", "user_bidirectional", "user_one_way")}},
    "MapInformation": {k: S for k in ("affiliation", "author", "commonroad_version", "date", "licence_name", "licence_text", "map_id", "source")},
    "StopLine": {"convert_to_2d": M, "translate_rotate": "mutator, pre:translate", "end": S, "line_marking": S, "start": S, "traffic_light_ref": S,
                 "traffic_sign_ref": S},
    "Area": {"translate_rotate": "mutator, pre:translate", "area_id": S, "area_types": S, "border": S},
    "AreaBorder": {"translate_rotate": "mutator, pre:translate", "adjacent": S, "area_border_id": S, "border_vertices": S, "line_marking": S},
    "StaticObstacle": dict(_OBST),
    "DynamicObstacle": {**_OBST, "update_initial_state": M, "update_prediction": M, "external_dataset_id": S, "initial_meta_information_state": S,
                        "meta_information_series": S, "prediction": S},
    "PhantomObstacle": {"draw": "op:draw/obstacles", "occupancy_at_time": "op:occ", "state_at_time": "op:state", "translate_rotate": "mutator, pre:translate",
                        "obstacle_role": S, "prediction": S},
    "EnvironmentObstacle": {"draw": "op:draw/obstacles", "occupancy_at_time": "op:occ", "translate_rotate": "mutator, pre:translate", "obstacle_id": S,
                            "obstacle_role": S, "obstacle_shape": S, "obstacle_type": S},
    "Occupancy": {"draw": "op:draw (every drawn occupancy)", "translate_rotate": "mutator, pre:translate", "shape": S, "time_step": S},
    "SetBasedPrediction": {"occupancy_at_time_step": "op:pred_q", "translate_rotate": "mutator, pre:translate", "final_time_step": "op:final_time",
                           "initial_time_step": S, "occupancy_set": S},
    "TrajectoryPrediction": {"occupancy_at_time_step": "op:pred_q", "translate_rotate": "mutator, pre:translate", "center_lanelet_assignment": S,
                             "final_time_step": "op:final_time", "initial_time_step": S,
                             "occupancy_set": "op:occset (cached_property; not read by the snapshot)", "shape": S, "shape_lanelet_assignment": S,
                             "trajectory": "snapshot; setter: mutator, pre:set_same", "wheelbase_lengths": S},
    "Trajectory": {"append_state": M, "check_state_list": "op:traj_q", "draw": "op:draw/trajectories",
                   "resample_continuous_time_state_list": "op:traj_q (alternative constructor from the trajectory's own states)",
                   "state_at_time_step": "op:traj_q", "states_in_time_interval": "op:traj_q", "translate_rotate": "mutator, pre:translate",
                   "final_state": S, "initial_time_step": S, "state_list": S},
    "State": dict(_STATE),
    "PMState": {**_STATE, "orientation": S},
    "ExtendedPMState": {**_STATE, "velocity_y": S},
    "CustomState": {**_STATE, "add_attribute": M, "set_value": M},
    "SignalState": {},
    "MetaInformationState": {k: S for k in ("meta_data_bool", "meta_data_float", "meta_data_int", "meta_data_str")},
    "PlanningProblem": {"draw": "op:draw", "goal_reached": "op:goal_reached / reached_own", "translate_rotate": "mutator, pre:translate", "goal": S,
                        "initial_state": S, "planning_problem_id": S},
    "PlanningProblemSet": {"add_planning_problem": M, "draw": "op:draw", "find_planning_problem_by_id": "op:pps_find",
                           "translate_rotate": "mutator, pre:translate", "planning_problem_dict": S},
    "GoalRegion": {"draw": "op:draw/goal", "is_reached": "op:reached / reached_own", "translate_rotate": "mutator, pre:translate",
                   "lanelets_of_goal_position": S, "state_list": S},
    "TrafficLight": {"convert_to_2d": M, "draw": "op:draw/lights", "get_state_at_time_step": "op:light", "translate_rotate": "mutator, pre:translate",
                     "active": S, "color": S, "direction": S, "position": S, "shape": S, "traffic_light_cycle": S, "traffic_light_id": S},
    "TrafficLightCycle": {"get_state_at_time_step": "op:cycle_q", "active": S, "cycle_elements": S,
                          "cycle_init_timesteps": "op:cycle_q (lazy cache; not read by the snapshot)", "time_offset": "snapshot; setter: mutator, pre:offset"},
    "TrafficLightCycleElement": {"duration": S, "state": S},
    "TrafficSign": {"convert_to_2d": M, "draw": "op:draw/signs", "translate_rotate": "mutator, pre:translate", "first_occurrence": S, "position": S,
                    "traffic_sign_elements": S, "traffic_sign_id": S, "virtual": S},
    "TrafficSignElement": {"additional_values": S, "traffic_sign_element_id": S},
    "Intersection": {"crossings": S, "incomings": S, "intersection_id": S, "map_incoming_lanelets": S},
    "IntersectionIncomingElement": {k: S for k in ("incoming_id", "incoming_lanelets", "left_of", "successors_left", "successors_right",
                                                   "successors_straight")},
    "TrafficSignInterpreter": {"speed_limit": "op:sign_interp", "required_speed": "op:sign_interp"},
    "Rectangle": {**_SHAPE, "center": S, "length": S, "orientation": S, "vertices": S, "width": S},
    "Circle": {**_SHAPE, "center": S, "radius": S},
    "Polygon": {**_SHAPE, "center": S, "vertices": S},
    "ShapeGroup": {k: v for k, v in _SHAPE.items() if k != "shapely_object"} | {"shapes": S},
    "Interval": {"contains": "op:interval_q", "intersection": "op:interval_q", "overlaps": "op:interval_q", "end": S, "length": S, "start": S},
    "AngleInterval": {"contains": "op:interval_q", "intersect": "op:interval_q", "intersection": "op:interval_q", "overlaps": "op:interval_q", "end": S,
                      "length": S, "start": S},
    "MPRenderer": {
        "add_callback": "n/a:renderer-only state", "clear": "op:draw (reuse: between two renderings)", "create_video": "op:draw (video)",
        "draw_dynamic_obstacle": "op:draw", "draw_ellipse": "n/a:takes raw geometry", "draw_environment_obstacle": "op:draw", "draw_goal_region": "op:draw/goal",
        "draw_goal_state": "op:draw/goal", "draw_initital_state": "op:draw", "draw_lanelet_network": "op:draw", "draw_list": "op:draw/list",
        "draw_phantom_obstacle": "op:draw", "draw_planning_problem": "op:draw", "draw_planning_problem_set": "op:draw", "draw_polygon": "n/a:takes raw geometry",
        "draw_rectangle": "n/a:takes raw geometry", "draw_scenario": "op:draw", "draw_state": "op:draw/states", "draw_static_obstacle": "op:draw",
        "draw_traffic_light_sign": "op:draw/signs, draw/lights", "draw_trajectories": "op:draw/trajectories", "draw_trajectory": "op:draw/trajectories",
        "remove_dynamic": "op:draw (reuse)", "render": "op:draw", "render_dynamic": "op:draw (reuse)", "render_static": "op:draw (reuse)",
        "plot_limits": "op:draw (constructor argument)", "plot_limits_focused": "op:draw (focus_obstacle)"},
    "CommonRoadFileWriter": {k: v for k, v in _WRITER.items() if k in ("check_validity_of_commonroad_file", "write_scenario_to_file", "write_to_file")},
    "XMLFileWriter": dict(_WRITER),
    "ProtobufFileWriter": {k: v for k, v in _WRITER.items() if k != "root_node"},
    "CommonRoadFileReader": {"open": "op:read_back (of the file just written from the scenario)", "open_lanelet_network": "op:read_back"},
}

# module-level functions that take scenario objects
FUNCTIONS = {
    "commonroad.geometry.shape": {"occupancy_shape_from_state": "op:state_q", "shape_group_occupancy_shape_from_state": "n/a:needs wheelbase lengths, which "
                                  "no public constructor can give to an obstacle with an InitialState"},
    "commonroad.visualization.util": {"collect_center_line_colors": "op:viz_util", "approximate_bounding_box_dyn_obstacles": "op:viz_util",
                                      "draw_polygon_as_patch": "n/a:takes raw geometry", "draw_polygon_collection_as_patch": "n/a:takes raw geometry",
                                      "get_arrow_path_at": "n/a:takes raw geometry", "colormap_idx": "n/a:takes a number",
                                      "get_vehicle_direction_triangle": "op:draw (draw_direction flag)", "set_non_blocking": "n/a:matplotlib state",
                                      "line_marking_to_linestyle": "n/a:takes an enum", "traffic_light_color_dict": "n/a:takes an enum",
                                      "get_tangent_angle": "n/a:takes raw geometry"},
}

V = "varied"
CONSTRUCTORS = {
    "Scenario.__init__": {"dt": V, "scenario_id": V, "author": "fixed text", "tags": V, "affiliation": "fixed text", "source": "fixed text", "location": "None / given"},
    "ScenarioID.__init__": {"cooperative": V, "country_id": V, "map_name": V, "map_id": V, "configuration_id": V, "obstacle_behavior": V, "prediction_id": V,
                            "scenario_version": "default / 2018b / 2020a given (bucket scenario-version:2018b; the writers write the current format whatever the id says)"},
    "Location.__init__": {"geo_name_id": V, "gps_latitude": V, "gps_longitude": V, "geo_transformation": "None / given", "environment": "None / given"},
    "Environment.__init__": {"time": V, "time_of_day": V, "weather": V, "underground": V},
    "GeoTransformation.__init__": {"geo_reference": V, "x_translation": V, "y_translation": V, "z_rotation": V, "scaling": V},
    "Time.__init__": {"hours": V, "minutes": V, "day": "None / given", "month": "None / given", "year": "None / given"},
    "LaneletNetwork.__init__": {"information": "default / given MapInformation"},
    "MapInformation.__init__": {k: V for k in ("commonroad_version", "map_id", "date", "author", "affiliation", "source", "licence_name", "licence_text")},
    "Lanelet.__init__": {"left_vertices": V, "center_vertices": V, "right_vertices": V, "lanelet_id": V, "predecessor": V, "successor": V, "adjacent_left": V,
                         "adjacent_left_same_direction": V, "adjacent_right": V, "adjacent_right_same_direction": V, "line_marking_left_vertices": V,
                         "line_marking_right_vertices": V, "stop_line": "None / given", "lanelet_type": "empty / given", "user_one_way": "empty / given",
                         "user_bidirectional": "empty / given", "traffic_signs": "through add_objects(sign, lanelet_ids)",
                         "traffic_lights": "through add_objects(light, lanelet_ids)", "adjacent_areas": "through add_area(area, lanelet_ids)"},
    "StopLine.__init__": {"start": V, "end": V, "line_marking": V, "traffic_sign_ref": "None / empty / given", "traffic_light_ref": "None / empty / given"},
    "Area.__init__": {"area_id": V, "border": V, "area_types": V},
    "AreaBorder.__init__": {"area_border_id": V, "border_vertices": V, "adjacent": "None / given", "line_marking": "None / given"},
    "StaticObstacle.__init__": {k: V for k in ("obstacle_id", "obstacle_type", "obstacle_shape", "initial_state", "initial_center_lanelet_ids",
                                               "initial_shape_lanelet_ids", "initial_signal_state", "signal_series")},
    "DynamicObstacle.__init__": {**{k: V for k in ("obstacle_id", "obstacle_type", "obstacle_shape", "initial_state", "prediction", "initial_center_lanelet_ids",
                                                   "initial_shape_lanelet_ids", "initial_signal_state", "signal_series", "initial_meta_information_state",
                                                   "meta_information_series", "external_dataset_id", "history", "signal_history", "center_lanelet_ids_history",
                                                   "shape_lanelet_ids_history")},
                                 "kwargs": "none (wheelbase_lengths cannot be used with an InitialState: the initial_state setter needs hitch_angle)"},
    "PhantomObstacle.__init__": {"obstacle_id": V, "prediction": "None / given"},
    "EnvironmentObstacle.__init__": {"obstacle_id": V, "obstacle_type": V, "obstacle_shape": V},
    "Occupancy.__init__": {"time_step": "int / Interval", "shape": V},
    "SetBasedPrediction.__init__": {"initial_time_step": V, "occupancy_set": "sorted / shuffled"},
    "TrajectoryPrediction.__init__": {"trajectory": V, "shape": V, "center_lanelet_assignment": "None / given", "shape_lanelet_assignment": "None / given",
                                      "kwargs": "none (the wheelbase_lengths setter stores under a misspelt name; it has no effect)"},
    "Trajectory.__init__": {"initial_time_step": V, "state_list": "1..4 states of 8 state classes"},
    "SignalState.__init__": {"kwargs": "every subset of the slots"},
    "MetaInformationState.__init__": {k: "None / given" for k in ("meta_data_str", "meta_data_int", "meta_data_float", "meta_data_bool")},
    "PlanningProblem.__init__": {"planning_problem_id": V, "initial_state": V, "goal_region": V},
    "PlanningProblemSet.__init__": {"planning_problem_list": "0..2 problems"},
    "GoalRegion.__init__": {"state_list": "1..3 goal states", "lanelets_of_goal_position": "None / dict / defaultdict, complete / missing keys"},
    "TrafficLight.__init__": {"traffic_light_id": V, "position": V, "traffic_light_cycle": V, "color": "None / given", "active": V, "direction": V,
                              "shape": "None / given"},
    "TrafficLightCycle.__init__": {"cycle_elements": V, "time_offset": V, "active": V},
    "TrafficLightCycleElement.__init__": {"state": V, "duration": V},
    "TrafficSign.__init__": {"traffic_sign_id": V, "traffic_sign_elements": "1..2 elements of 5 country enums", "first_occurrence": V, "position": V, "virtual": V},
    "TrafficSignElement.__init__": {"traffic_sign_element_id": V, "additional_values": "none / one / two, integer / decimal"},
    "Intersection.__init__": {"intersection_id": V, "incomings": V, "crossings": "empty / given"},
    "IntersectionIncomingElement.__init__": {"incoming_id": V, "incoming_lanelets": V, "successors_right": V, "successors_straight": V, "successors_left": V,
                                             "left_of": "None / given"},
    "Rectangle.__init__": {"length": V, "width": V, "center": V, "orientation": V},
    "Circle.__init__": {"radius": V, "center": V},
    "Polygon.__init__": {"vertices": V},
    "ShapeGroup.__init__": {"shapes": "1..3 shapes"},
    "Interval.__init__": {"start": V, "end": V},
    "AngleInterval.__init__": {"start": V, "end": V},
    "MPRenderer.__init__": {"draw_params": "22 parameters moved off their defaults (c18.DRAW_FLAGS)", "plot_limits": "None / given", "ax": "given",
                            "figsize": "through ax", "focus_obstacle": "None / a dynamic obstacle of the scenario"},
    "MPRenderer.render": {"show": "False (no display)", "filename": "None / a file", "keep_static_artists": V},
    "MPRenderer.create_video": {"obj_lists": "[scenario] / [scenario, planning problems]", "file_path": "a gif in the case's directory", "delta_time_steps": V,
                                "plotting_horizon": V, "draw_params": "None / given", "fig_size": "small", "dt": "small", "dpi": "small", "progress": "False",
                                "callback": "None"},
    "CommonRoadFileWriter.__init__": {"scenario": V, "planning_problem_set": V, "author": "None / given", "affiliation": "None / given", "source": "None / given",
                                      "tags": "None / given", "location": "None / given", "decimal_precision": V, "file_format": V},
    "CommonRoadFileWriter.write_to_file": {"filename": "given", "overwrite_existing_file": "ALWAYS / SKIP on an existing file", "check_validity": V},
    "CommonRoadFileWriter.write_scenario_to_file": {"filename": "given", "overwrite_existing_file": "ALWAYS / SKIP on an existing file"},
    "CommonRoadFileReader.__init__": {"filename": "the file just written", "file_format": "None (by suffix) / given"},
    "CommonRoadFileReader.open": {"lanelet_assignment": V},
    "Scenario.obstacles_by_position_intervals": {"position_intervals": V, "obstacle_role": "default / every subset of the four roles", "time_step": "None / given"},
    "Scenario.occupancies_at_time_step": {"time_step": V, "obstacle_role": "None / each role"},
    "Scenario.obstacles_by_role_and_type": {"obstacle_role": "None / given", "obstacle_type": "None / given"},
    "LaneletNetwork.create_from_lanelet_network": {"lanelet_network": V, "shape_input": "None / given", "exclude_lanelet_types": "None / given", "cleanup_ids": V},
    "LaneletNetwork.create_from_lanelet_list": {"lanelets": V, "cleanup_ids": V},
    "Lanelet.get_obstacles": {"obstacles": "static / static + dynamic", "time_step": V},
    "Lanelet.all_lanelets_by_merging_successors_from_lanelet": {
        "lanelet": "any lanelet of the network, also one on a cycle of successor references (bucket merge:route-closes-cycle:merge_succ)",
        "network": "the scenario's network", "max_length": "25 / 45 / 60 / 150 (a ring of 2..3 lanelets of length 20 closes within all but the first)"},
    "Lanelet.all_lanelets_by_merging_predecessors_from_lanelet": {
        "lanelet": "any lanelet of the network, also one on a cycle (bucket merge:route-closes-cycle:merge_pred)",
        "network": "the scenario's network", "max_length": "25 / 45 / 60 / 150"},
}


def _public(cls):
    out = set()
    for n in dir(cls):
        if n.startswith("_"):
            continue
        a = inspect.getattr_static(cls, n)
        if isinstance(a, (property, functools.cached_property, staticmethod, classmethod)) or callable(a):
            out.add(n)
    return out


def _resolve(qual):
    cls_name, _, meth = qual.partition(".")
    cls = getattr(importlib.import_module(CLASSES[cls_name]), cls_name)
    return getattr(cls, meth)


def check(ctx=None, op_kinds=()):
    """compare the tables with the library under test; unknown public names / parameters stop the run (exit 2)"""
    problems = []
    for name, mod in CLASSES.items():
        cls = getattr(importlib.import_module(mod), name)
        have, table = _public(cls), OPERATIONS.get(name)
        if table is None:
            problems.append(f"class {name} has no entry in OPERATIONS")
            continue
        for n in sorted(have - set(table)):
            problems.append(f"{name}.{n} is a public member the operation table does not know")
        for n in sorted(set(table) - have):
            if ctx is not None:
                ctx.tag("dims:stale-entry:" + name + "." + n)
    for mod, table in FUNCTIONS.items():
        m = importlib.import_module(mod)
        have = {n for n, f in vars(m).items() if inspect.isfunction(f) and f.__module__ == mod and not n.startswith("_")}
        for n in sorted(have - set(table)):
            problems.append(f"{mod}.{n} is a public function the table does not know")
    for qual, table in CONSTRUCTORS.items():
        params = [p for p in inspect.signature(_resolve(qual)).parameters if p not in ("self", "cls")]
        for p in params:
            if p not in table:
                problems.append(f"{qual} has a parameter `{p}` the constructor table does not know")
        for p in table:
            if p not in params and ctx is not None:
                ctx.tag("dims:stale-entry:" + qual + ":" + p)
    # every "op:<kind>" the tables refer to must be an operation kind of the generator
    kinds = set(op_kinds)
    if kinds:
        for name, table in list(OPERATIONS.items()) + list(FUNCTIONS.items()):
            for member, dec in table.items():
                if dec.startswith("op:"):
                    k = dec[3:].split()[0].split("/")[0].rstrip(",;")
                    if k not in kinds:
                        problems.append(f"{name}.{member}: the table names operation kind `{k}`, which the generator does not have")
    if problems:
        raise InfraError("C18 dimension tables are out of date:\n  " + "\n  ".join(problems[:40]))
    n_ops = sum(len(t) for t in OPERATIONS.values()) + sum(len(t) for t in FUNCTIONS.values())
    n_par = sum(len(t) for t in CONSTRUCTORS.values())
    if ctx is not None:
        ctx.tag("dims:checked")
    return n_ops, n_par
