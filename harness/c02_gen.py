"""C02 — generator of scenarios x planning-problem sets as JSON *specs* and their construction through the PUBLIC
constructors of commonroad-io (`build`).  A spec is plain JSON (replayable, shrinkable); `null` for an optional
constructor argument means "leave the argument at its default" (constructor-default objects are generated on purpose).

Domain (property text C02 / C01 quantifier): 2-D scenarios, ids >= 1 and < 2^32, time steps < 2^31, traffic signs and lights
with explicit positions and a non-empty cycle, enumeration members present both in the Python enum and in the .proto enum,
state attributes the protobuf `State` message has a field for, geo references that are strings.
"""
from __future__ import annotations

import math

# ------------------------------------------------------------------------------------------------ tables (from the code under test)

_T = {}


def tables():
    """Enum member tables: members present in BOTH the Python enum and the shipped .proto enum (by NAME)."""
    if _T:
        return _T
    from commonroad.common.common_lanelet import LaneletType, LineMarking, RoadUser
    from commonroad.scenario.obstacle import ObstacleType
    from commonroad.scenario.scenario import Tag, TimeOfDay, Underground, Weather
    from commonroad.scenario.traffic_light import TrafficLightDirection, TrafficLightState
    import commonroad.scenario.traffic_sign as ts
    from commonroad.scenario_definition.protobuf_format.generated_scripts import (lanelet_pb2, location_pb2, obstacle_pb2,
                                                                                    scenario_tags_pb2, traffic_light_pb2,
                                                                                    traffic_sign_pb2)

    def both(py, pb):
        pbn = set(pb.keys())
        return [m for m in py.__members__ if m in pbn and py[m].name == m]

    _T["py"] = {}
    _T["pb"] = {}

    def reg(name, py, pb):
        _T[name] = both(py, pb)
        _T["py"][name] = list(py.__members__)
        _T["pb"][name] = list(pb.keys())

    reg("LineMarking", LineMarking, lanelet_pb2.LineMarkingEnum.LineMarking)
    reg("LaneletType", LaneletType, lanelet_pb2.LaneletTypeEnum.LaneletType)
    reg("RoadUser", RoadUser, lanelet_pb2.RoadUserEnum.RoadUser)
    reg("ObstacleType", ObstacleType, obstacle_pb2.ObstacleTypeEnum.ObstacleType)
    reg("Tag", Tag, scenario_tags_pb2.TagEnum.Tag)
    reg("TimeOfDay", TimeOfDay, location_pb2.TimeOfDayEnum.TimeOfDay)
    reg("Weather", Weather, location_pb2.WeatherEnum.Weather)
    reg("Underground", Underground, location_pb2.UndergroundEnum.Underground)
    reg("TrafficLightState", TrafficLightState, traffic_light_pb2.TrafficLightStateEnum.TrafficLightState)
    reg("TrafficLightDirection", TrafficLightDirection, traffic_light_pb2.TrafficLightDirectionEnum.TrafficLightDirection)
    signs = {}
    for country in ["Germany", "Zamunda", "Usa", "China", "Spain", "Russia", "Argentina", "Belgium", "France", "Greece",
                    "Croatia", "Italy", "PuertoRico"]:
        cname = "TrafficSignID" + country
        py = getattr(ts, cname)
        # TrafficSignIDZamunda is an alias of TrafficSignIDGermany: its members are written as germany_element_id
        pb = getattr(getattr(traffic_sign_pb2, py.__name__ + "Enum"), py.__name__)
        reg(cname, py, pb)
        _T["pb"][cname] = list(getattr(getattr(traffic_sign_pb2, cname + "Enum"), cname).keys())
        signs[cname] = _T[cname]
    _T["signs"] = signs
    # float-valued attributes the protobuf State message has a field for, in descriptor order
    _T["state_fields"] = [f.name for f in obstacle_pb2.State.DESCRIPTOR.fields
                          if f.name not in ("point", "shape", "time_step")]
    return _T


STATE_CLASSES = ["InitialState", "PMState", "KSState", "STState", "STDState", "MBState", "InputState", "PMInputState",
                 "ExtendedPMState"]


def class_attrs(cls_name):
    """Float-valued dataclass attributes of a state class (without time_step / position), whether it has a position."""
    import commonroad.scenario.state as st
    import dataclasses
    cls = getattr(st, cls_name)
    names = [f.name for f in dataclasses.fields(cls)]
    return [n for n in names if n not in ("time_step", "position")], "position" in names


# ------------------------------------------------------------------------------------------------ value generators

TWO_PI = 2 * math.pi


def g_real(r, geo=False):
    """A double (sometimes given as Python int). `geo`: moderate magnitude (goes through shapely / numpy geometry)."""
    k = r.random()
    if k < 0.30:
        return r.randint(-4096, 4096) / 16.0
    if k < 0.60:
        return r.uniform(-300.0, 300.0)
    if k < 0.68:
        return r.randint(-50, 50)                     # a Python int where a float is expected
    if k < 0.74:
        return r.choice([0.0, -0.0, 1.0, -1.0])
    if k < 0.80:
        return r.choice([0.1, 0.2, 0.3, 1 / 3, math.pi, math.e, 1e-5, 1e-6, 123456.789, 0.1 + 0.2])
    if geo:
        return r.uniform(-1e4, 1e4)
    if k < 0.88:
        return r.choice([5e-324, 2.2250738585072014e-308, 1e-300, 1e-17, 4.9e-310]) * r.choice([1, -1])
    if k < 0.95:
        return r.choice([1e15, 2.0 ** 53 + 2, 1.7976931348623157e308, 9007199254740993.0, 1e22]) * r.choice([1, -1])
    return r.uniform(-1.0, 1.0) * 10.0 ** r.randint(-12, 12)


def g_pos_real(r):
    v = abs(g_real(r, geo=True))
    return v if v > 0 else 1.5


def g_point(r):
    return [g_real(r, geo=True), g_real(r, geo=True)]


def g_interval(r):
    a, b = g_real(r), g_real(r)
    a, b = float(a), float(b)
    if a > b:
        a, b = b, a
    return [a, b]


def g_angle(r):
    k = r.random()
    if k < 0.5:
        return r.uniform(-math.pi, math.pi)
    if k < 0.7:
        return r.randint(-50, 50) / 16.0
    return r.choice([0.0, -0.0, math.pi, -math.pi, 1e-6, math.pi / 2, 3, -3, 0.05, TWO_PI, -TWO_PI, 6.25, -4.5])


def g_state_angle(r, p=0.2):
    """An EXACT angle-valued state attribute: states accept any float, so besides the normalised range also unwrapped yaw
    angles beyond +-2 pi (accumulated heading), the range ends themselves and their float neighbours."""
    if r.random() >= p:
        return g_angle(r)
    k = 0.8 + 0.2 * r.random()
    if k < 0.90:
        return r.choice([6.5, 7.0, 9.25, 13.0, -(TWO_PI + 0.5), -7.75, 100.0, -1000.25, 3 * math.pi, -5 * math.pi, 2 ** 20 + 0.125])
    if k < 0.95:
        return r.choice([1, -1]) * (TWO_PI + r.uniform(0.0, 40.0))
    return r.choice([TWO_PI, -TWO_PI, math.nextafter(TWO_PI, 10.0), math.nextafter(-TWO_PI, -10.0), math.nextafter(TWO_PI, 0.0)])


def g_angle_interval(r):
    a = r.uniform(-TWO_PI, TWO_PI - 0.5)
    w = r.choice([0.0, 0.25, 1.0, 3.5, r.uniform(0, 6.0)])
    b = min(a + w, TWO_PI)
    if b < a:
        b = a
    return [a, b]


def g_time(r, big=False):
    if big and r.random() < 0.1:
        return r.choice([2 ** 31 - 1, 10 ** 6, 2 ** 20])
    return r.randint(0, 60)


def g_time_eoi(r):
    if r.random() < 0.5:
        return g_time(r, big=True)
    a = g_time(r)
    return [a, a + r.randint(0, 40)]


def g_shape(r, depth=0, allow_group=True, basic_only=False):
    k = r.random()
    if basic_only:
        k = k * 0.84
    if k < 0.38:
        s = {"k": "rect", "l": g_pos_real(r), "w": g_pos_real(r), "c": None, "o": None}
        if r.random() < 0.6:
            s["c"] = g_point(r)
        if r.random() < 0.6:
            s["o"] = g_angle(r)
        return s
    if k < 0.62:
        s = {"k": "circ", "r": g_pos_real(r), "c": None}
        if r.random() < 0.6:
            s["c"] = g_point(r)
        return s
    if k < 0.84 or depth >= 2 or not allow_group:
        n = r.randint(3, 7)
        cx, cy = r.uniform(-200, 200), r.uniform(-200, 200)
        rad = r.uniform(0.5, 30)
        angs = sorted(r.uniform(0, TWO_PI) for _ in range(n))
        # strictly convex (points on a circle), counter-clockwise or clockwise, sometimes explicitly closed
        pts = [[cx + rad * math.cos(a), cy + rad * math.sin(a)] for a in angs]
        if r.random() < 0.5:
            pts.reverse()
        if r.random() < 0.3:
            pts.append(list(pts[0]))
        if r.random() < 0.3:
            pts = [[round(x * 4) / 4.0, round(y * 4) / 4.0] for x, y in pts]
            if len({(x, y) for x, y in pts}) < 3:
                pts = [[cx, cy], [cx + 4.0, cy], [cx, cy + 3.0]]
        return {"k": "poly", "v": pts}
    return {"k": "group", "s": [g_shape(r, depth + 1) for _ in range(r.choice([0, 1, 2, 2, 3]))]}


def g_feoi(r, attr):
    """float exact or interval"""
    if attr == "orientation":
        return g_state_angle(r) if r.random() < 0.7 else g_angle_interval(r)
    return g_real(r) if r.random() < 0.7 else g_interval(r)


def g_signal(r, with_time=True):
    s = {}
    if with_time:
        s["time_step"] = g_time_eoi(r) if r.random() < 0.15 else g_time(r)
    for a in ["horn", "indicator_left", "indicator_right", "braking_lights", "hazard_warning_lights",
              "flashing_blue_lights"]:
        if r.random() < 0.5:
            s[a] = r.random() < 0.5
    return s


def g_init_state(r, full=False, t=None, region_ok=True):
    """InitialState spec: every optional attribute independently present/absent (obstacles); `full` for planning problems
    (position, velocity, orientation, yaw_rate, slip_angle mandatory; acceleration optional)."""
    st = {"cls": "InitialState", "t": g_time(r) if t is None else t, "pos": None, "a": {}}
    if full:
        st["pos"] = g_point(r)
        for a in ["orientation", "velocity", "yaw_rate", "slip_angle"]:
            st["a"][a] = g_state_angle(r) if a == "orientation" else g_real(r)
        if r.random() < 0.4:
            st["a"]["acceleration"] = g_real(r)
        if r.random() < 0.15:
            st["a"]["orientation"] = g_angle_interval(r)
        if r.random() < 0.15:
            st["a"]["velocity"] = g_interval(r)
        return st
    st["pos"] = g_point(r) if (r.random() < 0.8 or not region_ok) else g_shape(r, basic_only=True)
    # obstacle initial states go through the occupancy geometry, which refuses some unwrapped angles: fewer of them here
    st["a"]["orientation"] = g_state_angle(r, 0.07) if r.random() < 0.7 else g_angle_interval(r)
    for a in ["velocity", "acceleration", "yaw_rate", "slip_angle"]:
        if r.random() < 0.6:
            st["a"][a] = g_feoi(r, a)
    return st


def g_traj_states(r, t0, n):
    """n states sharing one attribute set, consecutive time steps from t0."""
    T = tables()
    k = r.random()
    if k < 0.55:
        cls = r.choice(STATE_CLASSES)
        attrs, has_pos = class_attrs(cls)
        if r.random() < 0.2 and len(attrs) > 1:       # partially filled class -> reads back as a custom state
            attrs = [a for a in attrs if r.random() < 0.7] or attrs[:1]
    else:
        cls = "CustomState"
        fields = T["state_fields"]
        attrs = [a for a in fields if r.random() < r.choice([0.05, 0.15, 0.5])]
        if r.random() < 0.5 and "orientation" not in attrs:
            attrs.append("orientation")
        has_pos = r.random() < 0.85                   # a state without position (e.g. an input trajectory)
        if not has_pos and r.random() < 0.6:          # ... whose attributes are those of a class that HAS a position
            attrs = r.choice([["velocity", "velocity_y", "orientation"], ["steering_angle", "velocity", "orientation", "acceleration"],
                              ["velocity", "orientation", "acceleration", "jerk"]])
        attrs = [a for a in fields if a in attrs]
    attrs = [a for a in attrs if a in T["state_fields"]]
    interval_attrs = {a for a in attrs if r.random() < 0.15}
    region = r.random() < 0.2
    out = []
    for i in range(n):
        st = {"cls": cls, "t": t0 + i, "pos": None, "a": {}}
        if has_pos:
            st["pos"] = g_shape(r, basic_only=True) if region else g_point(r)
        for a in attrs:
            if a in interval_attrs:
                st["a"][a] = g_angle_interval(r) if a == "orientation" else g_interval(r)
            else:
                st["a"][a] = g_state_angle(r) if a == "orientation" else g_real(r)
        out.append(st)
    return out


def g_occupancies(r, t0):
    n = r.choice([0, 1, 2, 3, 5])
    occ = []
    for i in range(n):
        t = t0 + i if r.random() < 0.7 else [t0 + i, t0 + i + r.randint(0, 5)]
        occ.append({"t": t, "shape": g_shape(r)})
    return occ


def g_goal_state(r):
    st = {"cls": r.choice(["CustomState", "KSState", "InitialState", "PMState"]), "t": None, "pos": None, "a": {}}
    a = g_time(r)
    st["t"] = [a, a + r.randint(0, 30)]          # GoalRegion demands an Interval
    allowed, has_pos = class_attrs(st["cls"]) if st["cls"] != "CustomState" else (["velocity", "orientation"], True)
    if r.random() < 0.7:
        st["pos"] = g_shape(r)
    if "velocity" in allowed and r.random() < 0.5:
        st["a"]["velocity"] = g_interval(r)
    if "orientation" in allowed and r.random() < 0.5:
        st["a"]["orientation"] = g_angle_interval(r)
    return st


class Ids:
    def __init__(self, r):
        self.r = r
        self.next = r.choice([1, 1, 1, 2, 10, 1000])
        self.big = False

    def new(self):
        v = self.next
        self.next += self.r.choice([1, 1, 1, 2, 5, 100])
        if not self.big and self.r.random() < 0.02:
            self.big = True
            return self.r.choice([2 ** 31, 2 ** 32 - 1, 2 ** 31 - 1]) - self.r.randint(0, 3)
        return v


def opt(r, p, f):
    return f() if r.random() < p else None


def subset(r, items, p=0.3, maxn=None):
    out = [x for x in items if r.random() < p]
    if maxn is not None:
        out = out[:maxn]
    return out


def gen_spec(r, size="normal"):
    """One scenario x planning-problem-set spec."""
    T = tables()
    ids = Ids(r)
    small = size == "small"
    sp = {"dt": r.choice([0.1, 0.04, 0.2, 1.0, 0.1 + 0.2, r.uniform(0.01, 2.0), 1])}
    # ---- header
    if r.random() < 0.35:
        sp["sid"] = None                                        # ScenarioID() default
    else:
        sid = {"cooperative": r.random() < 0.2, "country_id": r.choice(["DEU", "USA", "ZAM", "CHN", "ESP"]),
               "map_name": r.choice(["Test", "Muc", "US101", "A9", "Lanker"]), "map_id": r.randint(1, 40),
               "configuration_id": None, "obstacle_behavior": None, "prediction_id": None}
        if r.random() < 0.7:
            sid["configuration_id"] = r.randint(1, 30)
            if r.random() < 0.7:
                sid["obstacle_behavior"] = r.choice(["T", "S", "P", "I"])
                sid["prediction_id"] = r.choice([1, 2, 7, [1, 2], [3, 1, 4]])
        if r.random() < 0.25:
            sid["scenario_version"] = r.choice(["2018b", "2020a"])
        sp["sid"] = sid
    sp["via"] = r.choice(["scenario", "scenario", "writer", "mixed"])
    sp["author"] = r.choice(["A. Author", "", "Jürgen Müller, 李雷", "x" * 40])
    sp["affiliation"] = r.choice(["TUM", "", "Technical University of Munich, Germany"])
    sp["source"] = r.choice(["handcrafted", "", "OSM; SUMO"])
    sp["tags"] = sorted(subset(r, T["Tag"], r.choice([0.0, 0.1, 0.4])))
    if r.random() < 0.4:
        sp["location"] = None
    else:
        # every optional member of every optional group is given / left out INDEPENDENTLY of its siblings (a partially
        # populated group — a date without a year, a latitude without a longitude, a translation without a scaling — is as
        # much content as a complete one): GROUPS below lists the groups, tag_groups() counts which subsets were hit
        loc = {"geo_name_id": None, "lat": None, "lon": None, "geo": None, "env": None}
        p_ = r.choice([0.0, 0.5, 0.5, 1.0])
        if r.random() < p_:
            loc["geo_name_id"] = r.choice([2867714, 1, -999, 2 ** 31 - 1, -2 ** 31])
        if r.random() < p_:
            loc["lat"] = r.choice([48.262333, 999, r.uniform(-90, 90)])
        if r.random() < p_:
            loc["lon"] = r.choice([11.668775, 999, r.uniform(-180, 180)])
        if r.random() < 0.5:
            geo = {"ref": r.choice(["+proj=utm +zone=32 +ellps=WGS84", "", "EPSG:4326"]), "x": None, "y": None, "rot": None,
                   "scaling": None}
            p_ = r.choice([0.0, 0.5, 0.5, 1.0])
            for k_, f_ in (("x", lambda: g_real(r)), ("y", lambda: g_real(r)), ("rot", lambda: g_state_angle(r)),
                           ("scaling", lambda: r.choice([1, 1.0, 0.5, g_pos_real(r)]))):
                if r.random() < p_:
                    geo[k_] = f_()
            loc["geo"] = geo
        if r.random() < 0.6:
            env = {"time": None, "time_of_day": None, "weather": None, "underground": None}
            if r.random() < 0.6:
                env["time"] = {"h": r.randint(0, 23), "m": r.randint(0, 59), "day": None, "month": None, "year": None}
                for k_, f_ in (("day", lambda: r.choice([1, 31, r.randint(1, 28)])), ("month", lambda: r.choice([1, 12, r.randint(1, 12)])),
                               ("year", lambda: r.choice([1, 2022, 1970, r.randint(1990, 2040)]))):
                    if r.random() < 0.5:                    # all 8 subsets of {day, month, year}, equally likely
                        env["time"][k_] = f_()
            if r.random() < 0.6:
                env["time_of_day"] = r.choice(T["TimeOfDay"])
            if r.random() < 0.6:
                env["weather"] = r.choice(T["Weather"])
            if r.random() < 0.6:
                env["underground"] = r.choice(T["Underground"])
            loc["env"] = env
        sp["location"] = loc

    # ---- lanelet network
    n_l = r.choice([0, 1, 2, 3, 4]) if not small else r.choice([0, 1, 2])
    lids = [ids.new() for _ in range(n_l)]
    n_s = r.choice([0, 1, 2, 3]) if lids or r.random() < 0.3 else 0
    n_t = r.choice([0, 1, 2]) if lids or r.random() < 0.3 else 0
    sids = [ids.new() for _ in range(n_s)]
    tids = [ids.new() for _ in range(n_t)]
    lanelets = []
    for i, lid in enumerate(lids):
        n = r.choice([2, 2, 3, 5, 9])
        x0, y0 = r.uniform(-100, 100), r.uniform(-100, 100)
        step = r.choice([1.0, 2.5, 10.0, r.uniform(0.5, 20)])
        w = r.choice([3.0, 3.5, r.uniform(1, 6)])
        kind = r.random()
        left, right, center = [], [], []
        for j in range(n):
            x = x0 + j * step
            yl, yr = y0 + w / 2 + (0.1 * j if kind < 0.3 else 0.0), y0 - w / 2
            if kind > 0.8:
                x, yl, yr = g_real(r, True), g_real(r, True), g_real(r, True)
            left.append([x, yl])
            right.append([x, yr])
            center.append([x, (yl + yr) / 2])
        if r.random() < 0.2:                                     # a centre line that is NOT the mean of the bounds
            center = [[x, y + 0.25] for x, y in center]
        others = [x for x in lids if x != lid]
        ll = {"id": lid, "left": left, "center": center, "right": right,
              "pred": opt(r, 0.5, lambda: subset(r, others, 0.5)), "succ": opt(r, 0.5, lambda: subset(r, others, 0.5)),
              "adj_left": None, "adj_left_same": None, "adj_right": None, "adj_right_same": None,
              "lm_left": opt(r, 0.5, lambda: r.choice(T["LineMarking"])),
              "lm_right": opt(r, 0.5, lambda: r.choice(T["LineMarking"])),
              "stop": None,
              "types": opt(r, 0.6, lambda: sorted(subset(r, T["LaneletType"], r.choice([0.0, 0.1, 0.3])))),
              "one_way": opt(r, 0.5, lambda: sorted(subset(r, T["RoadUser"], 0.3))),
              "bidir": opt(r, 0.4, lambda: sorted(subset(r, T["RoadUser"], 0.3))),
              "signs": opt(r, 0.6, lambda: sorted(subset(r, sids, 0.6))),
              "lights": opt(r, 0.6, lambda: sorted(subset(r, tids, 0.6)))}
        if r.random() < 0.15:                                    # Lanelet(left, center, right, id): every default
            for k_ in ("pred", "succ", "lm_left", "lm_right", "types", "one_way", "bidir", "signs", "lights"):
                ll[k_] = None
            lanelets.append(ll)
            continue
        if others and r.random() < 0.5:
            ll["adj_left"] = r.choice(others)
            ll["adj_left_same"] = r.random() < 0.5
        if others and r.random() < 0.5:
            ll["adj_right"] = r.choice(others)
            ll["adj_right_same"] = r.random() < 0.5
        if r.random() < 0.4:
            ll["stop"] = {"start": g_point(r), "end": g_point(r), "lm": r.choice(T["LineMarking"]),
                          "signs": opt(r, 0.5, lambda: sorted(subset(r, sids, 0.6))),
                          "lights": opt(r, 0.5, lambda: sorted(subset(r, tids, 0.6)))}
        lanelets.append(ll)
    sp["lanelets"] = lanelets
    signs = []
    for sid_ in sids:
        els = []
        for _ in range(r.choice([1, 1, 2, 3])):
            country = r.choice(list(T["signs"])) if r.random() < 0.5 else r.choice(["TrafficSignIDGermany", "TrafficSignIDZamunda",
                                                                                    "TrafficSignIDUsa"])
            els.append({"country": country, "name": r.choice(T["signs"][country]),
                        "values": opt(r, 0.6, lambda: [r.choice(["50", "13.89", "", "München", "3.5 t", "120"])
                                                       for _ in range(r.choice([0, 1, 1, 2]))])})
        signs.append({"id": sid_, "elements": els, "first": sorted(subset(r, lids, r.choice([0.0, 0.5, 1.0]))),
                      "pos": g_point(r), "virtual": opt(r, 0.6, lambda: r.random() < 0.5)})
    sp["signs"] = signs
    lights = []
    for tid in tids:
        cyc = [[r.choice(T["TrafficLightState"]), r.choice([1, 1, 5, 30, r.randint(1, 300)])] for _ in range(r.choice([1, 2, 3, 4]))]
        lights.append({"id": tid, "pos": g_point(r), "cycle": cyc,
                       "offset": opt(r, 0.6, lambda: r.choice([0, 0, 1, 7, r.randint(0, 500)])),
                       "active": opt(r, 0.6, lambda: r.random() < 0.5),
                       "direction": opt(r, 0.6, lambda: r.choice(T["TrafficLightDirection"]))})
    sp["lights"] = lights
    inters = []
    if lids:
        for _ in range(r.choice([0, 0, 1, 2])):
            iid = ids.new()
            incs = []
            inc_ids = [ids.new() for _ in range(r.choice([1, 2, 3]))]
            for inc_id in inc_ids:
                oth = [x for x in inc_ids if x != inc_id]
                incs.append({"id": inc_id, "lanelets": sorted(subset(r, lids, 0.5)),     # None is not a usable incoming
                             "right": opt(r, 0.6, lambda: sorted(subset(r, lids, 0.4))),
                             "straight": opt(r, 0.6, lambda: sorted(subset(r, lids, 0.4))),
                             "left": opt(r, 0.6, lambda: sorted(subset(r, lids, 0.4))),
                             "left_of": (r.choice(oth) if oth and r.random() < 0.5 else None)})
            inters.append({"id": iid, "incomings": incs, "crossings": opt(r, 0.5, lambda: sorted(subset(r, lids, 0.4)))})
    sp["intersections"] = inters

    # ---- obstacles
    def obstacle_shape():
        k = r.random()
        if k < 0.55:
            s = {"k": "rect", "l": g_pos_real(r), "w": g_pos_real(r), "c": None, "o": None}   # Rectangle(l, w): defaults
            p_ = r.choice([0.0, 0.0, 0.5, 1.0])                                               # centre / orientation one by one
            if r.random() < p_:
                s["c"] = g_point(r)
            if r.random() < p_:
                s["o"] = g_angle(r)
            return s
        return g_shape(r, basic_only=True)

    def signals():
        sig0 = opt(r, 0.5, lambda: g_signal(r))
        series = opt(r, 0.6, lambda: [g_signal(r) for _ in range(r.choice([0, 1, 2, 4]))])
        if series and r.random() < 0.08:
            series[r.randrange(len(series))] = {}       # SignalState(): an object without any slot
        if sig0 is not None and r.random() < 0.04:
            sig0 = {}
        return sig0, series

    static = []
    for _ in range(r.choice([0, 1, 1, 2]) if not small else r.choice([0, 1])):
        sig0, series = signals()
        static.append({"id": ids.new(), "type": r.choice(T["ObstacleType"]), "shape": obstacle_shape(),
                       "init": g_init_state(r), "sig0": sig0, "series": series})
    sp["static"] = static
    dynamic = []
    for _ in range(r.choice([0, 1, 2, 3]) if not small else r.choice([0, 1])):
        sig0, series = signals()
        init = g_init_state(r)
        t0 = init["t"] + 1
        k = r.random()
        if k < 0.55:
            n = r.choice([1, 2, 3, 6])
            shp = obstacle_shape()
            pred = {"kind": "traj", "t0": t0, "states": g_traj_states(r, t0, n), "shape": shp}
        elif k < 0.85:
            pred = {"kind": "set", "t0": t0, "occ": g_occupancies(r, t0)}
        else:
            pred = None
        dynamic.append({"id": ids.new(), "type": r.choice(T["ObstacleType"]), "shape": obstacle_shape(), "init": init,
                        "pred": pred, "sig0": sig0, "series": series})
    sp["dynamic"] = dynamic
    sp["env"] = [{"id": ids.new(), "type": r.choice(T["ObstacleType"]), "shape": g_shape(r)}
                 for _ in range(r.choice([0, 0, 1, 2]))]
    ph = []
    for _ in range(r.choice([0, 0, 1, 2])):
        t0 = g_time(r)
        ph.append({"id": ids.new(), "pred": opt(r, 0.7, lambda: {"kind": "set", "t0": t0, "occ": g_occupancies(r, t0)})})
    sp["phantom"] = ph

    # ---- planning problems
    pps = []
    for _ in range(r.choice([0, 1, 1, 2, 3]) if not small else r.choice([0, 1])):
        goals = [g_goal_state(r) for _ in range(r.choice([1, 1, 2, 3]))]
        gl = None
        if lids and r.random() < 0.6:
            gl = {}
            for gi in range(len(goals)):
                if r.random() < 0.6:
                    gl[str(gi)] = subset(r, lids, 0.6)
        pps.append({"id": ids.new(), "init": g_init_state(r, full=True), "goals": goals, "goal_lanelets": gl})
    sp["pps"] = pps
    return sp


# ------------------------------------------------------------------------------------------------ construction (public constructors)

def _arr(p):
    import numpy as np
    return np.array(p)


def b_shape(s):
    import numpy as np
    from commonroad.geometry.shape import Circle, Polygon, Rectangle, ShapeGroup
    k = s["k"]
    if k == "rect":
        kw = {}
        if s.get("c") is not None:
            kw["center"] = _arr(s["c"])
        if s.get("o") is not None:
            kw["orientation"] = s["o"]
        return Rectangle(s["l"], s["w"], **kw)
    if k == "circ":
        return Circle(s["r"], _arr(s["c"])) if s.get("c") is not None else Circle(s["r"])
    if k == "poly":
        return Polygon(np.array(s["v"], dtype=float))
    return ShapeGroup([b_shape(x) for x in s["s"]])


def b_int_eoi(t):
    from commonroad.common.util import Interval
    return Interval(t[0], t[1]) if isinstance(t, list) else t


def b_feoi(v, attr):
    from commonroad.common.util import AngleInterval, Interval
    if isinstance(v, list):
        return AngleInterval(v[0], v[1]) if attr == "orientation" else Interval(v[0], v[1])
    return v


def b_state(st):
    import commonroad.scenario.state as S
    kw = {"time_step": b_int_eoi(st["t"])}
    if st.get("pos") is not None:
        kw["position"] = _arr(st["pos"]) if isinstance(st["pos"], list) else b_shape(st["pos"])
    for a, v in st["a"].items():
        kw[a] = b_feoi(v, a)
    return getattr(S, st["cls"])(**kw)


def b_signal(s):
    from commonroad.scenario.state import SignalState
    kw = dict(s)
    if "time_step" in kw:
        kw["time_step"] = b_int_eoi(kw["time_step"])
    return SignalState(**kw)


def b_set_pred(p):
    from commonroad.prediction.prediction import Occupancy, SetBasedPrediction
    return SetBasedPrediction(p["t0"], [Occupancy(b_int_eoi(o["t"]), b_shape(o["shape"])) for o in p["occ"]])


# optional groups whose members are given / left at the constructor default one by one (spec key -> constructor argument)
LOC_ARGS = (("geo_name_id", "geo_name_id"), ("lat", "gps_latitude"), ("lon", "gps_longitude"))
GEO_ARGS = (("x", "x_translation"), ("y", "y_translation"), ("rot", "z_rotation"), ("scaling", "scaling"))
DATE_ARGS = ("day", "month", "year")


def b_location(loc):
    from commonroad.common.util import Time
    from commonroad.scenario.scenario import (Environment, GeoTransformation, Location, TimeOfDay, Underground, Weather)
    if loc is None:
        return None
    kw = {}
    kw.update({a_: loc[k_] for k_, a_ in LOC_ARGS if loc.get(k_) is not None})
    if loc.get("geo") is not None:
        g = loc["geo"]
        gk = {"geo_reference": g["ref"]}
        gk.update({a_: g[k_] for k_, a_ in GEO_ARGS if g.get(k_) is not None})
        kw["geo_transformation"] = GeoTransformation(**gk)
    if loc.get("env") is not None:
        e = loc["env"]
        ek = {}
        if e.get("time") is not None:
            t = e["time"]
            ek["time"] = Time(t["h"], t["m"], **{k_: t[k_] for k_ in DATE_ARGS if t.get(k_) is not None})
        if e.get("time_of_day") is not None:
            ek["time_of_day"] = TimeOfDay[e["time_of_day"]]
        if e.get("weather") is not None:
            ek["weather"] = Weather[e["weather"]]
        if e.get("underground") is not None:
            ek["underground"] = Underground[e["underground"]]
        kw["environment"] = Environment(**ek)
    return Location(**kw)


# ---- construction variants (spec["variant"]): HOW the same content is put together --------------------------------------------

VARIANT_KEYS = {
    "np": "reals as numpy.float64, lanelet ids as numpy.int64 (time steps stay `int`: Trajectory / the writer test isinstance(.., int))",
    "setters": "objects built with the mandatory constructor arguments only, every optional attribute assigned afterwards through "
               "its property setter and then re-assigned to itself (same object handed back)",
    "inplace": "lists completed IN PLACE after construction (append / add_predecessor / add_traffic_sign_to_lanelet / "
               "append_state / add_planning_problem ...)",
    "reid": "ids re-assigned (to the same value and to a fresh one) after the containers were assembled",
    "entry": "each | list | network | network-list: add_objects per object / add_objects([list]) / LaneletNetwork assembled "
             "first and handed over (add_objects(network) / create_from_lanelet_list + replace_lanelet_network)",
    "sign_refs": "ctor | add: lanelet -> sign/light references given to the Lanelet constructor or by add_traffic_sign/light(.., ids)",
    "pps": "ctor | add: PlanningProblemSet(list) or add_planning_problem one by one",
    "update_ops": "dynamic obstacles brought to their final content by update_initial_state / update_prediction",
    "extras": "constructor arguments the format has NO field for are given non-default values (lanelet assignments, history, "
              "external_dataset_id, light colour list / shape, cycle.active, adjacent_areas): they must not disturb the rest",
    "shuffle": "predecessor / successor / occupancy / signal-series / goal-lanelet lists in shuffled, non-monotone order",
}


def gen_variant(r):
    v = {}
    if r.random() < 0.25:
        v["np"] = True
    if r.random() < 0.3:
        v["setters"] = True
    if r.random() < 0.3:
        v["inplace"] = True
    if r.random() < 0.15:
        v["reid"] = r.randint(1, 10 ** 6)
    v["entry"] = r.choice(["each", "each", "list", "network", "network-list"])
    v["sign_refs"] = r.choice(["ctor", "add"])
    v["pps"] = r.choice(["ctor", "add"])
    if r.random() < 0.2:
        v["update_ops"] = True
    if r.random() < 0.3:
        v["extras"] = True
    if r.random() < 0.3:
        v["shuffle"] = r.randint(1, 10 ** 6)
    return v


def build(sp):
    """spec -> (scenario, planning_problem_set, writer_kwargs).  Everything goes through public constructors / setters / public
    operations; a `null` in the spec leaves the constructor argument at its default.  spec["variant"] chooses the route."""
    import random
    import numpy as np
    import commonroad.scenario.traffic_sign as ts
    from commonroad.common.common_lanelet import LaneletType, LineMarking, RoadUser, StopLine
    from commonroad.common.util import AngleInterval, Interval, Time
    from commonroad.geometry.shape import Circle, Polygon, Rectangle, ShapeGroup
    from commonroad.planning.goal import GoalRegion
    from commonroad.planning.planning_problem import PlanningProblem, PlanningProblemSet
    from commonroad.prediction.prediction import Occupancy, SetBasedPrediction, TrajectoryPrediction
    from commonroad.scenario.intersection import Intersection, IntersectionIncomingElement
    from commonroad.scenario.lanelet import Lanelet, LaneletNetwork
    from commonroad.scenario.obstacle import (DynamicObstacle, EnvironmentObstacle, ObstacleType, PhantomObstacle,
                                              StaticObstacle)
    from commonroad.scenario.scenario import (Environment, GeoTransformation, Location, Scenario, ScenarioID, Tag, TimeOfDay,
                                              Underground, Weather)
    from commonroad.scenario.state import SignalState
    import commonroad.scenario.state as ST
    from commonroad.scenario.traffic_light import (TrafficLight, TrafficLightCycle, TrafficLightCycleElement,
                                                   TrafficLightDirection, TrafficLightState)
    from commonroad.scenario.trajectory import Trajectory

    V = sp.get("variant") or {}
    use_np, setters, inplace, extras = bool(V.get("np")), bool(V.get("setters")), bool(V.get("inplace")), bool(V.get("extras"))
    sh_rng = random.Random(V["shuffle"]) if V.get("shuffle") else None

    def again(o, *attrs):
        """hand every attribute back to its own setter (the SAME object)"""
        if setters:
            for a_ in attrs:
                setattr(o, a_, getattr(o, a_))
        return o

    def R(v):                                     # a real
        if use_np and isinstance(v, float):
            return np.float64(v)
        return v

    def I(v):                                     # an integer where numpy integers are accepted
        return np.int64(v) if use_np else v

    def arr(p):
        return np.array([R(p[0]), R(p[1])])

    def shuffled(l):
        l = list(l)
        if sh_rng is not None:
            sh_rng.shuffle(l)
        return l

    def shape(s):
        k = s["k"]
        if k == "rect":
            if setters:
                o = Rectangle(R(s["l"]), R(s["w"]))
                if s.get("c") is not None:
                    o.center = arr(s["c"])
                if s.get("o") is not None:
                    o.orientation = R(s["o"])
                o.length, o.width = R(s["l"]), R(s["w"])
                return again(o, "center", "orientation", "length", "width")
            kw = {}
            if s.get("c") is not None:
                kw["center"] = arr(s["c"])
            if s.get("o") is not None:
                kw["orientation"] = R(s["o"])
            return Rectangle(R(s["l"]), R(s["w"]), **kw)
        if k == "circ":
            if setters:
                o = Circle(R(s["r"]))
                if s.get("c") is not None:
                    o.center = arr(s["c"])
                return again(o, "center", "radius")
            return Circle(R(s["r"]), arr(s["c"])) if s.get("c") is not None else Circle(R(s["r"]))
        if k == "poly":
            return Polygon(np.array(s["v"], dtype=float))
        subs = [shape(x) for x in s["s"]]
        if inplace and subs:
            g = ShapeGroup(subs[:-1])
            g.shapes.append(subs[-1])
            return g
        return ShapeGroup(subs)

    def int_eoi(t):
        return Interval(t[0], t[1]) if isinstance(t, list) else t   # numpy integers are not `int`: Trajectory asserts against them

    def feoi(v, attr):
        if isinstance(v, list):
            return AngleInterval(R(v[0]), R(v[1])) if attr == "orientation" else Interval(R(v[0]), R(v[1]))
        return R(v)

    def state(st):
        kw = {"time_step": int_eoi(st["t"])}
        if st.get("pos") is not None:
            kw["position"] = arr(st["pos"]) if isinstance(st["pos"], list) else shape(st["pos"])
        for a_, v in st["a"].items():
            kw[a_] = feoi(v, a_)
        cls = getattr(ST, st["cls"])
        if setters and st["cls"] != "CustomState":
            o = cls(time_step=kw["time_step"])          # dataclass: plain attribute assignment afterwards
            for a_, v in kw.items():
                setattr(o, a_, v)
            return o
        if setters:
            o = cls(time_step=kw["time_step"])
            for a_, v in kw.items():
                if a_ != "time_step":
                    o.add_attribute(a_)
                    o.set_value(a_, v)
            return o
        return cls(**kw)

    def signal(s_):
        kw = dict(s_)
        if "time_step" in kw:
            kw["time_step"] = int_eoi(kw["time_step"])
        if setters:
            o = SignalState()
            for a_, v in kw.items():
                setattr(o, a_, v)
            return o
        return SignalState(**kw)

    def set_pred(p):
        occ = [Occupancy(int_eoi(o["t"]), shape(o["shape"])) for o in shuffled(p["occ"])]
        if setters:
            for o_ in occ:
                again(o_, "shape", "time_step")
            sp_ = SetBasedPrediction(p["t0"], [])
            sp_.occupancy_set = occ
            return again(sp_, "occupancy_set")
        if inplace and occ:
            sp_ = SetBasedPrediction(p["t0"], occ[:-1])
            sp_.occupancy_set.append(occ[-1])
            return sp_
        return SetBasedPrediction(p["t0"], occ)

    def traj_pred(p):
        states = [state(s_) for s_ in p["states"]]
        if inplace and len(states) > 1:
            tr = Trajectory(p["t0"], states[:-1])
            tr.append_state(states[-1])
        else:
            tr = Trajectory(p["t0"], states)
        kw = {}
        if extras:
            ts_ = [s_["t"] for s_ in p["states"] if isinstance(s_["t"], int)]
            kw = {"center_lanelet_assignment": {t: set() for t in ts_}, "shape_lanelet_assignment": {t: set() for t in ts_}}
        tp = TrajectoryPrediction(tr, shape(p["shape"]), **kw)
        return again(tp, "shape", "trajectory")

    def prediction(p):
        return traj_pred(p) if p["kind"] == "traj" else set_pred(p)

    def location(loc):
        if loc is None:
            return None
        geo = env = None
        if loc.get("geo") is not None:
            g = loc["geo"]
            if setters:
                geo = GeoTransformation(g["ref"])
                for k_, a_ in GEO_ARGS:
                    if g.get(k_) is not None:
                        setattr(geo, a_, R(g[k_]))
                again(geo, "geo_reference", "x_translation", "y_translation", "z_rotation", "scaling")
            else:
                gk = {"geo_reference": g["ref"]}
                gk.update({a_: R(g[k_]) for k_, a_ in GEO_ARGS if g.get(k_) is not None})
                geo = GeoTransformation(**gk)
        if loc.get("env") is not None:
            e = loc["env"]
            ek = {}
            if e.get("time") is not None:
                t = e["time"]
                if setters:
                    tm = Time(0, 0)
                    tm.hours, tm.minutes = t["h"], t["m"]
                    for k_ in DATE_ARGS:
                        if t.get(k_) is not None:
                            setattr(tm, k_, t[k_])
                    ek["time"] = again(tm, "hours", "minutes", "day", "month", "year")
                else:
                    ek["time"] = Time(t["h"], t["m"], **{k_: t[k_] for k_ in DATE_ARGS if t.get(k_) is not None})
            if e.get("time_of_day") is not None:
                ek["time_of_day"] = TimeOfDay[e["time_of_day"]]
            if e.get("weather") is not None:
                ek["weather"] = Weather[e["weather"]]
            if e.get("underground") is not None:
                ek["underground"] = Underground[e["underground"]]
            if setters:
                env = Environment()
                for a_, v in ek.items():
                    setattr(env, a_, v)
                again(env, "time", "time_of_day", "weather", "underground")
            else:
                env = Environment(**ek)
        if setters:
            lo = Location()
            for k_, a_ in LOC_ARGS:
                if loc.get(k_) is not None:
                    setattr(lo, a_, loc[k_] if k_ == "geo_name_id" else R(loc[k_]))
            if geo is not None:
                lo.geo_transformation = geo
            if env is not None:
                lo.environment = env
            return again(lo, "geo_name_id", "gps_latitude", "gps_longitude", "geo_transformation", "environment")
        kw = {}
        kw.update({a_: loc[k_] if k_ == "geo_name_id" else R(loc[k_]) for k_, a_ in LOC_ARGS if loc.get(k_) is not None})
        if geo is not None:
            kw["geo_transformation"] = geo
        if env is not None:
            kw["environment"] = env
        return Location(**kw)

    # ---- header
    via = sp.get("via", "scenario")
    tags = {Tag[t] for t in sp["tags"]}
    loc = location(sp.get("location"))
    skw, wkw = {}, {}
    if sp.get("sid") is not None:
        skw["scenario_id"] = ScenarioID(**sp["sid"])
    if via == "scenario":
        skw.update(author=sp["author"], affiliation=sp["affiliation"], source=sp["source"], tags=tags)
        if loc is not None:
            skw["location"] = loc
    elif via == "writer":
        wkw.update(author=sp["author"], affiliation=sp["affiliation"], source=sp["source"], tags=tags)
        if loc is not None:
            wkw["location"] = loc
    else:  # mixed: text fields on the writer, tags/location on the scenario
        wkw.update(author=sp["author"], affiliation=sp["affiliation"], source=sp["source"])
        skw.update(tags=tags)
        if loc is not None:
            skw["location"] = loc
    if setters:                                      # plain attributes of Scenario, assigned after construction
        sc = Scenario(1.0)
        sc.dt = R(sp["dt"])
        for a_, v in skw.items():
            setattr(sc, a_, v)
    else:
        sc = Scenario(R(sp["dt"]), **skw)

    sign_refs_add = V.get("sign_refs") == "add"
    pending_refs = {}                                # sign / light id -> lanelet ids that reference it (given by add_traffic_*)
    lanelets = []
    for ll in sp["lanelets"]:
        left, center, right = (np.array(ll[k], dtype=float) for k in ("left", "center", "right"))
        vals = {}
        if ll.get("pred") is not None:
            vals["predecessor"] = shuffled(ll["pred"])
        if ll.get("succ") is not None:
            vals["successor"] = shuffled(ll["succ"])
        if ll.get("adj_left") is not None:
            vals["adj_left"], vals["adj_left_same_direction"] = ll["adj_left"], ll["adj_left_same"]
        if ll.get("adj_right") is not None:
            vals["adj_right"], vals["adj_right_same_direction"] = ll["adj_right"], ll["adj_right_same"]
        if ll.get("lm_left") is not None:
            vals["line_marking_left_vertices"] = LineMarking[ll["lm_left"]]
        if ll.get("lm_right") is not None:
            vals["line_marking_right_vertices"] = LineMarking[ll["lm_right"]]
        if ll.get("stop") is not None:
            s_ = ll["stop"]
            if setters:
                sl = StopLine(arr(s_["start"]), arr(s_["end"]), LineMarking.UNKNOWN)
                sl.line_marking = LineMarking[s_["lm"]]
                if s_.get("signs") is not None:
                    sl.traffic_sign_ref = set(s_["signs"])
                if s_.get("lights") is not None:
                    sl.traffic_light_ref = set(s_["lights"])
                again(sl, "start", "end", "line_marking", "traffic_sign_ref", "traffic_light_ref")
            else:
                sk = {}
                if s_.get("signs") is not None:
                    sk["traffic_sign_ref"] = set(s_["signs"])
                if s_.get("lights") is not None:
                    sk["traffic_light_ref"] = set(s_["lights"])
                sl = StopLine(arr(s_["start"]), arr(s_["end"]), LineMarking[s_["lm"]], **sk)
            vals["stop_line"] = sl
        if ll.get("types") is not None:
            vals["lanelet_type"] = {LaneletType[t] for t in ll["types"]}
        if ll.get("one_way") is not None:
            vals["user_one_way"] = {RoadUser[t] for t in ll["one_way"]}
        if ll.get("bidir") is not None:
            vals["user_bidirectional"] = {RoadUser[t] for t in ll["bidir"]}
        signs_, lights_ = ll.get("signs"), ll.get("lights")
        if sign_refs_add:
            for sid_ in signs_ or []:
                pending_refs.setdefault(sid_, set()).add(ll["id"])
            for tid in lights_ or []:
                pending_refs.setdefault(tid, set()).add(ll["id"])
            signs_ = None if not signs_ else []
            lights_ = None if not lights_ else []
        if signs_ is not None:
            vals["traffic_signs"] = set(signs_)
        if lights_ is not None:
            vals["traffic_lights"] = set(lights_)
        late = {}
        if inplace:                                  # the last predecessor / successor / sign reference is added IN PLACE later
            for k_ in ("predecessor", "successor"):
                if vals.get(k_):
                    late[k_] = vals[k_][-1]
                    vals[k_] = vals[k_][:-1]
            if vals.get("traffic_signs"):
                late["sign"] = max(vals["traffic_signs"])
                vals["traffic_signs"] = vals["traffic_signs"] - {late["sign"]}
        ctor_names = {"predecessor": "predecessor", "successor": "successor", "adj_left": "adjacent_left",
                      "adj_left_same_direction": "adjacent_left_same_direction", "adj_right": "adjacent_right",
                      "adj_right_same_direction": "adjacent_right_same_direction",
                      "line_marking_left_vertices": "line_marking_left_vertices",
                      "line_marking_right_vertices": "line_marking_right_vertices", "stop_line": "stop_line",
                      "lanelet_type": "lanelet_type", "user_one_way": "user_one_way", "user_bidirectional": "user_bidirectional",
                      "traffic_signs": "traffic_signs", "traffic_lights": "traffic_lights"}
        if setters:
            l = Lanelet(left, center, right, I(ll["id"]))
            for a_, v in vals.items():
                setattr(l, a_, v)
            l.left_vertices, l.right_vertices, l.center_vertices = left, right, center
            again(l, *vals.keys())
        else:
            kw = {ctor_names[a_]: v for a_, v in vals.items()}
            if extras:
                kw["adjacent_areas"] = {7000001}
            l = Lanelet(left, center, right, I(ll["id"]), **kw)
        if "predecessor" in late:
            l.add_predecessor(late["predecessor"])
        if "successor" in late:
            l.successor.append(late["successor"])
        if "sign" in late:
            l.add_traffic_sign_to_lanelet(late["sign"])
        lanelets.append(l)

    signs = []
    for s_ in sp["signs"]:
        els = []
        for e in s_["elements"]:
            eid = getattr(ts, e["country"])[e["name"]]
            if setters:
                el = ts.TrafficSignElement(eid)
                if e.get("values") is not None:
                    el.additional_values = list(e["values"])
                els.append(again(el, "traffic_sign_element_id", "additional_values"))
            elif inplace and e.get("values"):
                el = ts.TrafficSignElement(eid, list(e["values"][:-1]))
                el.additional_values.append(e["values"][-1])
                els.append(el)
            else:
                els.append(ts.TrafficSignElement(eid, list(e["values"])) if e.get("values") is not None
                           else ts.TrafficSignElement(eid))
        if setters:
            sg = ts.TrafficSign(s_["id"], [], None, np.array([0.0, 0.0]))
            sg.traffic_sign_elements, sg.first_occurrence, sg.position = els, set(s_["first"]), arr(s_["pos"])
            if s_.get("virtual") is not None:
                sg.virtual = s_["virtual"]
            again(sg, "traffic_sign_elements", "first_occurrence", "position", "virtual", "traffic_sign_id")
        else:
            kw = {"virtual": s_["virtual"]} if s_.get("virtual") is not None else {}
            if inplace and len(els) > 1:
                sg = ts.TrafficSign(s_["id"], els[:-1], set(s_["first"]), arr(s_["pos"]), **kw)
                sg.traffic_sign_elements.append(els[-1])
            else:
                sg = ts.TrafficSign(s_["id"], els, set(s_["first"]), arr(s_["pos"]), **kw)
        signs.append(sg)

    lights = []
    for t in sp["lights"]:
        els = [TrafficLightCycleElement(TrafficLightState[c], d) for c, d in t["cycle"]]
        if setters:
            for e_, (c, d) in zip(els, t["cycle"]):
                e_.state, e_.duration = TrafficLightState[c], d
            cyc = TrafficLightCycle()
            cyc.cycle_elements = els
            if t.get("offset") is not None:
                cyc.time_offset = t["offset"]
            again(cyc, "cycle_elements", "time_offset")
            tl = TrafficLight(t["id"], np.array([0.0, 0.0]))
            tl.traffic_light_cycle, tl.position = cyc, arr(t["pos"])
            # TrafficLight(id, position) has no cycle and therefore active=False: the constructor default for a light WITH a
            # cycle is True, which is what the spec's `null` means
            tl.active = True if t.get("active") is None else t["active"]
            if t.get("direction") is not None:
                tl.direction = TrafficLightDirection[t["direction"]]
            again(tl, "traffic_light_cycle", "position", "active", "direction", "traffic_light_id")
        else:
            ck = {"time_offset": t["offset"]} if t.get("offset") is not None else {}
            if extras:
                ck["active"] = False
            if inplace and len(els) > 1:
                cyc = TrafficLightCycle(els[:-1], **ck)
                cyc.cycle_elements.append(els[-1])
            else:
                cyc = TrafficLightCycle(els, **ck)
            kw = {}
            if t.get("active") is not None:
                kw["active"] = t["active"]
            if t.get("direction") is not None:
                kw["direction"] = TrafficLightDirection[t["direction"]]
            if extras:
                kw["color"] = [TrafficLightState.RED, TrafficLightState.GREEN]
                kw["shape"] = Rectangle(0.5, 1.5)
            tl = TrafficLight(t["id"], arr(t["pos"]), cyc, **kw)
        lights.append(tl)

    inters = []
    for it in sp["intersections"]:
        incs = []
        for inc in it["incomings"]:
            vals = {}
            for k_spec, k_arg in [("lanelets", "incoming_lanelets"), ("right", "successors_right"),
                                  ("straight", "successors_straight"), ("left", "successors_left")]:
                if inc.get(k_spec) is not None:
                    vals[k_arg] = set(inc[k_spec])
            if inc.get("left_of") is not None:
                vals["left_of"] = inc["left_of"]
            if setters:
                io = IntersectionIncomingElement(inc["id"], vals.pop("incoming_lanelets", set()))
                for a_, v in vals.items():
                    setattr(io, a_, v)
                again(io, "incoming_lanelets", "successors_right", "successors_straight", "successors_left", "left_of", "incoming_id")
            else:
                io = IntersectionIncomingElement(inc["id"], **vals)
                if inplace and vals.get("successors_left"):
                    io.successors_left.add(max(vals["successors_left"]))
            incs.append(io)
        if setters:
            x_ = Intersection(it["id"], [])
            x_.incomings = incs
            if it.get("crossings") is not None:
                x_.crossings = set(it["crossings"])
            again(x_, "incomings", "crossings", "intersection_id")
        else:
            kw = {"crossings": set(it["crossings"])} if it.get("crossings") is not None else {}
            if inplace and len(incs) > 1:
                x_ = Intersection(it["id"], incs[:-1], **kw)
                x_.incomings.append(incs[-1])
            else:
                x_ = Intersection(it["id"], incs, **kw)
        inters.append(x_)

    # ---- obstacles
    lids = [ll["id"] for ll in sp["lanelets"]]

    def sig_vals(o):
        vals = {}
        if o.get("sig0") is not None:
            vals["initial_signal_state"] = signal(o["sig0"])
        if o.get("series") is not None:
            vals["signal_series"] = [signal(x) for x in shuffled(o["series"])]
        return vals

    def extra_kw():
        return {"initial_center_lanelet_ids": set(lids[:1]), "initial_shape_lanelet_ids": set(lids[:2])} if extras else {}

    obstacles = []
    for o in sp["static"]:
        vals = sig_vals(o)
        if setters:
            # obstacle_id / obstacle_type / obstacle_shape are write-once (their setters warn and keep the first value)
            ob = StaticObstacle(o["id"], ObstacleType[o["type"]], shape(o["shape"]), state(o["init"]), **extra_kw())
            for a_, v in vals.items():
                setattr(ob, a_, v)
            again(ob, "obstacle_type", "obstacle_shape", "initial_state", "initial_signal_state", "signal_series", "obstacle_id")
        else:
            late = None
            if inplace and vals.get("signal_series"):
                late = vals["signal_series"][-1]
                vals["signal_series"] = vals["signal_series"][:-1]
            ob = StaticObstacle(o["id"], ObstacleType[o["type"]], shape(o["shape"]), state(o["init"]), **vals, **extra_kw())
            if late is not None:
                ob.signal_series.append(late)
        obstacles.append(ob)
    for o in sp["dynamic"]:
        vals = sig_vals(o)
        pred = prediction(o["pred"]) if o.get("pred") is not None else None
        ekw = extra_kw()
        if extras:
            ekw.update(external_dataset_id=4711, history=[state(o["init"])], signal_history=[None])
        if V.get("update_ops"):
            # an obstacle that lived one step before: the content of the spec is reached by the public update operations
            first = ST.InitialState(time_step=0, position=np.array([0.0, 0.0]), orientation=0.0, velocity=0.0)
            ob = DynamicObstacle(o["id"], ObstacleType[o["type"]], shape(o["shape"]), first,
                                 SetBasedPrediction(1, []), initial_signal_state=SignalState(time_step=0, horn=True),
                                 signal_series=[SignalState(time_step=1, horn=False)], **ekw)
            ob.update_initial_state(state(o["init"]), vals.get("initial_signal_state"))
            if pred is not None or "signal_series" in vals:
                ob.update_prediction(pred, vals.get("signal_series"))
        elif setters:
            ob = DynamicObstacle(o["id"], ObstacleType[o["type"]], shape(o["shape"]), state(o["init"]), **ekw)
            if pred is not None:
                ob.prediction = pred
            for a_, v in vals.items():
                setattr(ob, a_, v)
            again(ob, "obstacle_type", "obstacle_shape", "initial_state", "prediction", "initial_signal_state", "signal_series",
                  "obstacle_id")
        else:
            kw = dict(vals)
            if pred is not None:
                kw["prediction"] = pred
            ob = DynamicObstacle(o["id"], ObstacleType[o["type"]], shape(o["shape"]), state(o["init"]), **kw, **ekw)
        obstacles.append(ob)
    for o in sp["env"]:
        ob = EnvironmentObstacle(o["id"], ObstacleType[o["type"]], shape(o["shape"]))
        obstacles.append(again(ob, "obstacle_type", "obstacle_shape", "obstacle_id"))
    for o in sp["phantom"]:
        if setters:
            ob = PhantomObstacle(o["id"])
            if o.get("pred") is not None:
                ob.prediction = set_pred(o["pred"])
            again(ob, "prediction")
        else:
            ob = PhantomObstacle(o["id"], set_pred(o["pred"])) if o.get("pred") is not None else PhantomObstacle(o["id"])
        obstacles.append(ob)

    # ---- assembly: alternative public entry points
    entry = V.get("entry", "each")

    def refs(obj_id):
        return set(pending_refs.get(obj_id, set()))

    if entry in ("network", "network-list"):
        if entry == "network-list":
            ln = LaneletNetwork.create_from_lanelet_list(lanelets)
        else:
            ln = LaneletNetwork()
            for l in lanelets:
                ln.add_lanelet(l)
        for sg in signs:
            ln.add_traffic_sign(sg, refs(sg.traffic_sign_id))
        for tl in lights:
            ln.add_traffic_light(tl, refs(tl.traffic_light_id))
        for x_ in inters:
            ln.add_intersection(x_)
        if entry == "network":
            sc.add_objects(ln)
        else:
            sc.replace_lanelet_network(ln)
        sc.add_objects(obstacles)
    elif entry == "list":
        sc.add_objects(lanelets)
        for sg in signs:
            sc.add_objects(sg, refs(sg.traffic_sign_id))
        for tl in lights:
            sc.add_objects(tl, refs(tl.traffic_light_id))
        sc.add_objects(inters)
        sc.add_objects(obstacles)
    else:
        for l in lanelets:
            sc.add_objects(l)
        for sg in signs:
            sc.add_objects(sg, refs(sg.traffic_sign_id))
        for tl in lights:
            sc.add_objects(tl, refs(tl.traffic_light_id))
        for x_ in inters:
            sc.add_objects(x_)
        for ob in obstacles:
            sc.add_objects(ob)

    # ---- planning problems
    plist = []
    for p in sp["pps"]:
        gl = p.get("goal_lanelets")
        goals = [state(s_) for s_ in p["goals"]]
        gkw = ({int(k): shuffled(v) for k, v in gl.items()},) if gl is not None else ()
        if setters:
            goal = GoalRegion([], *gkw)
            goal.state_list = goals
            again(goal, "state_list")
            pp = PlanningProblem(p["id"], state(p["init"]), GoalRegion([ST.CustomState(time_step=Interval(0, 1))]))
            pp.goal = goal
            again(pp, "initial_state", "goal")
        else:
            if inplace and len(goals) > 1:
                goal = GoalRegion(goals[:-1], *gkw)
                goal.state_list.append(goals[-1])
            else:
                goal = GoalRegion(goals, *gkw)
            pp = PlanningProblem(p["id"], state(p["init"]), goal)
        plist.append(pp)
    if V.get("pps") == "add":
        pps = PlanningProblemSet()
        for pp in plist:
            pps.add_planning_problem(pp)
    else:
        pps = PlanningProblemSet(plist)

    # ---- ids handed to their setters again AFTER the containers were assembled
    if V.get("reid"):
        rr = random.Random(V["reid"])
        for l in sc.lanelet_network.lanelets:
            l.lanelet_id = l.lanelet_id
        for sg in sc.lanelet_network.traffic_signs:
            sg.traffic_sign_id = sg.traffic_sign_id
        for tl in sc.lanelet_network.traffic_lights:
            tl.traffic_light_id = tl.traffic_light_id
        for x_ in sc.lanelet_network.intersections:
            x_.intersection_id = x_.intersection_id
            for io in x_.incomings:
                io.incoming_id = io.incoming_id
        for ob in list(sc.static_obstacles) + list(sc.dynamic_obstacles) + list(sc.environment_obstacle):
            ob.obstacle_id = ob.obstacle_id
        # ... and one obstacle gets a fresh id (the writer has to take the id from the object, not from the container key)
        cands = list(sc.static_obstacles) + list(sc.dynamic_obstacles) + list(sc.environment_obstacle)
        if cands:
            rr.choice(cands).obstacle_id = 3 * 10 ** 6 + rr.randint(0, 10 ** 5)
    return sc, pps, wkw
