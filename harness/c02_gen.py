"""C02 — generator of scenarios x planning-problem sets as JSON *specs* and their construction through the PUBLIC
constructors of commonroad-io (`build`).  A spec is plain JSON (replayable, shrinkable); `null` for an optional
constructor argument means "leave the argument at its default" (constructor-default objects are generated on purpose).

Domain (property text C02 / C01 quantifier): 2-D scenarios, ids >= 1 and < 2^32, time steps < 2^31, traffic signs and lights
with explicit positions and a non-empty cycle, enumeration members present both in the Python enum and in the .proto enum,
state attributes the protobuf `State` message has a field for, geo references that are strings.
"""
from __future__ import annotations

import math

# ------------------------------------------------------------------------------------------------ tables (from the code under test)

_T = {}


def tables():
    """Enum member tables: members present in BOTH the Python enum and the shipped .proto enum (by NAME)."""
    if _T:
        return _T
    from commonroad.common.common_lanelet import LaneletType, LineMarking, RoadUser
    from commonroad.scenario.obstacle import ObstacleType
    from commonroad.scenario.scenario import Tag, TimeOfDay, Underground, Weather
    from commonroad.scenario.traffic_light import TrafficLightDirection, TrafficLightState
    import commonroad.scenario.traffic_sign as ts
    from commonroad.scenario_definition.protobuf_format.generated_scripts import (lanelet_pb2, location_pb2, obstacle_pb2,
                                                                                    scenario_tags_pb2, traffic_light_pb2,
                                                                                    traffic_sign_pb2)

    def both(py, pb):
        pbn = set(pb.keys())
        return [m for m in py.__members__ if m in pbn and py[m].name == m]

    _T["py"] = {}
    _T["pb"] = {}

    def reg(name, py, pb):
        _T[name] = both(py, pb)
        _T["py"][name] = list(py.__members__)
        _T["pb"][name] = list(pb.keys())

    reg("LineMarking", LineMarking, lanelet_pb2.LineMarkingEnum.LineMarking)
    reg("LaneletType", LaneletType, lanelet_pb2.LaneletTypeEnum.LaneletType)
    reg("RoadUser", RoadUser, lanelet_pb2.RoadUserEnum.RoadUser)
    reg("ObstacleType", ObstacleType, obstacle_pb2.ObstacleTypeEnum.ObstacleType)
    reg("Tag", Tag, scenario_tags_pb2.TagEnum.Tag)
    reg("TimeOfDay", TimeOfDay, location_pb2.TimeOfDayEnum.TimeOfDay)
    reg("Weather", Weather, location_pb2.WeatherEnum.Weather)
    reg("Underground", Underground, location_pb2.UndergroundEnum.Underground)
    reg("TrafficLightState", TrafficLightState, traffic_light_pb2.TrafficLightStateEnum.TrafficLightState)
    reg("TrafficLightDirection", TrafficLightDirection, traffic_light_pb2.TrafficLightDirectionEnum.TrafficLightDirection)
    signs = {}
    for country in ["Germany", "Zamunda", "Usa", "China", "Spain", "Russia", "Argentina", "Belgium", "France", "Greece",
                    "Croatia", "Italy", "PuertoRico"]:
        cname = "TrafficSignID" + country
        py = getattr(ts, cname)
        # TrafficSignIDZamunda is an alias of TrafficSignIDGermany: its members are written as germany_element_id
        pb = getattr(getattr(traffic_sign_pb2, py.__name__ + "Enum"), py.__name__)
        reg(cname, py, pb)
        _T["pb"][cname] = list(getattr(getattr(traffic_sign_pb2, cname + "Enum"), cname).keys())
        signs[cname] = _T[cname]
    _T["signs"] = signs
    # float-valued attributes the protobuf State message has a field for, in descriptor order
    _T["state_fields"] = [f.name for f in obstacle_pb2.State.DESCRIPTOR.fields
                          if f.name not in ("point", "shape", "time_step")]
    return _T


STATE_CLASSES = ["InitialState", "PMState", "KSState", "STState", "STDState", "MBState", "InputState", "PMInputState",
                 "ExtendedPMState"]


def class_attrs(cls_name):
    """Float-valued dataclass attributes of a state class (without time_step / position), whether it has a position."""
    import commonroad.scenario.state as st
    import dataclasses
    cls = getattr(st, cls_name)
    names = [f.name for f in dataclasses.fields(cls)]
    return [n for n in names if n not in ("time_step", "position")], "position" in names


# ------------------------------------------------------------------------------------------------ value generators

TWO_PI = 2 * math.pi


def g_real(r, geo=False):
    """A double (sometimes given as Python int). `geo`: moderate magnitude (goes through shapely / numpy geometry)."""
    k = r.random()
    if k < 0.30:
        return r.randint(-4096, 4096) / 16.0
    if k < 0.60:
        return r.uniform(-300.0, 300.0)
    if k < 0.68:
        return r.randint(-50, 50)                     # a Python int where a float is expected
    if k < 0.74:
        return r.choice([0.0, -0.0, 1.0, -1.0])
    if k < 0.80:
        return r.choice([0.1, 0.2, 0.3, 1 / 3, math.pi, math.e, 1e-5, 1e-6, 123456.789, 0.1 + 0.2])
    if geo:
        return r.uniform(-1e4, 1e4)
    if k < 0.88:
        return r.choice([5e-324, 2.2250738585072014e-308, 1e-300, 1e-17, 4.9e-310]) * r.choice([1, -1])
    if k < 0.95:
        return r.choice([1e15, 2.0 ** 53 + 2, 1.7976931348623157e308, 9007199254740993.0, 1e22]) * r.choice([1, -1])
    return r.uniform(-1.0, 1.0) * 10.0 ** r.randint(-12, 12)


def g_pos_real(r):
    v = abs(g_real(r, geo=True))
    return v if v > 0 else 1.5


def g_point(r):
    return [g_real(r, geo=True), g_real(r, geo=True)]


def g_interval(r):
    a, b = g_real(r), g_real(r)
    a, b = float(a), float(b)
    if a > b:
        a, b = b, a
    return [a, b]


def g_angle(r):
    k = r.random()
    if k < 0.5:
        return r.uniform(-math.pi, math.pi)
    if k < 0.7:
        return r.randint(-50, 50) / 16.0
    return r.choice([0.0, -0.0, math.pi, -math.pi, 1e-6, math.pi / 2, 3, -3, 0.05])


def g_angle_interval(r):
    a = r.uniform(-TWO_PI, TWO_PI - 0.5)
    w = r.choice([0.0, 0.25, 1.0, 3.5, r.uniform(0, 6.0)])
    b = min(a + w, TWO_PI)
    if b < a:
        b = a
    return [a, b]


def g_time(r, big=False):
    if big and r.random() < 0.1:
        return r.choice([2 ** 31 - 1, 10 ** 6, 2 ** 20])
    return r.randint(0, 60)


def g_time_eoi(r):
    if r.random() < 0.5:
        return g_time(r, big=True)
    a = g_time(r)
    return [a, a + r.randint(0, 40)]


def g_shape(r, depth=0, allow_group=True, basic_only=False):
    k = r.random()
    if basic_only:
        k = k * 0.84
    if k < 0.38:
        s = {"k": "rect", "l": g_pos_real(r), "w": g_pos_real(r), "c": None, "o": None}
        if r.random() < 0.6:
            s["c"] = g_point(r)
        if r.random() < 0.6:
            s["o"] = g_angle(r)
        return s
    if k < 0.62:
        s = {"k": "circ", "r": g_pos_real(r), "c": None}
        if r.random() < 0.6:
            s["c"] = g_point(r)
        return s
    if k < 0.84 or depth >= 2 or not allow_group:
        n = r.randint(3, 7)
        cx, cy = r.uniform(-200, 200), r.uniform(-200, 200)
        rad = r.uniform(0.5, 30)
        angs = sorted(r.uniform(0, TWO_PI) for _ in range(n))
        # strictly convex (points on a circle), counter-clockwise or clockwise, sometimes explicitly closed
        pts = [[cx + rad * math.cos(a), cy + rad * math.sin(a)] for a in angs]
        if r.random() < 0.5:
            pts.reverse()
        if r.random() < 0.3:
            pts.append(list(pts[0]))
        if r.random() < 0.3:
            pts = [[round(x * 4) / 4.0, round(y * 4) / 4.0] for x, y in pts]
            if len({(x, y) for x, y in pts}) < 3:
                pts = [[cx, cy], [cx + 4.0, cy], [cx, cy + 3.0]]
        return {"k": "poly", "v": pts}
    return {"k": "group", "s": [g_shape(r, depth + 1) for _ in range(r.choice([0, 1, 2, 2, 3]))]}


def g_feoi(r, attr):
    """float exact or interval"""
    if attr == "orientation":
        return g_angle(r) if r.random() < 0.7 else g_angle_interval(r)
    return g_real(r) if r.random() < 0.7 else g_interval(r)


def g_signal(r, with_time=True):
    s = {}
    if with_time:
        s["time_step"] = g_time_eoi(r) if r.random() < 0.15 else g_time(r)
    for a in ["horn", "indicator_left", "indicator_right", "braking_lights", "hazard_warning_lights",
              "flashing_blue_lights"]:
        if r.random() < 0.5:
            s[a] = r.random() < 0.5
    return s


def g_init_state(r, full=False, t=None, region_ok=True):
    """InitialState spec: every optional attribute independently present/absent (obstacles); `full` for planning problems
    (position, velocity, orientation, yaw_rate, slip_angle mandatory; acceleration optional)."""
    st = {"cls": "InitialState", "t": g_time(r) if t is None else t, "pos": None, "a": {}}
    if full:
        st["pos"] = g_point(r)
        for a in ["orientation", "velocity", "yaw_rate", "slip_angle"]:
            st["a"][a] = g_angle(r) if a == "orientation" else g_real(r)
        if r.random() < 0.4:
            st["a"]["acceleration"] = g_real(r)
        if r.random() < 0.15:
            st["a"]["orientation"] = g_angle_interval(r)
        if r.random() < 0.15:
            st["a"]["velocity"] = g_interval(r)
        return st
    st["pos"] = g_point(r) if (r.random() < 0.8 or not region_ok) else g_shape(r, basic_only=True)
    st["a"]["orientation"] = g_feoi(r, "orientation")
    for a in ["velocity", "acceleration", "yaw_rate", "slip_angle"]:
        if r.random() < 0.6:
            st["a"][a] = g_feoi(r, a)
    return st


def g_traj_states(r, t0, n):
    """n states sharing one attribute set, consecutive time steps from t0."""
    T = tables()
    k = r.random()
    if k < 0.55:
        cls = r.choice(STATE_CLASSES)
        attrs, has_pos = class_attrs(cls)
        if r.random() < 0.2 and len(attrs) > 1:       # partially filled class -> reads back as a custom state
            attrs = [a for a in attrs if r.random() < 0.7] or attrs[:1]
    else:
        cls = "CustomState"
        fields = T["state_fields"]
        attrs = [a for a in fields if r.random() < r.choice([0.05, 0.15, 0.5])]
        if r.random() < 0.5 and "orientation" not in attrs:
            attrs.append("orientation")
        has_pos = r.random() < 0.85                   # a state without position (e.g. an input trajectory)
        if not has_pos and r.random() < 0.6:          # ... whose attributes are those of a class that HAS a position
            attrs = r.choice([["velocity", "velocity_y", "orientation"], ["steering_angle", "velocity", "orientation", "acceleration"],
                              ["velocity", "orientation", "acceleration", "jerk"]])
        attrs = [a for a in fields if a in attrs]
    attrs = [a for a in attrs if a in T["state_fields"]]
    interval_attrs = {a for a in attrs if r.random() < 0.15}
    region = r.random() < 0.2
    out = []
    for i in range(n):
        st = {"cls": cls, "t": t0 + i, "pos": None, "a": {}}
        if has_pos:
            st["pos"] = g_shape(r, basic_only=True) if region else g_point(r)
        for a in attrs:
            if a in interval_attrs:
                st["a"][a] = g_angle_interval(r) if a == "orientation" else g_interval(r)
            else:
                st["a"][a] = g_angle(r) if a == "orientation" else g_real(r)
        out.append(st)
    return out


def g_occupancies(r, t0):
    n = r.choice([0, 1, 2, 3, 5])
    occ = []
    for i in range(n):
        t = t0 + i if r.random() < 0.7 else [t0 + i, t0 + i + r.randint(0, 5)]
        occ.append({"t": t, "shape": g_shape(r)})
    return occ


def g_goal_state(r):
    st = {"cls": r.choice(["CustomState", "KSState", "InitialState", "PMState"]), "t": None, "pos": None, "a": {}}
    a = g_time(r)
    st["t"] = [a, a + r.randint(0, 30)]          # GoalRegion demands an Interval
    allowed, has_pos = class_attrs(st["cls"]) if st["cls"] != "CustomState" else (["velocity", "orientation"], True)
    if r.random() < 0.7:
        st["pos"] = g_shape(r)
    if "velocity" in allowed and r.random() < 0.5:
        st["a"]["velocity"] = g_interval(r)
    if "orientation" in allowed and r.random() < 0.5:
        st["a"]["orientation"] = g_angle_interval(r)
    return st


class Ids:
    def __init__(self, r):
        self.r = r
        self.next = r.choice([1, 1, 1, 2, 10, 1000])
        self.big = False

    def new(self):
        v = self.next
        self.next += self.r.choice([1, 1, 1, 2, 5, 100])
        if not self.big and self.r.random() < 0.02:
            self.big = True
            return self.r.choice([2 ** 31, 2 ** 32 - 1, 2 ** 31 - 1]) - self.r.randint(0, 3)
        return v


def opt(r, p, f):
    return f() if r.random() < p else None


def subset(r, items, p=0.3, maxn=None):
    out = [x for x in items if r.random() < p]
    if maxn is not None:
        out = out[:maxn]
    return out


def gen_spec(r, size="normal"):
    """One scenario x planning-problem-set spec."""
    T = tables()
    ids = Ids(r)
    small = size == "small"
    sp = {"dt": r.choice([0.1, 0.04, 0.2, 1.0, 0.1 + 0.2, r.uniform(0.01, 2.0), 1])}
    # ---- header
    if r.random() < 0.35:
        sp["sid"] = None                                        # ScenarioID() default
    else:
        sid = {"cooperative": r.random() < 0.2, "country_id": r.choice(["DEU", "USA", "ZAM", "CHN", "ESP"]),
               "map_name": r.choice(["Test", "Muc", "US101", "A9", "Lanker"]), "map_id": r.randint(1, 40),
               "configuration_id": None, "obstacle_behavior": None, "prediction_id": None}
        if r.random() < 0.7:
            sid["configuration_id"] = r.randint(1, 30)
            if r.random() < 0.7:
                sid["obstacle_behavior"] = r.choice(["T", "S", "P", "I"])
                sid["prediction_id"] = r.choice([1, 2, 7, [1, 2], [3, 1, 4]])
        sp["sid"] = sid
    sp["via"] = r.choice(["scenario", "scenario", "writer", "mixed"])
    sp["author"] = r.choice(["A. Author", "", "Jürgen Müller, 李雷", "x" * 40])
    sp["affiliation"] = r.choice(["TUM", "", "Technical University of Munich, Germany"])
    sp["source"] = r.choice(["handcrafted", "", "OSM; SUMO"])
    sp["tags"] = sorted(subset(r, T["Tag"], r.choice([0.0, 0.1, 0.4])))
    if r.random() < 0.4:
        sp["location"] = None
    else:
        loc = {"geo_name_id": None, "lat": None, "lon": None, "geo": None, "env": None}
        if r.random() < 0.7:
            loc["geo_name_id"] = r.choice([2867714, 1, -999, 2 ** 31 - 1, -2 ** 31])
            loc["lat"] = r.choice([48.262333, 999, r.uniform(-90, 90)])
            loc["lon"] = r.choice([11.668775, 999, r.uniform(-180, 180)])
        if r.random() < 0.5:
            geo = {"ref": r.choice(["+proj=utm +zone=32 +ellps=WGS84", "", "EPSG:4326"]), "x": None, "y": None, "rot": None,
                   "scaling": None}
            if r.random() < 0.6:
                geo.update({"x": g_real(r), "y": g_real(r), "rot": g_angle(r), "scaling": r.choice([1, 1.0, 0.5, g_pos_real(r)])})
            loc["geo"] = geo
        if r.random() < 0.6:
            env = {"time": None, "time_of_day": None, "weather": None, "underground": None}
            if r.random() < 0.6:
                env["time"] = {"h": r.randint(0, 23), "m": r.randint(0, 59), "day": None, "month": None, "year": None}
                if r.random() < 0.4:
                    env["time"].update({"day": r.randint(1, 28), "month": r.randint(1, 12), "year": r.randint(1990, 2040)})
            if r.random() < 0.6:
                env["time_of_day"] = r.choice(T["TimeOfDay"])
            if r.random() < 0.6:
                env["weather"] = r.choice(T["Weather"])
            if r.random() < 0.6:
                env["underground"] = r.choice(T["Underground"])
            loc["env"] = env
        sp["location"] = loc

    # ---- lanelet network
    n_l = r.choice([0, 1, 2, 3, 4]) if not small else r.choice([0, 1, 2])
    lids = [ids.new() for _ in range(n_l)]
    n_s = r.choice([0, 1, 2, 3]) if lids or r.random() < 0.3 else 0
    n_t = r.choice([0, 1, 2]) if lids or r.random() < 0.3 else 0
    sids = [ids.new() for _ in range(n_s)]
    tids = [ids.new() for _ in range(n_t)]
    lanelets = []
    for i, lid in enumerate(lids):
        n = r.choice([2, 2, 3, 5, 9])
        x0, y0 = r.uniform(-100, 100), r.uniform(-100, 100)
        step = r.choice([1.0, 2.5, 10.0, r.uniform(0.5, 20)])
        w = r.choice([3.0, 3.5, r.uniform(1, 6)])
        kind = r.random()
        left, right, center = [], [], []
        for j in range(n):
            x = x0 + j * step
            yl, yr = y0 + w / 2 + (0.1 * j if kind < 0.3 else 0.0), y0 - w / 2
            if kind > 0.8:
                x, yl, yr = g_real(r, True), g_real(r, True), g_real(r, True)
            left.append([x, yl])
            right.append([x, yr])
            center.append([x, (yl + yr) / 2])
        if r.random() < 0.2:                                     # a centre line that is NOT the mean of the bounds
            center = [[x, y + 0.25] for x, y in center]
        others = [x for x in lids if x != lid]
        ll = {"id": lid, "left": left, "center": center, "right": right,
              "pred": opt(r, 0.5, lambda: subset(r, others, 0.5)), "succ": opt(r, 0.5, lambda: subset(r, others, 0.5)),
              "adj_left": None, "adj_left_same": None, "adj_right": None, "adj_right_same": None,
              "lm_left": opt(r, 0.5, lambda: r.choice(T["LineMarking"])),
              "lm_right": opt(r, 0.5, lambda: r.choice(T["LineMarking"])),
              "stop": None,
              "types": opt(r, 0.6, lambda: sorted(subset(r, T["LaneletType"], r.choice([0.0, 0.1, 0.3])))),
              "one_way": opt(r, 0.5, lambda: sorted(subset(r, T["RoadUser"], 0.3))),
              "bidir": opt(r, 0.4, lambda: sorted(subset(r, T["RoadUser"], 0.3))),
              "signs": opt(r, 0.6, lambda: sorted(subset(r, sids, 0.6))),
              "lights": opt(r, 0.6, lambda: sorted(subset(r, tids, 0.6)))}
        if r.random() < 0.15:                                    # Lanelet(left, center, right, id): every default
            for k_ in ("pred", "succ", "lm_left", "lm_right", "types", "one_way", "bidir", "signs", "lights"):
                ll[k_] = None
            lanelets.append(ll)
            continue
        if others and r.random() < 0.5:
            ll["adj_left"] = r.choice(others)
            ll["adj_left_same"] = r.random() < 0.5
        if others and r.random() < 0.5:
            ll["adj_right"] = r.choice(others)
            ll["adj_right_same"] = r.random() < 0.5
        if r.random() < 0.4:
            ll["stop"] = {"start": g_point(r), "end": g_point(r), "lm": r.choice(T["LineMarking"]),
                          "signs": opt(r, 0.5, lambda: sorted(subset(r, sids, 0.6))),
                          "lights": opt(r, 0.5, lambda: sorted(subset(r, tids, 0.6)))}
        lanelets.append(ll)
    sp["lanelets"] = lanelets
    signs = []
    for sid_ in sids:
        els = []
        for _ in range(r.choice([1, 1, 2, 3])):
            country = r.choice(list(T["signs"])) if r.random() < 0.5 else r.choice(["TrafficSignIDGermany", "TrafficSignIDZamunda",
                                                                                    "TrafficSignIDUsa"])
            els.append({"country": country, "name": r.choice(T["signs"][country]),
                        "values": opt(r, 0.6, lambda: [r.choice(["50", "13.89", "", "München", "3.5 t", "120"])
                                                       for _ in range(r.choice([0, 1, 1, 2]))])})
        signs.append({"id": sid_, "elements": els, "first": sorted(subset(r, lids, r.choice([0.0, 0.5, 1.0]))),
                      "pos": g_point(r), "virtual": opt(r, 0.6, lambda: r.random() < 0.5)})
    sp["signs"] = signs
    lights = []
    for tid in tids:
        cyc = [[r.choice(T["TrafficLightState"]), r.choice([1, 1, 5, 30, r.randint(1, 300)])] for _ in range(r.choice([1, 2, 3, 4]))]
        lights.append({"id": tid, "pos": g_point(r), "cycle": cyc,
                       "offset": opt(r, 0.6, lambda: r.choice([0, 0, 1, 7, r.randint(0, 500)])),
                       "active": opt(r, 0.6, lambda: r.random() < 0.5),
                       "direction": opt(r, 0.6, lambda: r.choice(T["TrafficLightDirection"]))})
    sp["lights"] = lights
    inters = []
    if lids:
        for _ in range(r.choice([0, 0, 1, 2])):
            iid = ids.new()
            incs = []
            inc_ids = [ids.new() for _ in range(r.choice([1, 2, 3]))]
            for inc_id in inc_ids:
                oth = [x for x in inc_ids if x != inc_id]
                incs.append({"id": inc_id, "lanelets": sorted(subset(r, lids, 0.5)),     # None is not a usable incoming
                             "right": opt(r, 0.6, lambda: sorted(subset(r, lids, 0.4))),
                             "straight": opt(r, 0.6, lambda: sorted(subset(r, lids, 0.4))),
                             "left": opt(r, 0.6, lambda: sorted(subset(r, lids, 0.4))),
                             "left_of": (r.choice(oth) if oth and r.random() < 0.5 else None)})
            inters.append({"id": iid, "incomings": incs, "crossings": opt(r, 0.5, lambda: sorted(subset(r, lids, 0.4)))})
    sp["intersections"] = inters

    # ---- obstacles
    def obstacle_shape():
        k = r.random()
        if k < 0.55:
            s = {"k": "rect", "l": g_pos_real(r), "w": g_pos_real(r), "c": None, "o": None}   # Rectangle(l, w): defaults
            if r.random() < 0.3:
                s["c"] = g_point(r)
                s["o"] = g_angle(r)
            return s
        return g_shape(r, basic_only=True)

    def signals():
        sig0 = opt(r, 0.5, lambda: g_signal(r))
        series = opt(r, 0.6, lambda: [g_signal(r) for _ in range(r.choice([0, 1, 2, 4]))])
        if series and r.random() < 0.08:
            series[r.randrange(len(series))] = {}       # SignalState(): an object without any slot
        if sig0 is not None and r.random() < 0.04:
            sig0 = {}
        return sig0, series

    static = []
    for _ in range(r.choice([0, 1, 1, 2]) if not small else r.choice([0, 1])):
        sig0, series = signals()
        static.append({"id": ids.new(), "type": r.choice(T["ObstacleType"]), "shape": obstacle_shape(),
                       "init": g_init_state(r), "sig0": sig0, "series": series})
    sp["static"] = static
    dynamic = []
    for _ in range(r.choice([0, 1, 2, 3]) if not small else r.choice([0, 1])):
        sig0, series = signals()
        init = g_init_state(r)
        t0 = init["t"] + 1
        k = r.random()
        if k < 0.55:
            n = r.choice([1, 2, 3, 6])
            shp = obstacle_shape()
            pred = {"kind": "traj", "t0": t0, "states": g_traj_states(r, t0, n), "shape": shp}
        elif k < 0.85:
            pred = {"kind": "set", "t0": t0, "occ": g_occupancies(r, t0)}
        else:
            pred = None
        dynamic.append({"id": ids.new(), "type": r.choice(T["ObstacleType"]), "shape": obstacle_shape(), "init": init,
                        "pred": pred, "sig0": sig0, "series": series})
    sp["dynamic"] = dynamic
    sp["env"] = [{"id": ids.new(), "type": r.choice(T["ObstacleType"]), "shape": g_shape(r)}
                 for _ in range(r.choice([0, 0, 1, 2]))]
    ph = []
    for _ in range(r.choice([0, 0, 1, 2])):
        t0 = g_time(r)
        ph.append({"id": ids.new(), "pred": opt(r, 0.7, lambda: {"kind": "set", "t0": t0, "occ": g_occupancies(r, t0)})})
    sp["phantom"] = ph

    # ---- planning problems
    pps = []
    for _ in range(r.choice([0, 1, 1, 2, 3]) if not small else r.choice([0, 1])):
        goals = [g_goal_state(r) for _ in range(r.choice([1, 1, 2, 3]))]
        gl = None
        if lids and r.random() < 0.6:
            gl = {}
            for gi in range(len(goals)):
                if r.random() < 0.6:
                    gl[str(gi)] = subset(r, lids, 0.6)
        pps.append({"id": ids.new(), "init": g_init_state(r, full=True), "goals": goals, "goal_lanelets": gl})
    sp["pps"] = pps
    return sp


# ------------------------------------------------------------------------------------------------ construction (public constructors)

def _arr(p):
    import numpy as np
    return np.array(p)


def b_shape(s):
    import numpy as np
    from commonroad.geometry.shape import Circle, Polygon, Rectangle, ShapeGroup
    k = s["k"]
    if k == "rect":
        kw = {}
        if s.get("c") is not None:
            kw["center"] = _arr(s["c"])
        if s.get("o") is not None:
            kw["orientation"] = s["o"]
        return Rectangle(s["l"], s["w"], **kw)
    if k == "circ":
        return Circle(s["r"], _arr(s["c"])) if s.get("c") is not None else Circle(s["r"])
    if k == "poly":
        return Polygon(np.array(s["v"], dtype=float))
    return ShapeGroup([b_shape(x) for x in s["s"]])


def b_int_eoi(t):
    from commonroad.common.util import Interval
    return Interval(t[0], t[1]) if isinstance(t, list) else t


def b_feoi(v, attr):
    from commonroad.common.util import AngleInterval, Interval
    if isinstance(v, list):
        return AngleInterval(v[0], v[1]) if attr == "orientation" else Interval(v[0], v[1])
    return v


def b_state(st):
    import commonroad.scenario.state as S
    kw = {"time_step": b_int_eoi(st["t"])}
    if st.get("pos") is not None:
        kw["position"] = _arr(st["pos"]) if isinstance(st["pos"], list) else b_shape(st["pos"])
    for a, v in st["a"].items():
        kw[a] = b_feoi(v, a)
    return getattr(S, st["cls"])(**kw)


def b_signal(s):
    from commonroad.scenario.state import SignalState
    kw = dict(s)
    if "time_step" in kw:
        kw["time_step"] = b_int_eoi(kw["time_step"])
    return SignalState(**kw)


def b_set_pred(p):
    from commonroad.prediction.prediction import Occupancy, SetBasedPrediction
    return SetBasedPrediction(p["t0"], [Occupancy(b_int_eoi(o["t"]), b_shape(o["shape"])) for o in p["occ"]])


def b_location(loc):
    from commonroad.common.util import Time
    from commonroad.scenario.scenario import (Environment, GeoTransformation, Location, TimeOfDay, Underground, Weather)
    if loc is None:
        return None
    kw = {}
    if loc.get("geo_name_id") is not None:
        kw.update(geo_name_id=loc["geo_name_id"], gps_latitude=loc["lat"], gps_longitude=loc["lon"])
    if loc.get("geo") is not None:
        g = loc["geo"]
        gk = {"geo_reference": g["ref"]}
        if g.get("x") is not None:
            gk.update(x_translation=g["x"], y_translation=g["y"], z_rotation=g["rot"], scaling=g["scaling"])
        kw["geo_transformation"] = GeoTransformation(**gk)
    if loc.get("env") is not None:
        e = loc["env"]
        ek = {}
        if e.get("time") is not None:
            t = e["time"]
            tk = {}
            if t.get("day") is not None:
                tk = {"day": t["day"], "month": t["month"], "year": t["year"]}
            ek["time"] = Time(t["h"], t["m"], **tk)
        if e.get("time_of_day") is not None:
            ek["time_of_day"] = TimeOfDay[e["time_of_day"]]
        if e.get("weather") is not None:
            ek["weather"] = Weather[e["weather"]]
        if e.get("underground") is not None:
            ek["underground"] = Underground[e["underground"]]
        kw["environment"] = Environment(**ek)
    return Location(**kw)


def build(sp):
    """spec -> (scenario, planning_problem_set, writer_kwargs).  Everything goes through public constructors; a `null` in the
    spec leaves the constructor argument at its default."""
    import numpy as np
    import commonroad.scenario.traffic_sign as ts
    from commonroad.common.common_lanelet import LaneletType, LineMarking, RoadUser, StopLine
    from commonroad.planning.goal import GoalRegion
    from commonroad.planning.planning_problem import PlanningProblem, PlanningProblemSet
    from commonroad.prediction.prediction import TrajectoryPrediction
    from commonroad.scenario.intersection import Intersection, IntersectionIncomingElement
    from commonroad.scenario.lanelet import Lanelet
    from commonroad.scenario.obstacle import (DynamicObstacle, EnvironmentObstacle, ObstacleType, PhantomObstacle,
                                              StaticObstacle)
    from commonroad.scenario.scenario import Scenario, ScenarioID, Tag
    from commonroad.scenario.traffic_light import (TrafficLight, TrafficLightCycle, TrafficLightCycleElement,
                                                   TrafficLightDirection, TrafficLightState)
    from commonroad.scenario.trajectory import Trajectory

    via = sp.get("via", "scenario")
    tags = {Tag[t] for t in sp["tags"]}
    location = b_location(sp.get("location"))
    skw, wkw = {}, {}
    if sp.get("sid") is not None:
        skw["scenario_id"] = ScenarioID(**sp["sid"])
    if via == "scenario":
        skw.update(author=sp["author"], affiliation=sp["affiliation"], source=sp["source"], tags=tags)
        if location is not None:
            skw["location"] = location
    elif via == "writer":
        wkw.update(author=sp["author"], affiliation=sp["affiliation"], source=sp["source"], tags=tags)
        if location is not None:
            wkw["location"] = location
    else:  # mixed: text fields on the writer, tags/location on the scenario
        wkw.update(author=sp["author"], affiliation=sp["affiliation"], source=sp["source"])
        skw.update(tags=tags)
        if location is not None:
            skw["location"] = location
    sc = Scenario(sp["dt"], **skw)

    for ll in sp["lanelets"]:
        kw = {}
        for k_spec, k_arg in [("pred", "predecessor"), ("succ", "successor"), ("adj_left", "adjacent_left"),
                              ("adj_left_same", "adjacent_left_same_direction"), ("adj_right", "adjacent_right"),
                              ("adj_right_same", "adjacent_right_same_direction")]:
            if ll.get(k_spec) is not None:
                kw[k_arg] = ll[k_spec]
        if ll.get("lm_left") is not None:
            kw["line_marking_left_vertices"] = LineMarking[ll["lm_left"]]
        if ll.get("lm_right") is not None:
            kw["line_marking_right_vertices"] = LineMarking[ll["lm_right"]]
        if ll.get("stop") is not None:
            s = ll["stop"]
            sk = {}
            if s.get("signs") is not None:
                sk["traffic_sign_ref"] = set(s["signs"])
            if s.get("lights") is not None:
                sk["traffic_light_ref"] = set(s["lights"])
            kw["stop_line"] = StopLine(_arr(s["start"]), _arr(s["end"]), LineMarking[s["lm"]], **sk)
        if ll.get("types") is not None:
            kw["lanelet_type"] = {LaneletType[t] for t in ll["types"]}
        if ll.get("one_way") is not None:
            kw["user_one_way"] = {RoadUser[t] for t in ll["one_way"]}
        if ll.get("bidir") is not None:
            kw["user_bidirectional"] = {RoadUser[t] for t in ll["bidir"]}
        if ll.get("signs") is not None:
            kw["traffic_signs"] = set(ll["signs"])
        if ll.get("lights") is not None:
            kw["traffic_lights"] = set(ll["lights"])
        sc.add_objects(Lanelet(np.array(ll["left"], dtype=float), np.array(ll["center"], dtype=float),
                               np.array(ll["right"], dtype=float), ll["id"], **kw))
    for s in sp["signs"]:
        els = []
        for e in s["elements"]:
            eid = getattr(ts, e["country"])[e["name"]]
            els.append(ts.TrafficSignElement(eid, list(e["values"])) if e.get("values") is not None
                       else ts.TrafficSignElement(eid))
        kw = {}
        if s.get("virtual") is not None:
            kw["virtual"] = s["virtual"]
        sc.add_objects(ts.TrafficSign(s["id"], els, set(s["first"]), _arr(s["pos"]), **kw), set())
    for t in sp["lights"]:
        ck = {}
        if t.get("offset") is not None:
            ck["time_offset"] = t["offset"]
        cyc = TrafficLightCycle([TrafficLightCycleElement(TrafficLightState[c], d) for c, d in t["cycle"]], **ck)
        kw = {}
        if t.get("active") is not None:
            kw["active"] = t["active"]
        if t.get("direction") is not None:
            kw["direction"] = TrafficLightDirection[t["direction"]]
        sc.add_objects(TrafficLight(t["id"], _arr(t["pos"]), cyc, **kw), set())
    for it in sp["intersections"]:
        incs = []
        for inc in it["incomings"]:
            kw = {}
            for k_spec, k_arg in [("lanelets", "incoming_lanelets"), ("right", "successors_right"),
                                  ("straight", "successors_straight"), ("left", "successors_left")]:
                if inc.get(k_spec) is not None:
                    kw[k_arg] = set(inc[k_spec])
            if inc.get("left_of") is not None:
                kw["left_of"] = inc["left_of"]
            incs.append(IntersectionIncomingElement(inc["id"], **kw))
        kw = {}
        if it.get("crossings") is not None:
            kw["crossings"] = set(it["crossings"])
        sc.add_objects(Intersection(it["id"], incs, **kw))

    def sigkw(o):
        kw = {}
        if o.get("sig0") is not None:
            kw["initial_signal_state"] = b_signal(o["sig0"])
        if o.get("series") is not None:
            kw["signal_series"] = [b_signal(x) for x in o["series"]]
        return kw

    for o in sp["static"]:
        sc.add_objects(StaticObstacle(o["id"], ObstacleType[o["type"]], b_shape(o["shape"]), b_state(o["init"]), **sigkw(o)))
    for o in sp["dynamic"]:
        kw = sigkw(o)
        p = o.get("pred")
        if p is not None:
            if p["kind"] == "traj":
                kw["prediction"] = TrajectoryPrediction(Trajectory(p["t0"], [b_state(s) for s in p["states"]]),
                                                        b_shape(p["shape"]))
            else:
                kw["prediction"] = b_set_pred(p)
        sc.add_objects(DynamicObstacle(o["id"], ObstacleType[o["type"]], b_shape(o["shape"]), b_state(o["init"]), **kw))
    for o in sp["env"]:
        sc.add_objects(EnvironmentObstacle(o["id"], ObstacleType[o["type"]], b_shape(o["shape"])))
    for o in sp["phantom"]:
        sc.add_objects(PhantomObstacle(o["id"], b_set_pred(o["pred"])) if o.get("pred") is not None
                       else PhantomObstacle(o["id"]))

    plist = []
    for p in sp["pps"]:
        gl = p.get("goal_lanelets")
        if gl is not None:
            goal = GoalRegion([b_state(s) for s in p["goals"]], {int(k): list(v) for k, v in gl.items()})
        else:
            goal = GoalRegion([b_state(s) for s in p["goals"]])
        plist.append(PlanningProblem(p["id"], b_state(p["init"]), goal))
    pps = PlanningProblemSet(plist) if plist or sp.get("pps_list", True) else PlanningProblemSet()
    return sc, pps, wkw
