"""C18 — read-only operations do not change scenarios or planning problems.
model: lean/CRModel/Frame.lean; theorems: lean/CRProps/C18.lean (helper lemmas lean/CRProofs/Frame.lean).

A case is {"spec": <scenario + planning problems, JSON>, "ops": [<read-only operation>, ...]}.  The scenario is built from
the spec through the public constructors only.  After every operation
  * ORACLE   a structural snapshot through the public accessors (recursive, reflective: every public property and public
             instance attribute of every commonroad object reachable from the scenario and the planning-problem set, incl. which
             attributes each state has and the goal-lanelet tables with their dict type) must equal the snapshot before, and the
             XML and protobuf exports (date stamp erased) must be byte-identical to the exports made before the first operation;
  * CORRESPONDENCE   the abstract view (attribute lists of all states with value tokens, predictions, lanelets with successor /
             predecessor lists, obstacle registries and light references, lights, planning problems with initial state, goal
             attribute names and goal tables) and the abstract answer of the operation (incl. what both written files contain)
             are compared with the Lean model CR.Frame run on the same operation sequence; agreement of the hidden cache flags
             is recorded, not judged.  Explicit model operations: occupancy / state / occupancy-set queries, scenario-level
             occupancy and state queries, find_lanelet_by_position / _by_shape, traffic-light state, is_reached / goal_reached
             on own and foreign states (decisions per goal state are parameters, evaluated on a third copy of the scenario),
             ==, hash, copy.copy, deepcopy, pickle, obstacles_by_position_intervals, map_obstacles_to_lanelets /
             filter_obstacles_in_network, Lanelet.get_obstacles, dynamic_obstacle_by_time_step, the two merge queries,
             draw + render, XML and protobuf export.  The generic `reads` remains for str/repr, obstacles_by_role_and_type,
             signal_state_at_time_step, final_time_step, states_in_time_interval, geometric lanelet queries, range queries,
             lanelets_in_proximity, find_most_likely_lanelet_by_state and the copying network constructors.
  At the end of a case the operated scenario is compared with an untouched twin built from the same spec (snapshot and a
  fixed set of probing queries).
"""
from __future__ import annotations

import collections
import copy
import glob
import hashlib
import inspect
import io
import json
import math
import os
import pickle
import re
import warnings

from common import CORPUS_DIR, call, err_class

RULE = ("random scenarios built through the public constructors (0..6 lanelets in a grid with successor / predecessor / adjacency "
        "links incl. unsorted double successors, signs, lights with cycles, an intersection; static / dynamic / environment / phantom "
        "obstacles with rectangle, circle, polygon and shape-group shapes, lanelet registrations; predictions: none, set-based (time "
        "steps and intervals), trajectories of KSState, PMState, ExtendedPMState, KSState with uncertain position/orientation, "
        "CustomState with (velocity, velocity_y) and no orientation, with orientation, with neither, with all three; 0..2 planning "
        "problems with 1..3 goal states and a goal-lanelet table that is None, a dict or a collections.defaultdict, complete or with "
        "missing keys) x a sequence of 5..12 read-only operations out of 40 kinds (occupancy/state/lanelet/traffic-light queries, "
        "goal checks on own and foreign states, ==, hash, copy, deepcopy, pickle, network copies, str, draw+render (with 0..5 of 22 "
        "draw parameters moved off their defaults, e.g. traffic signs shown, speed-limit unit, intersections, labels; whole scenario, "
        "planning problems, or signs / lights / network / obstacles handed to the renderer directly), XML and protobuf "
        "export, and the rarely used read-only entry points found by the generator audit: find_*_by_id, sign / light reference queries, "
        "prediction.occupancy_at_time_step, Trajectory members, State.has_value / convert_state_to_state / translate_rotate / __array__, "
        "occupancy_shape_from_state, cycle queries, shape and interval queries on scenario-owned shapes / goal intervals, "
        "TrafficSignInterpreter, visualization.util, ScenarioID.from_benchmark_id, merge_lanelets, reading back the written file, the "
        "format writers used directly with explicit arguments / precision / check_validity / one writer for several writes, a renderer "
        "reused for several drawings with keep_static_artists / plot_limits / focus_obstacle / filename / create_video); half of the cases "
        "start from a HISTORY (queries that fill caches, translate_rotate, assign_obstacles_to_lanelets, setters given their own value, "
        "remove + re-add, a failing add_objects, generate_object_id) applied before the read-only sequence; 8 of every 20 cases are directed (a real speed-limit sign that gets rendered, merge of lanelets with different obstacle registrations, orientation-less "
        "trajectory queried, table with missing keys exported, goal check on scenario-owned states); a case is one (scenario, "
        "sequence); non-trivial = every case (>= 5 operations, each followed by a snapshot and both exports); distinct = distinct "
        "canonical JSON")
ASSUMPTIONS = [
    "observable = reachable through public properties / public instance attributes (plus the key set and order of instance "
    "__dict__ of states, which State.attributes exposes); lazily filled private caches (TrajectoryPrediction occupancy cache, "
    "STRtree, TrafficLightCycle._cycle_init_timesteps, Lanelet._distance) are not observable and are modelled as hidden state",
    "the snapshot itself reads only plain properties; it does not touch cached_property TrajectoryPrediction.occupancy_set, "
    "Lanelet.distance / inner_distance or TrafficLightCycle.cycle_init_timesteps (these are exercised as operations instead)",
    "the file date (XML attribute `date`, protobuf information.date) is erased before comparing exports",
    "an export that raises before and raises the same exception class after counts as the same export",
    "c18_dims.py lists every public method / property of 48 library classes (439 entries) and every parameter of the 53 constructors and "
    "parameterised entry points the generator calls (216 entries) with one decision each (mutator = outside the quantifier; op:<kind>; snapshot; "
    "n/a); the table is compared with inspect on the library on every run, an unknown public name or parameter is exit 2",
    "documented mutators (add_*, remove_*, translate_rotate, setters, assign_obstacles_to_lanelets, generate_object_id, update_*, "
    "convert_to_2d, fill_with_defaults, append_state, ...) are outside the quantifier of C18; some of them are used to build the history "
    "before the read-only sequence",
    "model side: geometry and goal decisions are parameters of the model operations (evaluated on a third, untouched copy of the "
    "scenario); every public attribute that no modelled operation looks into enters the model state as one content token "
    "(CR.Frame.Extra), so the frame theorem speaks about it but cannot see inside it",
    "a route-merging query that fails the connectivity assertion of Lanelet.merge_lanelets (two lanelets that are successors of each other: "
    "which one comes first is ambiguous) is a generic read for the model (bucket merge:raises:assert:on-cycle); the oracle judges it as any other",
    "the frame theorem C18_obs_frame is about the finite list of modelled operation kinds (28 step cases incl. the generic `reads`), "
    "not about every conceivable read-only call of the library; for `reads` the proof covers any list of filled caches, the absence "
    "of other side effects of those calls is decided by the oracle",
]
TRUSTED = ["matplotlib Agg backend, lxml, protobuf runtime (used only to run the operations under test and to erase the date)"]
REQUIRED_BUCKETS = ["traj:ks-unc-offcentre-queried", "problem-init:acceleration-unset", "problem-init:acceleration-set"] + ["drawn-light-on-incoming:" + d_ for d_ in
                    ("ALL", "RIGHT", "STRAIGHT", "LEFT", "LEFT_STRAIGHT", "STRAIGHT_RIGHT", "LEFT_RIGHT")] + ["dims:checked", "op:net_find", "op:pred_q", "op:state_q", "op:cycle_q", "op:shape_q", "op:interval_q", "op:sign_interp", "op:viz_util",
                    "op:read_back", "op:write_x", "write_x:reused-scenario:pb", "write_x:reused-scenario:xml", "lanelet_q:merge_direct", "draw:reuse", "pre:translate", "pre:query", "pre:set_same_traj",
                    "pre:remove_readd", "pre:failed_add", "spec:areas", "spec:map_info", "spec:no-dynamic", "spec:id-0", "draw:speed-limit-sign-rendered", "draw-flag:draw_traffic_signs", "draw:signs", "op:reached_own", "traj:custom-full", "op:occ", "op:state", "op:occs", "op:find_pos", "op:light", "op:reached", "op:eq", "op:hash", "op:copy",
                    "op:deepcopy", "op:pickle", "op:draw", "op:write_xml", "op:write_pb", "op:occset",
                    "traj:custom-vvy", "traj:pm", "traj:ks", "pred:set", "shape:group",
                    "tbl:defaultdict-missing", "tbl:dict-missing", "tbl:none", "export:xml-ok", "export:pb-ok", "merge:ids-to-merge",
                    "op:lanelet_q", "op:net_copy", "op:goal_reached", "op:find_shape", "op:states_at", "op:by_interval", "op:map_obstacles",
                    "lanelet_q:dyn_by_time", "lanelet_q:obstacles", "lanelet_q:merge_succ",
                    # round 7 (seeds C18_14 / C18_15): cyclic successor / predecessor graphs with both merge queries run round the cycle;
                    # a scenario id of the older format version, exported
                    "net:cycle", "merge:route-closes-cycle:merge_succ", "merge:route-closes-cycle:merge_pred",
                    "scenario-version:2018b", "scenario-version:default"]
WORKERS = {"quick": 1, "thorough": 8}
# translator tie: Gen.SrcC18 (the write sets of the read-only operations, regenerated from the working tree of commonroad-io on every
# run by harness/translate/src_c18.py) is checked completely against the cache / own-state tables of CRModel/PyExtC18.lean
EXTRA_MODULES = ["CRProps.T18"]

# ------------------------------------------------------------------------------------------------ generators

ALL_DIRECTIONS = ["ALL", "RIGHT", "STRAIGHT", "LEFT", "LEFT_STRAIGHT", "STRAIGHT_RIGHT", "LEFT_RIGHT"]
STATE_CLASSES = ["ks", "pm", "extpm", "ks-unc", "custom-vvy", "custom-ori", "custom-bare", "custom-full"]


def _f(r, lo, hi):
    """float on a 1/8 grid (exactly representable, survives JSON)"""
    return r.randint(int(lo * 8), int(hi * 8)) / 8.0


def gen_shape(r, kinds=("rect", "circ", "poly", "group"), at=None):
    k = r.choice(kinds)
    cx, cy = at if at is not None else (_f(r, 0, 60), _f(r, -2, 12))
    if k == "rect":
        return ["rect", _f(r, 1, 6) + 0.5, _f(r, 1, 3) + 0.25, cx, cy, r.choice([0.0, 0.0, 0.25, -0.5, 1.5])]
    if k == "circ":
        return ["circ", _f(r, 0.5, 3) + 0.125, cx, cy]
    if k == "poly":
        w, h = _f(r, 1, 4) + 0.5, _f(r, 1, 3) + 0.5
        return ["poly", [[cx - w, cy - h], [cx + w, cy - h], [cx + w + 0.5, cy + h], [cx - w, cy + h]]]
    return ["group", [gen_shape(r, ("rect", "circ", "poly"), (cx + 3.0 * i, cy)) for i in range(r.randint(1, 3))]]


def gen_signal(r, t):
    fields = [["time_step", t]]
    for nm in ("horn", "indicator_left", "indicator_right", "braking_lights", "hazard_warning_lights", "flashing_blue_lights"):
        if r.random() < 0.6:
            fields.append([nm, r.random() < 0.5])
    return fields


def gen_traj_states(r, cls, t1, n):
    out = []
    x, y = _f(r, 0, 40), _f(r, 0, 10)
    for i in range(n):
        t = t1 + i
        pos = ["arr", x + 1.5 * i, y]
        v, vy, ori = _f(r, 0, 20), _f(r, -3, 3), _f(r, -3, 3)
        if cls == "ks":
            a = [["position", pos], ["steering_angle", _f(r, -1, 1)], ["velocity", v], ["orientation", ori]]
            if r.random() < 0.3:
                a = [["position", pos], ["velocity", v], ["orientation", ori]]     # steering_angle stays None
            out.append({"cls": "KSState", "t": t, "attrs": a})
        elif cls == "pm":
            out.append({"cls": "PMState", "t": t, "attrs": [["position", pos], ["velocity", v], ["velocity_y", vy]]})
        elif cls == "extpm":
            out.append({"cls": "ExtendedPMState", "t": t,
                        "attrs": [["position", pos], ["velocity", v], ["orientation", ori], ["acceleration", _f(r, -2, 2)]]})
        elif cls == "ks-unc":
            a = [["position", gen_shape(r, ("rect", "circ", "poly"), (x + 1.5 * i, y))], ["velocity", v],
                 ["orientation", ["aiv", ori, ori + 0.25] if i % 2 == 0 or n == 1 else ori]]
            # every state of a trajectory must populate the same attributes (Trajectory.check_state_list): they do
            out.append({"cls": "KSState", "t": t, "attrs": a})
        elif cls == "custom-vvy":
            a = [["position", pos], ["velocity", v], ["velocity_y", vy]]
            if r.random() < 0.3:
                a.append(["acceleration", _f(r, -2, 2)])
            out.append({"cls": "CustomState", "t": t, "attrs": a})
        elif cls == "custom-ori":
            out.append({"cls": "CustomState", "t": t, "attrs": [["position", pos], ["orientation", ori], ["velocity", v]]})
        elif cls == "custom-full":   # multi-body like: heading and both velocity components
            out.append({"cls": "CustomState", "t": t, "attrs": [["position", pos], ["orientation", ori], ["velocity", v], ["velocity_y", vy]]})
        else:  # custom-bare: neither orientation nor velocity_y -> occupancy computation raises AttributeError
            out.append({"cls": "CustomState", "t": t, "attrs": [["position", pos], ["velocity", v]]})
    # same attribute set for every state of one trajectory
    names = [a[0] for a in out[0]["attrs"]]
    for s in out:
        s["attrs"] = [a for a in s["attrs"] if a[0] in names]
        have = [a[0] for a in s["attrs"]]
        for a0 in out[0]["attrs"]:
            if a0[0] not in have:
                s["attrs"].append(a0)
    return out


def _reach(lanelets, key="succ"):
    """id -> set of ids reachable through >= 1 successor (predecessor) reference"""
    by_id = {l["id"]: l for l in lanelets}
    out = {}
    for l in lanelets:
        seen, todo = set(), [x for x in l[key] if x in by_id]
        while todo:
            x = todo.pop()
            if x not in seen:
                seen.add(x)
                todo.extend(y for y in by_id[x][key] if y in by_id)
        out[l["id"]] = seen
    return out


def gen_back_edges(r, lanelets, n=None):
    """close 1..2 CYCLES in the successor / predecessor graph (ring, roundabout, a route that comes back to one of its own
    lanelets): lanelet a gets b as a successor and b gets a as a predecessor, for a reachable from b.  Topology only - the library
    does not tie the references to the geometry.  -> [[a, b], ...] (the lanelet dicts are edited in place)"""
    edges = []
    for _ in range(n or r.choice([1, 1, 2])):
        reach = _reach(lanelets)
        pairs = [(a, b["id"]) for b in lanelets for a in sorted(reach[b["id"]]) if a != b["id"]]
        by_id = {l["id"]: l for l in lanelets}
        pairs = [(a, b) for a, b in pairs if b not in by_id[a]["succ"]]
        if not pairs:
            break
        a, b = r.choice(pairs)
        # the new reference goes first, last, or in between: the lists need not be sorted
        by_id[a]["succ"].insert(r.randint(0, len(by_id[a]["succ"])), b)
        by_id[b]["pred"].insert(r.randint(0, len(by_id[b]["pred"])), a)
        edges.append([a, b])
    return edges


def on_cycle(lanelets):
    """ids of the lanelets that lie on a cycle of successor references"""
    reach = _reach(lanelets)
    return sorted(i for i, s in reach.items() if i in s)


def gen_spec(r, tiny=False):
    spec = {"dt": r.choice([0.1, 0.1, 0.04, 0.5]), "tags": sorted(r.sample(["URBAN", "HIGHWAY", "INTERSECTION", "SIMULATED"], r.randint(1, 2))),
            "location": r.random() < 0.5, "scenario_id": r.choice([None, ["ZAM", "Frame", 3, 2, "T", 1], ["DEU", "A9", 1, None, None, None],
                                                                   ["USA", "Lanker", 2, 1, "S", 3, True]]),
            # ScenarioID.scenario_version: the current format, or the older supported one (what the XML reader hands out for every
            # 2018b file); None = the constructor default.  Every export writes the CURRENT format whatever the id says.
            "scenario_version": r.choice([None, None, "2018b", "2018b", "2020a"])}
    if spec["location"]:
        # Location / GeoTransformation / Environment / Time arguments: given or left out, several values
        spec["location"] = {"geo_name_id": r.choice([2867714, -999, 0]), "lat": r.choice([48.25, 999.0, -33.5]), "lon": r.choice([11.5, 999.0]),
                            "geo": r.choice([None, ["ref", 1.0, 2.0, 0.5, 1.0], ["+proj=utm", 0.0, 0.0, 0.0, 2.5]]),
                            "env": r.choice([None, [12, 15, None, None, None, "NIGHT", "FOG", "DIRTY"], [7, 5, 24, 12, 2020, "NIGHT", "SNOW", "WET"],
                                             [0, 0, None, None, None, "UNKNOWN", "UNKNOWN", "UNKNOWN"]])}
    spec["map_info"] = r.choice([None, None, ["2020a", "ZAM_Frame-3", [10, 30, 1, 2, 2021], "M. Apper", "TUM", "survey", "CC-BY", "text"],
                                 ["2020a", "DEU_A9-1", None, "", "", "", "", None]])
    rows = r.choice([0, 1, 1, 2, 2]) if not tiny else r.choice([0, 1])
    cols = r.choice([1, 2, 3]) if not tiny else 1
    lanelets = []
    for rr in range(rows):
        for cc in range(cols):
            lid = 100 + 10 * rr + cc
            n = r.choice([2, 2, 3, 5])
            ll = {"id": lid, "row": rr, "col": cc, "n": n, "bend": r.choice([0.0, 0.0, 0.5]),
                  "pred": ([lid - 1] if cc > 0 else []) + ([lid - 11] if cc > 0 and rr > 0 and r.random() < 0.4 else []),
                  "succ": ([lid + 1] if cc + 1 < cols else []) + ([lid - 9] if cc + 1 < cols and rr > 0 and r.random() < 0.4 else []),
                  "adj_left": [lid + 10, r.random() < 0.8] if rr + 1 < rows else None, "adj_right": [lid - 10, r.random() < 0.8] if rr > 0 else None,
                  "lm_left": r.choice(["DASHED", "SOLID", "NO_MARKING"]), "lm_right": r.choice(["SOLID", "NO_MARKING"]),
                  "types": sorted(r.sample(["URBAN", "HIGHWAY", "COUNTRY"], r.randint(0, 2))),
                  "one_way": sorted(r.sample(["VEHICLE", "CAR", "BUS"], r.randint(0, 2))),
                  "bidir": sorted(r.sample(["BICYCLE", "PEDESTRIAN"], r.randint(0, 1))),
                  "stop_line": r.random() < 0.25, "stop_refs": r.choice(["none", "empty", "given"])}
            lanelets.append(ll)
    spec["lanelets"] = lanelets
    spec["back_edges"] = gen_back_edges(r, lanelets) if r.random() < 0.4 else []
    lids = [l["id"] for l in lanelets]
    spec["signs"] = []
    spec["lights"] = []
    spec["intersections"] = []
    if lids:
        for i in range(r.choice([0, 1, 2])):
            country, elem = r.choice([["Zamunda", "MAX_SPEED"], ["Zamunda", "MAX_SPEED"], ["Germany", "MAX_SPEED"], ["Usa", "MAX_SPEED"],
                                      ["Germany", "MIN_SPEED"], ["Spain", "MAX_SPEED"], ["Zamunda", "STOP"], ["Zamunda", "YIELD"]])
            values = [r.choice([str(r.randint(5, 50)), "13.89", "8.33", str(r.randint(50, 300) / 10.0)])] + (["7.5"] if r.random() < 0.2 else [])
            if elem in ("STOP", "YIELD") and r.random() < 0.5:
                values = []
            spec["signs"].append({"id": 300 + i, "country": country, "elem": elem, "values": values, "second": r.random() < 0.25,
                                  "first": sorted(r.sample(lids, 1)), "pos": [_f(r, 0, 60), _f(r, 0, 8)], "virtual": r.random() < 0.3,
                                  "lanelets": sorted(r.sample(lids, r.randint(1, min(2, len(lids)))))})
        for i in range(r.choice([0, 1, 1, 2])):
            ne = r.randint(1, 4)
            spec["lights"].append({"id": 400 + i, "cycle": [[r.randrange(5), r.randint(1, 6)] for _ in range(ne)],
                                   "offset": r.choice([0, 0, 2, 7]), "pos": [_f(r, 0, 60), _f(r, 0, 8)],
                                   "active": r.random() < 0.8, "direction": r.choice(ALL_DIRECTIONS),
                                   "cycle_active": r.random() < 0.8, "color": r.choice([None, None, [0, 3], [1]]),
                                   "shape": r.random() < 0.25,
                                   "lanelets": sorted(r.sample(lids, r.randint(1, min(2, len(lids)))))})
        if len(lids) >= 2 and r.random() < 0.4:
            inc = r.sample(lids, 2)
            spec["intersections"].append({"id": 500, "incomings": [
                {"id": 510, "lanelets": [inc[0]], "right": [], "straight": [inc[1]], "left": [], "left_of": None},
                {"id": 511, "lanelets": [inc[1]], "right": [inc[0]], "straight": [], "left": [], "left_of": 510}],
                "crossings": r.choice([[], [], sorted(r.sample(lids, 1))])})
    spec["areas"] = []
    if lids and r.random() < 0.3:
        spec["areas"].append({"id": 600, "types": sorted(r.sample(["BUS_STOP", "PARKING", "BORDER"], r.randint(0, 2))),
                              "borders": [{"id": 610, "adjacent": r.choice([None, sorted(r.sample(lids, 1))]), "lm": r.choice([None, "SOLID"])},
                                          {"id": 611, "adjacent": None, "lm": "DASHED"}][:r.randint(1, 2)],
                              "lanelets": sorted(r.sample(lids, 1))})
    oid = [r.choice([0, 0, 0, -1])]      # -1: the first obstacle gets id 0

    def nid():
        oid[0] += 1
        return oid[0]

    def init_state(t0, full=False):
        a = [["position", ["arr", _f(r, 0, 60), _f(r, 0, 10)]], ["orientation", _f(r, -3, 3)]]
        if full or r.random() < 0.7:
            a.append(["velocity", _f(r, 0, 20)])
        if full:
            # a planning problem needs yaw_rate and slip_angle; `acceleration` is optional and stays None in half of them
            a.extend(([["acceleration", _f(r, -2, 2)]] if r.random() < 0.5 else []) + [["yaw_rate", _f(r, -1, 1)], ["slip_angle", _f(r, -1, 1)]])
        elif r.random() < 0.3:
            a.extend([x for x in [["acceleration", _f(r, -2, 2)], ["yaw_rate", _f(r, -1, 1)], ["slip_angle", _f(r, -1, 1)]] if r.random() < 0.7])
        return {"cls": "InitialState", "t": t0, "attrs": a}

    spec["static"] = []
    for _ in range(r.choice([0, 1, 1, 2]) if not tiny else r.choice([0, 1])):
        spec["static"].append({"id": nid(), "type": r.choice(["PARKED_VEHICLE", "CONSTRUCTION_ZONE", "ROAD_BOUNDARY"]),
                               "shape": gen_shape(r, ("rect", "circ", "poly")), "init": init_state(r.choice([0, 0, 1])),
                               "signal_series": r.choice([[], [], [], [], [], None]),   # None: the protobuf writer cannot write it
                               "init_signal": gen_signal(r, 0) if r.random() < 0.3 else None,
                               "center_ids": sorted(r.sample(lids, 1)) if lids and r.random() < 0.5 else None,
                               "shape_ids": sorted(r.sample(lids, 1)) if lids and r.random() < 0.6 else None})
    spec["dynamic"] = []
    for _ in range(r.choice([0, 1, 2, 2, 3]) if not tiny else r.choice([1, 1, 2])):
        t0 = r.choice([0, 0, 0, 1, 3])
        kind = r.choice(["traj", "traj", "traj", "traj", "set", "none"])
        # the obstacle shape lives in the local frame; its reference point need not be the origin
        shape = gen_shape(r, ("rect", "rect", "circ", "poly", "group"), (0.0, 0.0) if r.random() < 0.6 else (r.choice([2.0, -1.5]), r.choice([1.0, 0.0, -0.5])))
        d = {"id": nid(), "type": r.choice(["CAR", "TRUCK", "BICYCLE", "PEDESTRIAN", "BUS"]), "shape": shape, "init": init_state(t0),
             "pred": None, "init_signal": gen_signal(r, t0) if r.random() < 0.4 else None,
             "signal_series": None, "center_ids": sorted(r.sample(lids, 1)) if lids and r.random() < 0.3 else None,
             "shape_ids": sorted(r.sample(lids, 1)) if lids and r.random() < 0.5 else None,
             "meta": r.random() < 0.2, "external_id": r.choice([None, None, 77]), "history": r.random() < 0.2,
             "meta_series": r.random() < 0.15, "signal_history": r.random() < 0.15, "ids_history": r.random() < 0.15}
        if kind == "traj":
            cls = r.choice(STATE_CLASSES + ["custom-vvy", "pm", "ks"])
            if shape[0] == "group" and cls == "ks-unc":
                cls = "ks"           # occupancy_shape_from_state raises ValueError for a shape group with uncertain states
            t1 = t0 + r.choice([1, 1, 1, 2, 0])
            n = r.randint(1, 4)
            d["pred"] = {"kind": "traj", "cls": cls, "t1": t1, "states": gen_traj_states(r, cls, t1, n),
                         "center_assign": [[t1, sorted(r.sample(lids, 1))]] if lids and r.random() < 0.3 else None,
                         "shape_assign": [[t1, sorted(r.sample(lids, 1))]] if lids and r.random() < 0.3 else None}
            if r.random() < 0.4:
                d["signal_series"] = [gen_signal(r, t1 + i) for i in range(n)]
        elif kind == "set":
            occs = []
            t = t0 + 1
            for i in range(r.randint(1, 3)):
                if r.random() < 0.4:
                    occs.append({"t": [t, t + 2], "shape": gen_shape(r)})
                    t += 3
                else:
                    occs.append({"t": t, "shape": gen_shape(r)})
                    t += 1
            if len(occs) > 1 and r.random() < 0.5:
                r.shuffle(occs)            # the stored occupancy list need not be chronological
            d["pred"] = {"kind": "set", "t1": t0 + 1, "occs": occs}
        spec["dynamic"].append(d)
    spec["env"] = [{"id": nid(), "type": r.choice(["BUILDING", "PILLAR", "MEDIAN_STRIP"]), "shape": gen_shape(r, ("poly", "rect", "circ"))}
                   for _ in range(r.choice([0, 0, 1]))]
    spec["phantom"] = []
    if r.random() < 0.25:
        spec["phantom"].append({"id": nid(), "occs": [{"t": r.choice([1, [1, 3]]), "shape": gen_shape(r, ("rect", "poly"))}] if r.random() < 0.8 else None})
    problems = []
    for i in range(r.choice([0, 1, 1, 2]) if not tiny else r.choice([0, 1])):
        ng = r.randint(1, 3)
        goals = []
        for g in range(ng):
            a = []
            if r.random() < 0.7:
                a.append(["position", gen_shape(r)])
            if r.random() < 0.5:
                lo = _f(r, -3, 2)
                a.append(["orientation", ["aiv", lo, lo + r.choice([0.5, 1.0])]])
            if r.random() < 0.5:
                lo = _f(r, 0, 10)
                a.append(["velocity", ["iv", lo, lo + 5.0]])
            goals.append({"cls": "CustomState", "t": ["iv", r.randint(0, 5), r.randint(6, 30)], "attrs": a})
        tk = r.choice(["none", "dict", "dict-missing", "defaultdict", "defaultdict-missing", "defaultdict-missing"])
        tbl = None
        if tk != "none":
            keys = list(range(ng))
            if tk.endswith("missing"):
                keys = sorted(r.sample(keys, r.randint(0, ng - 1)))
            pool = lids or [100, 101]
            tbl = {"kind": tk.split("-")[0], "items": [[k, sorted(r.sample(pool, r.randint(1, min(2, len(pool)))))] for k in keys]}
        problems.append({"id": 900 + i, "init": init_state(0, full=True), "goals": goals, "tbl": tbl})
    spec["problems"] = problems
    return spec


def _obstacle_ids(spec, roles=("static", "dynamic", "env", "phantom")):
    return [o["id"] for k in roles for o in spec[k]]


# draw parameters that are varied away from their defaults (path below MPDrawParams, values).  Left at their defaults: the
# parameters the model's draw operation depends on besides those it takes as arguments (dynamic_obstacle.draw_shape /
# draw_signals, traffic_light.draw_traffic_lights).
DRAW_FLAGS = [
    ("lanelet_network.traffic_sign.draw_traffic_signs", [True]),
    ("lanelet_network.traffic_sign.show_label", [True]),
    ("lanelet_network.traffic_sign.speed_limit_unit", ["auto", "kmh", "mph", "ms"]),
    ("lanelet_network.traffic_sign.scale_factor", [0.5]),
    ("lanelet_network.traffic_light.show_label", [True]),
    ("lanelet_network.intersection.draw_intersections", [True]),
    ("lanelet_network.intersection.show_label", [True]),
    ("lanelet_network.intersection.draw_crossings", [False]),
    ("lanelet_network.lanelet.show_label", [True]),
    ("lanelet_network.lanelet.draw_border_vertices", [True]),
    ("lanelet_network.lanelet.unique_colors", [True]),
    ("lanelet_network.lanelet.colormap_tangent", [True]),
    ("lanelet_network.lanelet.fill_lanelet", [False]),
    ("lanelet_network.lanelet.draw_line_markings", [False]),
    ("lanelet_network.lanelet.draw_stop_line", [False]),
    ("lanelet_network.lanelet.draw_start_and_direction", [False]),
    ("dynamic_obstacle.show_label", [True]),
    ("dynamic_obstacle.draw_direction", [True]),
    ("dynamic_obstacle.trajectory.draw_continuous", [True]),
    ("dynamic_obstacle.trajectory.unique_colors", [True]),
    ("static_obstacle.occupancy.shape.opacity", [0.5]),
    ("planning_problem_set.planning_problem.initial_state.state.draw_arrow", [True]),
]


def gen_draw(r, whats, focus_ids=()):
    tb = r.choice([0, 0, 1, 2, 5])
    flags = []
    if r.random() < 0.6:
        flags.append(["lanelet_network.traffic_sign.draw_traffic_signs", True])       # off by default: signs are never rendered otherwise
    for path, vals in r.sample(DRAW_FLAGS, r.randint(0, 4)):
        if all(f[0] != path for f in flags):
            flags.append([path, r.choice(vals)])
    d = {"what": r.choice(whats), "tb": tb, "te": tb + r.choice([1, 3, 6]),
         "occ": r.random() < 0.5, "traj": r.random() < 0.5, "icon": r.random() < 0.2,
         "init": r.random() < 0.3, "hist": r.random() < 0.2, "flags": flags}
    # the renderer's own arguments and its reuse for several drawings
    if r.random() < 0.3:
        d["reuse"] = r.choice([1, 2])
        d["keep"] = r.random() < 0.5
    if r.random() < 0.2:
        d["limits"] = [-10.0, 70.0, -5.0, 15.0]
    if r.random() < 0.15:
        d["file"] = True
    if focus_ids and r.random() < 0.2:
        d["focus"] = r.choice(focus_ids)
    if d["what"] in ("scenario", "both") and r.random() < 0.08:
        d["video"] = r.choice(["default", "params"])
    return ["draw", d]


def gen_ops(r, spec, n=None, allow_draw=True):
    n = n or r.randint(5, 11)
    ops = []
    dyn = spec["dynamic"]
    all_ids = _obstacle_ids(spec)
    occ_ids = [d["id"] for d in dyn] * 3 + all_ids
    lids = [l["id"] for l in spec["lanelets"]]
    kinds = ["occ"] * 5 + ["state"] * 3 + ["occs"] * 3 + ["states_at", "occset", "occset", "find_pos", "find_pos", "find_shape", "proximity",
            "light", "light", "reached", "reached", "reached_own", "reached_own", "goal_reached", "eq", "eq", "hash", "hash", "copy", "deepcopy", "deepcopy", "pickle",
            "pickle", "write_xml", "write_xml", "write_pb", "write_pb", "write_pb", "str", "by_role", "by_interval", "signal", "lanelet_q",
            "map_obstacles", "final_time", "traj_q", "net_copy", "lanelet_q", "most_likely", "dyn_by_time", "dyn_by_time", "get_obstacles",
            "map_obstacles", "by_interval"]
    kinds += list(NEW_KINDS)       # the read-only entry points added by the generator audit (c18_dims.OPERATIONS), once each
    if allow_draw:
        kinds += ["draw"]
    targets = ["scenario", "pps", "net"] + [["obstacle", i] for i in all_ids] + [["problem", p["id"]] for p in spec["problems"]]
    # parts of the scenario as targets of ==, hash, copy, deepcopy, pickle, str (the model knows the five kinds above; the rest is `reads`)
    parts = [["lanelet", i] for i in lids] + [["light", x["id"]] for x in spec["lights"]] + [["sign", x["id"]] for x in spec["signs"]] + \
            [["intersection", x["id"]] for x in spec["intersections"]] + [["goal", p["id"]] for p in spec["problems"]] + \
            [[w, d["id"]] for d in dyn for w in ("init_state", "shape")] + \
            [[w, d["id"]] for d in dyn if d["pred"] for w in ("prediction",)] + \
            [[w, d["id"]] for d in dyn if d["pred"] and d["pred"]["kind"] == "traj" for w in ("trajectory", "traj_state")]

    def some_t(d=None):
        if d is not None:
            t0 = d["init"]["t"]
            return r.choice([t0, t0 + 1, t0 + 1, t0 + 2, t0 + 3, t0 - 1 if t0 > 0 else t0, t0 + 7])
        return r.choice([0, 0, 1, 2, 3, 4, 6, 9])

    def pts():
        return [[_f(r, -5, 65) + 0.0625, _f(r, -3, 11) + 0.0625] for _ in range(r.randint(1, 3))]

    def state_spec():
        cls = r.choice(["ks", "pm", "custom-vvy", "custom-ori"])
        return gen_traj_states(r, cls, r.randint(0, 12), 1)[0]

    for _ in range(n):
        k = r.choice(kinds)
        if k == "occ":
            if occ_ids:
                i = r.choice(occ_ids)
                d = next((d for d in dyn if d["id"] == i), None)
                ops.append(["occ", i, some_t(d)])
        elif k == "state":
            roles = ("static", "dynamic")
            ids = _obstacle_ids(spec, roles)
            if ids:
                i = r.choice(ids)
                d = next((d for d in dyn if d["id"] == i), None)
                ops.append(["state", i, some_t(d)])
        elif k == "occs":
            ops.append(["occs", some_t(), r.choice([None, None, "DYNAMIC", "STATIC"])])
        elif k == "states_at":
            ops.append(["states_at", some_t()])
        elif k == "occset":
            c = [d["id"] for d in dyn if d["pred"]] + [p["id"] for p in spec["phantom"] if p["occs"]]
            if c:
                ops.append(["occset", r.choice(c)])
        elif k == "final_time":
            c = [d["id"] for d in dyn if d["pred"]]
            if c:
                ops.append(["final_time", r.choice(c)])
        elif k == "traj_q":
            c = [d["id"] for d in dyn if d["pred"] and d["pred"]["kind"] == "traj"]
            if c:
                ops.append(["traj_q", r.choice(c), some_t(), some_t() + 3])
        elif k == "find_pos":
            ops.append(["find_pos", pts()])
        elif k == "find_shape":
            ops.append(["find_shape", gen_shape(r, ("rect", "circ", "poly"))])
        elif k == "proximity":
            ops.append(["proximity", pts()[0], r.choice([1.0, 5.0, 30.0])])
        elif k == "light":
            if spec["lights"]:
                ops.append(["light", r.choice(spec["lights"])["id"], r.choice([0, 1, 2, 5, 13, 40])])
        elif k == "reached":
            if spec["problems"]:
                ops.append(["reached", r.choice(spec["problems"])["id"], state_spec()])
        elif k == "reached_own":
            c = [d for d in dyn if d["pred"] and d["pred"]["kind"] == "traj"]
            if spec["problems"] and c:
                d = r.choice(c)
                ops.append(["reached_own", r.choice(spec["problems"])["id"], d["id"], r.choice(["state", "state", "trajectory", "initial"]),
                            d["pred"]["t1"] + r.randint(0, len(d["pred"]["states"]) - 1)])
        elif k == "goal_reached":
            if spec["problems"]:
                cls = r.choice(["ks", "pm", "custom-ori"])
                t1 = r.randint(0, 8)
                ops.append(["goal_reached", r.choice(spec["problems"])["id"], t1, gen_traj_states(r, cls, t1, r.randint(1, 3))])
        elif k in ("eq", "hash", "copy", "deepcopy", "pickle", "str"):
            ops.append([k, r.choice(targets[:3] * 3 + targets + (parts if r.random() < 0.5 and parts else []))])
        elif k == "draw":
            ops.append(gen_draw(r, ["scenario", "both", "both", "pps", "signs", "lights", "network", "obstacles", "goal", "trajectories", "list"],
                                [d["id"] for d in dyn]))
        elif k == "write_xml":
            ops.append(["write_xml", r.choice(["full", "full", "scenario"])])
        elif k == "write_pb":
            ops.append(["write_pb", r.choice(["full", "full", "scenario"])])
        elif k == "by_role":
            ops.append(["by_role", r.choice([None, "DYNAMIC", "STATIC"]), r.choice([None, "CAR"])])
        elif k == "by_interval":
            roles = r.choice([None, None, ["DYNAMIC"], ["STATIC", "Phantom"], ["DYNAMIC", "STATIC", "Phantom", "ENVIRONMENT"], ["ENVIRONMENT"]])
            ops.append(["by_interval", [_f(r, -10, 20), _f(r, 30, 70)], [_f(r, -5, 2), _f(r, 5, 15)], r.choice([some_t(), some_t(), None])]
                       + ([roles] if roles else []))
        elif k == "signal":
            c = _obstacle_ids(spec, ("static", "dynamic"))
            if c:
                ops.append(["signal", r.choice(c), some_t()])
        elif k == "lanelet_q":
            if lids:
                q = r.choice(["contains", "interpolate", "orientation", "obstacles", "succ_range",
                              "merge_succ", "merge_succ", "merge_pred", "pred_range", "dyn_by_time",
                              "dyn_by_time", "dyn_by_time", "obstacles", "polygon", "distance"])
                cyc = on_cycle(spec["lanelets"])
                if cyc and r.random() < 0.5:
                    ops.append(gen_merge_op(r, r.choice(cyc), r.choice(["merge_succ", "merge_pred"])))
                elif q in ("merge_succ", "merge_pred"):
                    ops.append(gen_merge_op(r, r.choice(lids), q))
                else:
                    ops.append(["lanelet_q", r.choice(lids), q, pts()])
        elif k in ("dyn_by_time", "get_obstacles"):
            if lids:
                ops.append(["lanelet_q", r.choice(lids), "dyn_by_time" if k == "dyn_by_time" else "obstacles", pts()])
        elif k == "net_copy":
            ops.append(["net_copy", r.choice(["network", "list", "shape", "exclude"]), r.random() < 0.7])
        elif k == "most_likely":
            if lids:
                ops.append(["most_likely", [[20.0 * r.randint(0, 2) + 3.0625, 2.0625, _f(r, -1, 1)]]])
        elif k == "map_obstacles":
            ops.append(["map_obstacles", r.choice(["map", "map", "filter"]), r.choice(["static", "static", "all"])])
        elif k in NEW_KINDS:
            op = gen_new_op(r, spec, k, some_t, pts)
            if op:
                ops.append(op)
    if not ops:
        ops.append(["occs", 0, None])
    return ops


def gen_merge_op(r, lid, q):
    """one of the two route-merging queries; op[4] = max_length (how far the routes run; absent in older cases = 60)"""
    return ["lanelet_q", lid, q, [[1.0625, 1.0625]], r.choice([60.0, 60.0, 45.0, 150.0, 25.0])]


NEW_KINDS = ("net_find", "pred_q", "state_q", "pps_find", "cycle_q", "shape_q", "interval_q", "sign_interp", "viz_util", "read_back", "write_x",
             "scenario_id_q", "lanelet_merge_direct")


def gen_new_op(r, spec, k, some_t, pts):
    dyn = spec["dynamic"]
    lids = [l["id"] for l in spec["lanelets"]]
    if k == "net_find":
        return ["net_find", r.choice(["area", "intersection", "sign", "sign_refs", "light_refs", "polygons"]),
                r.choice([600, 500, 300, 301, 400, 401, 999])]
    if k == "pred_q":
        c = [d["id"] for d in dyn if d["pred"]] + [x["id"] for x in spec["phantom"] if x["occs"]]
        return ["pred_q", r.choice(c), some_t()] if c else None
    if k == "state_q":
        c = [d for d in dyn if d["pred"] and d["pred"]["kind"] == "traj"]
        owners = [["init", o["id"], 0] for o in spec["static"] + dyn] + [["traj", d["id"], r.randrange(len(d["pred"]["states"]))] for d in c] + \
                 [["problem", p["id"], 0] for p in spec["problems"]]
        return ["state_q", r.choice(owners), r.choice(["has_value", "convert", "array", "occupancy_shape", "translate", "draw_state"])] if owners else None
    if k == "pps_find":
        return ["pps_find", r.choice([900, 901, 999])]
    if k == "cycle_q":
        return ["cycle_q", r.choice(spec["lights"])["id"], r.choice([0, 1, 5, 13]), r.choice(["state", "init_steps"])] if spec["lights"] else None
    if k == "shape_q":
        owners = [["obstacle", i] for i in _obstacle_ids(spec, ("static", "dynamic", "env"))] + \
                 [["goal", p["id"], g] for p in spec["problems"] for g, gs in enumerate(p["goals"]) if any(a[0] == "position" for a in gs["attrs"])] + \
                 [["occupancy", d["id"]] for d in dyn if d["pred"] and d["pred"]["kind"] == "set"] + [["lanelet", i] for i in lids]
        return ["shape_q", r.choice(owners), r.choice(["contains", "shapely", "translate", "local", "attrs", "draw"]), pts()[0]] if owners else None
    if k == "interval_q":
        return ["interval_q", r.choice(spec["problems"])["id"], _f(r, -3, 10), r.choice(["contains", "overlaps", "intersection"])] if spec["problems"] else None
    if k == "sign_interp":
        return ["sign_interp", r.choice(["GERMANY", "USA", "SPAIN", "ARGENTINA"]), sorted(r.sample(lids, r.randint(1, min(2, len(lids)))))] if lids else None
    if k == "viz_util":
        return ["viz_util", r.choice(["bbox", "colors"]), some_t()]
    if k == "read_back":
        return ["read_back", r.choice(["xml", "pb"]), r.choice(["open", "open_assign", "network"])]
    if k == "write_x":
        return ["write_x", {"fmt": r.choice(["xml", "pb"]), "direct": r.random() < 0.4, "precision": r.choice([4, 2, 8]),
                            "check": r.random() < 0.3, "args": r.random() < 0.4, "location": r.random() < 0.3,
                            "seq": r.choice([["full"], ["full", "scenario"], ["scenario", "full", "full"], ["full", "skip"],
                                             ["scenario", "scenario"], ["full", "scenario", "scenario"]])}]
    if k == "scenario_id_q":
        return ["scenario_id_q"]
    if k == "lanelet_merge_direct":
        c = [l for l in spec["lanelets"] if l["succ"]]
        if not c:
            return None
        l = r.choice(c)
        return ["lanelet_q", l["id"], "merge_direct", [[float(l["succ"][0]), float(r.random() < 0.5)]]]
    return None


def gen_pre(r, spec):
    """a HISTORY before the read-only sequence: queries that fill caches, documented mutators, a failing mutator, setters
    that get their own value back — applied in the same way to the scenario under test, its twin and the auxiliary copy"""
    pre = []
    dyn = spec["dynamic"]
    trajs = [d for d in dyn if d["pred"] and d["pred"]["kind"] == "traj"]
    lids = [l["id"] for l in spec["lanelets"]]
    for _ in range(r.choice([1, 2, 3, 4])):
        k = r.choice(["query", "translate", "assign", "set_same_traj", "set_same_shape", "set_same_vertices", "offset", "remove_readd", "gen_id",
                      "failed_add", "light_query"])
        if k in ("query", "set_same_traj", "set_same_shape") and trajs:
            d = r.choice(trajs)
            pre.append([k, d["id"], d["pred"]["t1"]])
        elif k == "translate":
            pre.append(["translate", r.choice([0.0, 3.5, -120.25]), r.choice([0.0, -2.0]), r.choice([0.0, 0.25, -1.5])])
        elif k in ("assign", "gen_id", "failed_add"):
            pre.append([k])
        elif k == "set_same_vertices" and lids:
            pre.append([k, r.choice(lids)])
        elif k in ("offset", "light_query") and spec["lights"]:
            pre.append([k, r.choice(spec["lights"])["id"], r.choice([0, 3, 11])])
        elif k == "remove_readd" and (dyn or spec["static"]):
            pre.append([k, r.choice(dyn + spec["static"])["id"]])
    return pre


def apply_pre(sc, pps, pre):
    import numpy as np
    for p in pre:
        with warnings.catch_warnings():
            warnings.simplefilter("ignore")
            try:
                k = p[0]
                if k == "query":
                    sc.obstacle_by_id(p[1]).occupancy_at_time(p[2])
                elif k == "translate":
                    sc.translate_rotate(np.array([p[1], p[2]]), p[3])
                    pps.translate_rotate(np.array([p[1], p[2]]), p[3])
                elif k == "assign":
                    sc.assign_obstacles_to_lanelets()
                elif k == "set_same_traj":
                    pr = sc.obstacle_by_id(p[1]).prediction
                    pr.trajectory = pr.trajectory
                elif k == "set_same_shape":
                    pr = sc.obstacle_by_id(p[1]).prediction
                    pr.shape = pr.shape
                elif k == "set_same_vertices":
                    l = sc.lanelet_network.find_lanelet_by_id(p[1])
                    l.left_vertices = l.left_vertices
                    l.center_vertices = l.center_vertices
                elif k == "light_query":
                    sc.lanelet_network.find_traffic_light_by_id(p[1]).get_state_at_time_step(p[2])
                elif k == "offset":
                    sc.lanelet_network.find_traffic_light_by_id(p[1]).traffic_light_cycle.time_offset = p[2]
                elif k == "remove_readd":
                    o = sc.obstacle_by_id(p[1])
                    sc.remove_obstacle(o)
                    sc.add_objects(o)
                elif k == "gen_id":
                    sc.generate_object_id()
                elif k == "failed_add":
                    o = (sc.static_obstacles + sc.dynamic_obstacles)[0]
                    sc.add_objects([o])              # the id is taken: ValueError; the scenario is used on afterwards
            except Exception:  # noqa  (a mutator that fails is part of the history; all three copies fail alike)
                pass


def gen_case(ctx, tiny=False, allow_draw=True, recipe=None):
    """recipe: None (free), or a directed shape that the side effects seen so far depend on"""
    r = ctx.rng
    for _ in range(200):
        spec = gen_spec(r, tiny=tiny)
        if recipe == "merge":
            # a lanelet with a successor, an obstacle registered on only one of the two, and a merge query on the first
            cand = [l for l in spec["lanelets"] if l["succ"]]
            if not cand or not (spec["static"] or spec["dynamic"]):
                continue
            l = r.choice(cand)
            where = r.choice([l["succ"][0], l["id"]])
            for o in spec["static"] + spec["dynamic"]:
                o["shape_ids"] = [where]
            ops = gen_ops(r, spec, allow_draw=allow_draw)
            q = r.choice(["merge_succ", "merge_succ", "merge_pred"])
            ops.insert(r.randint(0, len(ops)), ["lanelet_q", l["id"] if q == "merge_succ" else l["succ"][0], q, [[1.0625, 1.0625]]])
            ops.insert(r.randint(0, len(ops)), ["map_obstacles", "map", "static"])
            ops.insert(r.randint(0, len(ops)), ["lanelet_q", where, "dyn_by_time", [[r.randint(0, 80) / 16.0, 1.0]]])
            return {"spec": spec, "ops": ops}
        if recipe == "ring":
            # a network with a cycle of successor references (ring / roundabout / a route that returns to one of its own lanelets) and
            # both route-merging queries started ON the cycle, far enough to come round
            if len(spec["lanelets"]) < 2:
                continue
            if not on_cycle(spec["lanelets"]):
                spec["back_edges"] = spec.get("back_edges", []) + gen_back_edges(r, spec["lanelets"], 1)
            cyc = on_cycle(spec["lanelets"])
            if not cyc:
                continue
            ops = gen_ops(r, spec, allow_draw=allow_draw)
            for q in r.sample(["merge_succ", "merge_pred", r.choice(["merge_succ", "merge_pred"])], r.randint(2, 3)):
                op = gen_merge_op(r, r.choice(cyc), q)
                op[4] = r.choice([60.0, 150.0, 150.0])
                ops.insert(r.randint(0, len(ops)), op)
            return {"spec": spec, "ops": ops}
        if recipe == "version":
            # a scenario id that names the OLDER supported format version (what reading a 2018b file yields), exported (always in the
            # current format) through both writers and every entry point, with observers of the id in between
            spec["scenario_version"] = "2018b"
            ops = gen_ops(r, spec, allow_draw=allow_draw)
            extra = [["write_xml", r.choice(["full", "scenario"])], ["write_pb", r.choice(["full", "scenario"])],
                     ["write_x", {"fmt": "xml", "direct": r.random() < 0.5, "precision": 4, "check": False, "args": r.random() < 0.5,
                                  "location": False, "seq": r.choice([["full"], ["scenario"], ["full", "scenario"]])}],
                     ["eq", "scenario"], ["hash", "scenario"], ["scenario_id_q"], ["read_back", r.choice(["xml", "pb"]), "open"]]
            for op in r.sample(extra, r.randint(3, len(extra))):
                ops.insert(r.randint(0, len(ops)), op)
            return {"spec": spec, "ops": ops}
        if recipe == "vvy":
            d = [d for d in spec["dynamic"] if d["pred"] and d["pred"]["kind"] == "traj" and d["pred"]["cls"] == "custom-vvy"]
            if not d:
                continue
            ops = gen_ops(r, spec, allow_draw=allow_draw)
            d = r.choice(d)
            ops.insert(r.randint(0, len(ops)), r.choice([["occ", d["id"], d["pred"]["t1"] + r.randint(0, 1)], ["occset", d["id"]],
                                                         ["occs", d["pred"]["t1"], None],
                                                         ["by_interval", [-10.0, 70.0], [-5.0, 15.0], d["pred"]["t1"]]]))
            return {"spec": spec, "ops": ops}
        if isinstance(recipe, list) and recipe[0] == "inter":
            lids = [l["id"] for l in spec["lanelets"]]
            if len(lids) < 3:
                continue
            pick = r.sample(lids, min(4, len(lids)))
            a, b, c = pick[0], pick[1], pick[2]
            d = pick[3] if len(pick) > 3 else c
            spec["intersections"] = [{"id": 500, "incomings": [
                {"id": 510, "lanelets": [a], "right": [b], "straight": [c], "left": [d], "left_of": None},
                {"id": 511, "lanelets": [b], "right": [], "straight": [a], "left": [c, d] if d != c else [c], "left_of": 510}],
                "crossings": []}]
            spec["lights"] = [{"id": 400, "cycle": [[r.randrange(4), r.randint(1, 4)] for _ in range(r.randint(1, 3))], "offset": r.choice([0, 2]),
                               "pos": [_f(r, 0, 60), _f(r, 0, 8)], "active": True, "cycle_active": True, "color": None, "shape": False,
                               "direction": recipe[1], "lanelets": [a]},
                              {"id": 401, "cycle": [[3, 2], [0, 3]], "offset": 0, "pos": [_f(r, 0, 60), _f(r, 0, 8)], "active": r.random() < 0.7,
                               "cycle_active": True, "color": None, "shape": False, "direction": r.choice(ALL_DIRECTIONS), "lanelets": [b]}]
            ops = gen_ops(r, spec, allow_draw=False)
            ops.insert(r.randint(0, len(ops)), gen_draw(r, ["scenario", "both", "network"]))
            if r.random() < 0.5:
                ops.insert(r.randint(0, len(ops)), ["viz_util", "colors", r.choice([0, 1, 3])])
            return {"spec": spec, "ops": ops}
        if recipe == "unc":
            # uncertain trajectory states (position region / orientation interval) of an obstacle whose shape is off-centre, and the first
            # evaluation of its occupancies
            c = [d for d in spec["dynamic"] if d["pred"] and d["pred"]["kind"] == "traj" and d["pred"]["cls"] == "ks-unc"
                 and d["shape"][0] in ("rect", "circ", "poly") and not (d["shape"][0] in ("rect", "circ") and d["shape"][-3 if d["shape"][0] == "rect" else -2] == 0.0
                                                                         and d["shape"][-2 if d["shape"][0] == "rect" else -1] == 0.0)]
            if not c:
                continue
            d = r.choice(c)
            ops = gen_ops(r, spec, allow_draw=allow_draw)
            ops.insert(0, r.choice([["occ", d["id"], d["pred"]["t1"] + r.randint(0, len(d["pred"]["states"]) - 1)], ["occset", d["id"]],
                                    ["occs", d["pred"]["t1"], None], ["pred_q", d["id"], d["pred"]["t1"]]]))
            case = {"spec": spec, "ops": ops, "tags": ["traj:ks-unc-offcentre-queried"]}
            return case
        if recipe == "sign":
            # a real (non-virtual) speed-limit sign with a numeric value, and a rendering that shows traffic signs: through the
            # draw parameter (off by default) or by handing the signs to the renderer
            if not any(not x["virtual"] and x["elem"] in ("MAX_SPEED", "MIN_SPEED") and x["values"] for x in spec["signs"]):
                continue
            ops = gen_ops(r, spec, allow_draw=False)
            d = gen_draw(r, ["scenario", "both", "network", "signs"])
            if d[1]["what"] != "signs" and ["lanelet_network.traffic_sign.draw_traffic_signs", True] not in d[1]["flags"]:
                d[1]["flags"].append(["lanelet_network.traffic_sign.draw_traffic_signs", True])
            ops.insert(r.randint(0, len(ops)), d)
            if r.random() < 0.5:
                ops.insert(r.randint(0, len(ops)), gen_draw(r, ["signs"]))
            return {"spec": spec, "ops": ops}
        if recipe == "tbl":
            if not any(p["tbl"] and len(p["tbl"]["items"]) < len(p["goals"]) for p in spec["problems"]):
                continue
            ops = gen_ops(r, spec, allow_draw=allow_draw)
            ops.insert(r.randint(0, len(ops)), ["write_pb", "full"])
            return {"spec": spec, "ops": ops}
        if recipe == "reach":
            # a goal that constrains heading or speed, checked against scenario-owned states that carry heading and both
            # velocity components (GoalRegion._harmonize_state_types rewrites the velocity of such a state on a copy)
            d = [d for d in spec["dynamic"] if d["pred"] and d["pred"]["kind"] == "traj" and d["pred"]["cls"] == "custom-full"]
            pr = [p for p in spec["problems"] if any(a[0] in ("velocity", "orientation") for g in p["goals"] for a in g["attrs"])]
            if not d or not pr:
                continue
            ops = gen_ops(r, spec, allow_draw=allow_draw)
            for _ in range(2):
                dd = r.choice(d)
                ops.insert(r.randint(0, len(ops)), ["reached_own", r.choice(pr)["id"], dd["id"], r.choice(["state", "trajectory"]),
                                                    dd["pred"]["t1"] + r.randint(0, len(dd["pred"]["states"]) - 1)])
            return {"spec": spec, "ops": ops}
        break
    ops = gen_ops(r, spec, allow_draw=allow_draw)
    if allow_draw and not any(o[0] == "draw" for o in ops):
        ops.insert(r.randint(0, len(ops)), gen_draw(r, ["scenario", "scenario", "both", "both", "signs", "network"]))
    case = {"spec": spec, "ops": ops}
    if r.random() < 0.5:
        case["pre"] = gen_pre(r, spec)
    return case


# ------------------------------------------------------------------------------------------------ builder (public constructors)

def _np(v):
    import numpy as np
    return np.array(v, dtype=float)


def mk_shape(s):
    from commonroad.geometry.shape import Circle, Polygon, Rectangle, ShapeGroup
    if s[0] == "rect":
        return Rectangle(s[1], s[2], _np([s[3], s[4]]), s[5])
    if s[0] == "circ":
        return Circle(s[1], _np([s[2], s[3]]))
    if s[0] == "poly":
        return Polygon(_np(s[1]))
    return ShapeGroup([mk_shape(x) for x in s[1]])


def mk_value(v):
    from commonroad.common.util import AngleInterval, Interval
    if isinstance(v, list):
        if v[0] == "arr":
            return _np([v[1], v[2]])
        if v[0] == "iv":
            return Interval(v[1], v[2])
        if v[0] == "aiv":
            return AngleInterval(v[1], v[2])
        return mk_shape(v)
    return v


def mk_state(s):
    import commonroad.scenario.state as st
    cls = getattr(st, s["cls"])
    kw = {"time_step": mk_value(s["t"])}
    for k, v in s["attrs"]:
        kw[k] = mk_value(v)
    return cls(**kw)


def mk_signal(fields):
    from commonroad.scenario.state import SignalState
    return SignalState(**{k: v for k, v in fields})


def mk_occs(occs):
    from commonroad.common.util import Interval
    from commonroad.prediction.prediction import Occupancy
    return [Occupancy(Interval(o["t"][0], o["t"][1]) if isinstance(o["t"], list) else o["t"], mk_shape(o["shape"])) for o in occs]


def mk_table(tbl):
    if tbl is None:
        return None
    if tbl["kind"] == "defaultdict":
        d = collections.defaultdict(list)
    else:
        d = {}
    for k, v in tbl["items"]:
        d[k] = list(v)
    return d


def build(spec):
    """-> (Scenario, PlanningProblemSet), through the public constructors and Scenario.add_objects only."""
    import numpy as np
    from commonroad.common.common_lanelet import LaneletType, LineMarking, RoadUser, StopLine
    from commonroad.planning.goal import GoalRegion
    from commonroad.planning.planning_problem import PlanningProblem, PlanningProblemSet
    from commonroad.prediction.prediction import SetBasedPrediction, TrajectoryPrediction
    from commonroad.scenario.intersection import Intersection, IntersectionIncomingElement
    from commonroad.scenario.lanelet import Lanelet
    from commonroad.scenario.obstacle import (DynamicObstacle, EnvironmentObstacle, ObstacleType, PhantomObstacle, StaticObstacle)
    from commonroad.scenario.scenario import Environment, GeoTransformation, Location, Scenario, ScenarioID, Tag, Time, TimeOfDay, Underground, Weather
    from commonroad.scenario.state import MetaInformationState
    from commonroad.scenario.traffic_light import (TrafficLight, TrafficLightCycle, TrafficLightCycleElement, TrafficLightDirection, TrafficLightState)
    from commonroad.scenario.traffic_sign import TrafficSign, TrafficSignElement, TrafficSignIDZamunda
    from commonroad.scenario.trajectory import Trajectory

    sid = spec.get("scenario_id")
    ver = {"scenario_version": spec["scenario_version"]} if spec.get("scenario_version") else {}
    if sid is None:
        scenario_id = ScenarioID(**ver)
    else:
        scenario_id = ScenarioID(cooperative=bool(sid[6]) if len(sid) > 6 else False, country_id=sid[0], map_name=sid[1], map_id=sid[2],
                                 configuration_id=sid[3], obstacle_behavior=sid[4], prediction_id=sid[5], **ver)
    loc = None
    lspec = spec.get("location")
    if lspec is True:        # cases stored before the location arguments were varied
        lspec = {"geo_name_id": 2867714, "lat": 48.25, "lon": 11.5, "geo": ["ref", 1.0, 2.0, 0.5, 1.0], "env": [12, 15, None, None, None, "NIGHT", "FOG", "DIRTY"]}
    if lspec:
        e = lspec["env"]
        loc = Location(geo_name_id=lspec["geo_name_id"], gps_latitude=lspec["lat"], gps_longitude=lspec["lon"],
                       geo_transformation=GeoTransformation(*lspec["geo"]) if lspec["geo"] else None,
                       environment=Environment(Time(e[0], e[1], e[2], e[3], e[4]), TimeOfDay[e[5]], Weather[e[6]], Underground[e[7]]) if e else None)
    sc = Scenario(spec["dt"], scenario_id, author="A. Uthor", tags={Tag[t] for t in spec["tags"]}, affiliation="TUM", source="generated",
                  location=loc)
    mi = spec.get("map_info")
    if mi:
        from commonroad.scenario.lanelet import MapInformation
        sc.lanelet_network.information = MapInformation(mi[0], mi[1], Time(*mi[2]) if mi[2] else Time(0, 0), mi[3], mi[4], mi[5], mi[6], mi[7])
    for l in spec["lanelets"]:
        x0, y0 = 20.0 * l["col"], 4.0 * l["row"]
        xs = np.linspace(x0, x0 + 20.0, l["n"])
        bend = np.array([l["bend"] * math.sin(math.pi * i / (l["n"] - 1)) for i in range(l["n"])])
        right = np.stack([xs, y0 + bend], axis=1)
        left = np.stack([xs, y0 + 4.0 + bend], axis=1)
        center = np.stack([xs, y0 + 2.0 + bend], axis=1)
        sl = None
        if l["stop_line"]:
            refs = l.get("stop_refs", "empty")
            sign_ref = {x["id"] for x in spec["signs"]} if refs == "given" else (set() if refs == "empty" else None)
            light_ref = {x["id"] for x in spec["lights"]} if refs == "given" else (set() if refs == "empty" else None)
            sl = StopLine(np.array([x0 + 19.0, y0]), np.array([x0 + 19.0, y0 + 4.0]), LineMarking.SOLID, sign_ref, light_ref)
        sc.add_objects(Lanelet(left, center, right, l["id"], predecessor=list(l["pred"]), successor=list(l["succ"]),
                               adjacent_left=l["adj_left"][0] if l["adj_left"] else None,
                               adjacent_left_same_direction=l["adj_left"][1] if l["adj_left"] else None,
                               adjacent_right=l["adj_right"][0] if l["adj_right"] else None,
                               adjacent_right_same_direction=l["adj_right"][1] if l["adj_right"] else None,
                               line_marking_left_vertices=LineMarking[l["lm_left"]], line_marking_right_vertices=LineMarking[l["lm_right"]],
                               stop_line=sl, lanelet_type={LaneletType[t] for t in l["types"]},
                               user_one_way={RoadUser[t] for t in l["one_way"]}, user_bidirectional={RoadUser[t] for t in l["bidir"]}))
    for s in spec["signs"]:
        import commonroad.scenario.traffic_sign as _ts
        enum_cls = getattr(_ts, "TrafficSignID" + s.get("country", "Zamunda"))
        elements = [TrafficSignElement(enum_cls[s["elem"]], list(s["values"]))]
        if s.get("second"):
            elements.append(TrafficSignElement(enum_cls["MAX_SPEED"], ["22.25"]))
        sc.add_objects(TrafficSign(s["id"], elements, set(s["first"]), _np(s["pos"]), s["virtual"]), set(s["lanelets"]))
    tls = list(TrafficLightState)
    for s in spec["lights"]:
        from commonroad.geometry.shape import Rectangle as _Rect
        cyc = TrafficLightCycle([TrafficLightCycleElement(tls[a], d) for a, d in s["cycle"]], time_offset=s["offset"],
                                active=s.get("cycle_active", s["active"]))
        sc.add_objects(TrafficLight(s["id"], _np(s["pos"]), cyc, color=[tls[c] for c in s["color"]] if s.get("color") else None, active=s["active"],
                                    direction=TrafficLightDirection[s["direction"]],
                                    shape=_Rect(0.5, 1.25, _np(s["pos"]), 0.0) if s.get("shape") else None), set(s["lanelets"]))
    for a in spec.get("areas", []):
        from commonroad.scenario.area import Area, AreaBorder, AreaType
        borders = [AreaBorder(b["id"], np.array([[1.0 + i, -2.0], [9.0 + i, -2.0 - i]]), adjacent=list(b["adjacent"]) if b["adjacent"] else None,
                              line_marking=LineMarking[b["lm"]] if b["lm"] else None) for i, b in enumerate(a["borders"])]
        sc.lanelet_network.add_area(Area(a["id"], borders, {AreaType[t] for t in a["types"]}), set(a["lanelets"]))
    for s in spec["intersections"]:
        incs = [IntersectionIncomingElement(i["id"], set(i["lanelets"]), set(i["right"]), set(i["straight"]), set(i["left"]), i["left_of"])
                for i in s["incomings"]]
        sc.add_objects(Intersection(s["id"], incs, set(s["crossings"])))
    for o in spec["static"]:
        sc.add_objects(StaticObstacle(o["id"], ObstacleType[o["type"]], mk_shape(o["shape"]), mk_state(o["init"]),
                                      initial_center_lanelet_ids=set(o["center_ids"]) if o["center_ids"] is not None else None,
                                      initial_shape_lanelet_ids=set(o["shape_ids"]) if o["shape_ids"] is not None else None,
                                      initial_signal_state=mk_signal(o["init_signal"]) if o["init_signal"] else None,
                                      signal_series=[] if o["signal_series"] == [] else None))
    for o in spec["dynamic"]:
        p = o["pred"]
        pred = None
        shape = mk_shape(o["shape"])
        if p and p["kind"] == "traj":
            traj = Trajectory(p["t1"], [mk_state(s) for s in p["states"]])
            pred = TrajectoryPrediction(traj, shape,
                                        center_lanelet_assignment={k: set(v) for k, v in p["center_assign"]} if p["center_assign"] else None,
                                        shape_lanelet_assignment={k: set(v) for k, v in p["shape_assign"]} if p["shape_assign"] else None)
        elif p and p["kind"] == "set":
            pred = SetBasedPrediction(p["t1"], mk_occs(p["occs"]))
        meta = MetaInformationState({"a": "b"}, {"n": 3}, {"x": 0.5}, {"f": True}) if o["meta"] else None
        hist = [mk_state({"cls": "KSState", "t": o["init"]["t"] - 1 if o["init"]["t"] > 0 else 0,
                          "attrs": [["position", ["arr", 1.0, 2.0]], ["orientation", 0.25], ["velocity", 3.0]]})] if o["history"] else None
        sc.add_objects(DynamicObstacle(o["id"], ObstacleType[o["type"]], shape, mk_state(o["init"]), pred,
                                       initial_center_lanelet_ids=set(o["center_ids"]) if o["center_ids"] is not None else None,
                                       initial_shape_lanelet_ids=set(o["shape_ids"]) if o["shape_ids"] is not None else None,
                                       initial_signal_state=mk_signal(o["init_signal"]) if o["init_signal"] else None,
                                       signal_series=[mk_signal(f) for f in o["signal_series"]] if o["signal_series"] is not None else None,
                                       initial_meta_information_state=meta, external_dataset_id=o["external_id"], history=hist,
                                       meta_information_series=[MetaInformationState({"k": "v"}, None, None, None)] if o.get("meta_series") else None,
                                       signal_history=[mk_signal([["time_step", 0], ["horn", True]])] if o.get("signal_history") else None,
                                       center_lanelet_ids_history=[{101}, set()] if o.get("ids_history") else None,
                                       shape_lanelet_ids_history=[{100, 101}] if o.get("ids_history") else None))
    for o in spec["env"]:
        sc.add_objects(EnvironmentObstacle(o["id"], ObstacleType[o["type"]], mk_shape(o["shape"])))
    for o in spec["phantom"]:
        sc.add_objects(PhantomObstacle(o["id"], SetBasedPrediction(1, mk_occs(o["occs"])) if o["occs"] else None))
    pps = PlanningProblemSet([PlanningProblem(p["id"], mk_state(p["init"]), GoalRegion([mk_state(g) for g in p["goals"]], mk_table(p["tbl"])))
                              for p in spec["problems"]])
    return sc, pps


# ------------------------------------------------------------------------------------------------ snapshot (oracle side)

_PROPS = {}
# derived / duplicate / lazily cached accessors the snapshot does not call (see ASSUMPTIONS)
_SKIP = {("Scenario", "obstacles"), ("LaneletNetwork", "lanelet_polygons"), ("TrafficLightCycle", "cycle_init_timesteps"),
         ("Lanelet", "distance"), ("Lanelet", "inner_distance"), ("*", "shapely_object")}


def _public_props(cls):
    p = _PROPS.get(cls)
    if p is None:
        p = []
        for n in dir(cls):
            if n.startswith("_") or (cls.__name__, n) in _SKIP or ("*", n) in _SKIP:
                continue
            if isinstance(inspect.getattr_static(cls, n), property):
                p.append(n)
        _PROPS[cls] = p
    return p


_CACHED = {}


def _cached_names(cls):
    import functools
    c = _CACHED.get(cls)
    if c is None:
        c = {n for n in dir(cls) if isinstance(inspect.getattr_static(cls, n), functools.cached_property)}
        _CACHED[cls] = c
    return c


def snap(x, stack=()):
    import enum
    import numpy as np
    if x is None or isinstance(x, (bool, str)):
        return x
    if isinstance(x, (int, np.integer)) and not isinstance(x, (bool, np.bool_)):
        return int(x)
    if isinstance(x, np.bool_):
        return bool(x)
    if isinstance(x, (float, np.floating)):
        return ["f", float(x).hex()]
    if isinstance(x, enum.Enum):
        return ["E", type(x).__name__, x.name]
    if isinstance(x, np.ndarray):
        return ["nd", x.dtype.str, list(x.shape), x.tobytes().hex()]
    if id(x) in stack:
        return "<cycle>"
    stack = stack + (id(x),)
    if isinstance(x, (list, tuple)):
        return [type(x).__name__, [snap(v, stack) for v in x]]
    if isinstance(x, dict):
        return [type(x).__name__, [[snap(k, stack), snap(v, stack)] for k, v in x.items()]]
    if isinstance(x, (set, frozenset)):
        return ["set", sorted((snap(v, stack) for v in x), key=lambda v: json.dumps(v, sort_keys=True))]
    mod = type(x).__module__ or ""
    if mod.startswith("commonroad"):
        d = {"__class__": type(x).__name__}
        names = list(_public_props(type(x)))
        if hasattr(x, "__dict__"):
            keys = list(vars(x).keys())
            cached = _cached_names(type(x))
            keys = [k for k in keys if k not in cached]     # functools.cached_property stores its cache under the public name
            d["__public_attrs__"] = [k for k in keys if not k.startswith("_")]       # which public attributes exist, in order
            names += [k for k in keys if not k.startswith("_") and k not in names and (type(x).__name__, k) not in _SKIP]
        for sl in getattr(type(x), "__slots__", ()):
            if not sl.startswith("_") and sl not in names:
                names.append(sl)
        for n in names:
            try:
                v = getattr(x, n)
            except AttributeError as e:
                d[n] = ["absent"] if n in getattr(type(x), "__slots__", ()) else ["raises", type(e).__name__]
                continue
            except Exception as e:  # noqa
                d[n] = ["raises", type(e).__name__]
                continue
            d[n] = snap(v, stack)
        return d
    if mod.startswith("shapely"):
        return ["shapely", x.wkb_hex]
    return ["repr", repr(x)]


def snapshot(sc, pps):
    with warnings.catch_warnings():
        warnings.simplefilter("ignore")
        return {"scenario": snap(sc), "pps": snap(pps)}


def first_diff(a, b, path=""):
    """path (indices erased) of the first difference between two snapshots, or None"""
    if path == "" and a == b:
        return None
    if type(a) is not type(b):
        return path + f"<{type(a).__name__}->{type(b).__name__}>"
    if isinstance(a, dict):
        for k in list(a.keys()) + [k for k in b.keys() if k not in a]:
            if k not in a:
                return f"{path}.{k}<added>"
            if k not in b:
                return f"{path}.{k}<removed>"
            d = first_diff(a[k], b[k], f"{path}.{k}")
            if d:
                return d
        return None
    if isinstance(a, list):
        if len(a) != len(b):
            return path + "<len>"
        for x, y in zip(a, b):
            d = first_diff(x, y, path + ("[]" if not (a and isinstance(a[0], str)) else ""))
            if d:
                return d
        return None
    return None if a == b else path + "<value>"


# ------------------------------------------------------------------------------------------------ exports

def _writer(sc, pps, fmt):
    from commonroad.common.file_writer import CommonRoadFileWriter
    from commonroad.common.util import FileFormat
    return CommonRoadFileWriter(sc, pps, file_format=FileFormat.XML if fmt == "xml" else FileFormat.PROTOBUF)


def export(ctx, sc, pps, fmt, mode="full"):
    """-> ('ok', bytes with the date erased) | ('err', class, msg)"""
    from commonroad.common.writer.file_writer_interface import OverwriteExistingFile
    path = os.path.join(ctx.tmpdir(), f"out.{fmt}")

    def go():
        with warnings.catch_warnings(), contextlib_redirect():
            warnings.simplefilter("ignore")
            w = _writer(sc, pps, fmt)
            if mode == "full":
                w.write_to_file(path, OverwriteExistingFile.ALWAYS)
            else:
                w.write_scenario_to_file(path, OverwriteExistingFile.ALWAYS)
        data = open(path, "rb").read()
        if fmt == "xml":
            return re.sub(rb'date="[^"]*"', b'date=""', data, count=1)
        return _erase_pb_date(data)
    return call(go)


_PB_CANON = {}


def _erase_pb_date(data):
    """protobuf bytes with information.date set to a fixed value (memoised on the raw bytes: within one minute the writer
    produces identical bytes for an unchanged scenario)"""
    c = _PB_CANON.get(data)
    if c is None:
        from commonroad.scenario_definition.protobuf_format.generated_scripts import commonroad_pb2
        m = commonroad_pb2.CommonRoad()
        m.ParseFromString(data)
        m.information.date.year, m.information.date.month, m.information.date.day = 2000, 1, 1
        m.information.date.hour = m.information.date.minute = 0
        c = m.SerializeToString(deterministic=True)
        if len(_PB_CANON) > 64:
            _PB_CANON.clear()
        _PB_CANON[data] = c
    return c


_FILE_ABS = {}


def _file_abs(data, fmt):
    k = (fmt, data)
    v = _FILE_ABS.get(k)
    if v is None:
        v = file_abs_xml(data) if fmt == "xml" else file_abs_pb(data)
        if len(_FILE_ABS) > 64:
            _FILE_ABS.clear()
        _FILE_ABS[k] = v
    return v


class contextlib_redirect:
    """silence the writers' print() calls ('Replace file ...')"""

    def __enter__(self):
        import sys
        self._o = sys.stdout
        sys.stdout = io.StringIO()

    def __exit__(self, *a):
        import sys
        sys.stdout = self._o


def _digest(res):
    if res[0] == "ok":
        return ["ok", hashlib.sha1(res[1]).hexdigest(), len(res[1])]
    return ["err", res[1]]


# ------------------------------------------------------------------------------------------------ the operations

def _target(sc, pps, t):
    if t == "scenario":
        return sc
    if t == "pps":
        return pps
    if t == "net":
        return sc.lanelet_network
    if t[0] == "obstacle":
        return sc.obstacle_by_id(t[1])
    if t[0] == "problem":
        return pps.planning_problem_dict[t[1]]
    net = sc.lanelet_network
    if t[0] == "lanelet":
        return net.find_lanelet_by_id(t[1])
    if t[0] == "light":
        return net.find_traffic_light_by_id(t[1])
    if t[0] == "sign":
        return net.find_traffic_sign_by_id(t[1])
    if t[0] == "intersection":
        return net.find_intersection_by_id(t[1])
    if t[0] == "goal":
        return pps.planning_problem_dict[t[1]].goal
    o = sc.obstacle_by_id(t[1])
    return {"init_state": lambda: o.initial_state, "shape": lambda: o.obstacle_shape, "prediction": lambda: o.prediction,
            "trajectory": lambda: o.prediction.trajectory, "traj_state": lambda: o.prediction.trajectory.state_list[-1]}[t[0]]()


def _occ_out(o):
    from commonroad.common.util import Interval
    if o is None:
        return None
    ts = o.time_step
    return [ts.start, ts.end] if isinstance(ts, Interval) else int(ts)


def run_op(ctx, sc, pps, op, twin):
    """Run ONE read-only operation on the real objects. Returns a small canonical answer (used by the correspondence)."""
    import numpy as np
    from commonroad.scenario.obstacle import ObstacleRole, ObstacleType
    k = op[0]
    net = sc.lanelet_network
    if k == "occ":
        return _occ_out(sc.obstacle_by_id(op[1]).occupancy_at_time(op[2]))
    if k == "state":
        o = sc.obstacle_by_id(op[1])
        s = o.state_at_time(op[2])
        if s is None:
            return None
        if s is o.initial_state:
            return ["init"]
        sl = o.prediction.trajectory.state_list
        return ["traj", next(i for i, x in enumerate(sl) if x is s)]
    if k == "occs":
        return [_occ_out(o) for o in sc.occupancies_at_time_step(op[1], ObstacleRole[op[2]] if op[2] else None)]
    if k == "states_at":
        return sorted(sc.obstacle_states_at_time_step(op[1]).keys())
    if k == "occset":
        return [_occ_out(o) for o in sc.obstacle_by_id(op[1]).prediction.occupancy_set]
    if k == "final_time":
        ft = sc.obstacle_by_id(op[1]).prediction.final_time_step
        return str(ft)
    if k == "traj_q":
        tr = sc.obstacle_by_id(op[1]).prediction.trajectory
        out = [None if s is None else int(s.time_step) for s in tr.states_in_time_interval(op[2], op[3])] + [int(tr.final_state.time_step)]
        out.append(tr.state_at_time_step(op[2]) is not None)
        out.append(len(tr.check_state_list(tr.state_list)))
        from commonroad.scenario.trajectory import Trajectory
        n = len(tr.state_list)
        res = call(Trajectory.resample_continuous_time_state_list, tr.state_list, np.arange(n) * 0.5, 0.25, max(1, 2 * n - 1))
        out.append(len(res[1].state_list) if res[0] == "ok" else res[1])
        return out
    if k == "find_pos":
        return [sorted(int(i) for i in ids) for ids in net.find_lanelet_by_position([np.array(p) for p in op[1]])]
    if k == "find_shape":
        return sorted(int(i) for i in net.find_lanelet_by_shape(mk_shape(op[1])))
    if k == "proximity":
        return [l.lanelet_id for l in net.lanelets_in_proximity(np.array(op[1]), op[2])]
    if k == "light":
        from commonroad.scenario.traffic_light import TrafficLightState
        return list(TrafficLightState).index(net.find_traffic_light_by_id(op[1]).get_state_at_time_step(op[2]))
    if k == "reached":
        return bool(pps.planning_problem_dict[op[1]].goal.is_reached(mk_state(op[2])))
    if k == "reached_own":
        pp, o = pps.planning_problem_dict[op[1]], sc.obstacle_by_id(op[2])
        if op[3] == "state":
            return bool(pp.goal.is_reached(o.state_at_time(op[4])))
        if op[3] == "initial":
            return bool(pp.goal.is_reached(pp.initial_state))
        ok, i = pp.goal_reached(o.prediction.trajectory)
        return [bool(ok), int(i)]
    if k == "goal_reached":
        from commonroad.scenario.trajectory import Trajectory
        ok, i = pps.planning_problem_dict[op[1]].goal_reached(Trajectory(op[2], [mk_state(s) for s in op[3]]))
        return [bool(ok), int(i)]
    if k == "eq":
        a, b = _target(sc, pps, op[1]), _target(twin[0], twin[1], op[1])
        return [bool(a == a), bool(a == b), bool(b == a)]
    if k == "hash":
        return hash(_target(sc, pps, op[1])) is not None
    if k == "copy":
        c = copy.copy(_target(sc, pps, op[1]))
        _LAST["copy"] = c
        return type(c).__name__
    if k == "deepcopy":
        c = copy.deepcopy(_target(sc, pps, op[1]))
        _LAST["copy"] = c
        return type(c).__name__
    if k == "pickle":
        c = pickle.loads(pickle.dumps(_target(sc, pps, op[1])))
        _LAST["copy"] = c
        return type(c).__name__
    if k == "str":
        x = _target(sc, pps, op[1])
        return len(str(x)) >= 0 and len(repr(x)) >= 0
    if k == "draw":
        return do_draw(sc, pps, dict(op[1], dir=ctx.tmpdir()))
    if k in ("write_xml", "write_pb"):
        res = export(ctx, sc, pps, "xml" if k == "write_xml" else "pb", op[1])
        _LAST["export"] = res
        return "written" if res[0] == "ok" else "failed:" + res[1]
    if k == "by_role":
        return [o.obstacle_id for o in sc.obstacles_by_role_and_type(ObstacleRole[op[1]] if op[1] else None, ObstacleType[op[2]] if op[2] else None)]
    if k == "by_interval":
        from commonroad.common.util import Interval
        if len(op) > 4:
            return [o.obstacle_id for o in sc.obstacles_by_position_intervals([Interval(*op[1]), Interval(*op[2])],
                                                                              tuple(ObstacleRole[x] for x in op[4]), op[3])]
        return [o.obstacle_id for o in sc.obstacles_by_position_intervals([Interval(*op[1]), Interval(*op[2])], time_step=op[3])]
    if k == "signal":
        s = sc.obstacle_by_id(op[1]).signal_state_at_time_step(op[2])
        return None if s is None else int(s.time_step)
    if k == "lanelet_q":
        l = net.find_lanelet_by_id(op[1])
        q = op[2]
        if q == "contains":
            return [bool(b) for b in l.contains_points(np.array(op[3]))]
        if q == "interpolate":
            return [float(v) for v in l.interpolate_position(3.5)[0]]
        if q == "orientation":
            return float(l.orientation_by_position(np.array(op[3][0])))
        if q == "obstacles":
            t = int(op[3][0][0] * 16) % 3          # 0, 1 or 2, derived from the case
            return [o.obstacle_id for o in l.get_obstacles(sc.static_obstacles + sc.dynamic_obstacles, t)]
        if q == "succ_range":
            return l.find_lanelet_successors_in_range(net, 45.0)
        if q == "merge_succ":
            from commonroad.scenario.lanelet import Lanelet
            ls, ids = Lanelet.all_lanelets_by_merging_successors_from_lanelet(l, net, op[4] if len(op) > 4 else 60.0)
            return [ids, [_regs(m) for m in ls]]
        if q == "merge_direct":
            from commonroad.scenario.lanelet import Lanelet
            other = net.find_lanelet_by_id(int(op[3][0][0]))
            m = Lanelet.merge_lanelets(other, l) if op[3][0][1] else Lanelet.merge_lanelets(l, other)
            first = other if op[3][0][1] else l
            return [[[first.lanelet_id, (l if op[3][0][1] else other).lanelet_id]], [_regs(m)]]
        if q == "merge_pred":
            from commonroad.scenario.lanelet import Lanelet
            ls, ids = Lanelet.all_lanelets_by_merging_predecessors_from_lanelet(l, net, op[4] if len(op) > 4 else 60.0)
            return [ids, [_regs(m) for m in ls]]
        if q == "pred_range":
            return l.find_lanelet_predecessors_in_range(net, 45.0)
        if q == "dyn_by_time":
            return sorted(l.dynamic_obstacle_by_time_step(int(op[3][0][0] * 16) % 5))
        if q == "polygon":
            return len(l.polygon.vertices) + len(l.convert_to_polygon().vertices)
        if q == "distance":
            return [float(l.distance[-1]), float(l.inner_distance[-1])]
    if k == "net_copy":
        from commonroad.scenario.lanelet import LaneletNetwork
        cleanup = op[2] if len(op) > 2 else True
        if op[1] == "network":
            c = LaneletNetwork.create_from_lanelet_network(net, cleanup_ids=cleanup)
        elif op[1] == "shape":
            c = LaneletNetwork.create_from_lanelet_network(net, mk_shape(["rect", 30.0, 6.0, 20.0, 2.0, 0.0]), cleanup_ids=cleanup)
        elif op[1] == "exclude":
            from commonroad.common.common_lanelet import LaneletType
            c = LaneletNetwork.create_from_lanelet_network(net, exclude_lanelet_types={LaneletType.URBAN}, cleanup_ids=cleanup)
        else:
            c = LaneletNetwork.create_from_lanelet_list(net.lanelets, cleanup_ids=cleanup)
        return sorted(l.lanelet_id for l in c.lanelets)
    if k in NEW_KINDS:
        return run_new_op(ctx, sc, pps, op)
    if k == "most_likely":
        from commonroad.scenario.state import KSState
        sts = [KSState(time_step=0, position=np.array([a, b]), orientation=c) for a, b, c in op[1]]
        return [int(i) for i in net.find_most_likely_lanelet_by_state(sts)]
    if k == "map_obstacles":
        obs = sc.static_obstacles + (sc.dynamic_obstacles if len(op) > 2 and op[2] == "all" else [])
        if op[1] == "map":
            return {str(a): [o.obstacle_id for o in b] for a, b in net.map_obstacles_to_lanelets(obs).items()}
        return [o.obstacle_id for o in net.filter_obstacles_in_network(obs)]
    raise ValueError(f"unknown op {op}")


def _owned_state(sc, pps, owner):
    if owner[0] == "init":
        return sc.obstacle_by_id(owner[1]).initial_state
    if owner[0] == "traj":
        return sc.obstacle_by_id(owner[1]).prediction.trajectory.state_list[owner[2]]
    return pps.planning_problem_dict[owner[1]].initial_state


def _owned_shape(sc, pps, owner):
    if owner[0] == "obstacle":
        return sc.obstacle_by_id(owner[1]).obstacle_shape
    if owner[0] == "goal":
        return pps.planning_problem_dict[owner[1]].goal.state_list[owner[2]].position
    if owner[0] == "occupancy":
        return sc.obstacle_by_id(owner[1]).prediction.occupancy_set[0].shape
    return sc.lanelet_network.find_lanelet_by_id(owner[1]).polygon


def run_new_op(ctx, sc, pps, op):
    """the read-only entry points added by the generator audit; all of them are `reads` for the model"""
    import numpy as np
    k = op[0]
    net = sc.lanelet_network
    if k == "net_find":
        w, i = op[1], op[2]
        if w == "area":
            x = net.find_area_by_id(i)
            return None if x is None else x.area_id
        if w == "intersection":
            x = net.find_intersection_by_id(i)
            return None if x is None else x.intersection_id
        if w == "sign":
            x = net.find_traffic_sign_by_id(i)
            return None if x is None else x.traffic_sign_id
        if w == "sign_refs":
            return sorted(l.lanelet_id for l in net.get_traffic_sign_referenced_lanelets(i))
        if w == "light_refs":
            return sorted(l.lanelet_id for l in net.get_traffic_lights_referenced_lanelets(i))
        return [len(p.vertices) for p in net.lanelet_polygons]
    if k == "pred_q":
        pr = sc.obstacle_by_id(op[1]).prediction
        return [_occ_out(pr.occupancy_at_time_step(op[2])), int(pr.initial_time_step), str(pr.final_time_step)]
    if k == "state_q":
        st = _owned_state(sc, pps, op[1])
        q = op[2]
        if q == "has_value":
            return [st.has_value(n) for n in ("position", "orientation", "velocity", "velocity_y", "jerk")]
        if q == "convert":
            from commonroad.scenario.state import KSState, PMState
            return [sorted(st.convert_state_to_state(KSState()).used_attributes), sorted(st.convert_state_to_state(PMState()).used_attributes)]
        if q == "array":
            return [repr(float(x)) for x in np.array(st, dtype=object).tolist()] if type(st).__name__ != "CustomState" else len(st.attributes)
        if q == "occupancy_shape":
            from commonroad.geometry.shape import Rectangle, occupancy_shape_from_state
            return type(occupancy_shape_from_state(Rectangle(4.0, 2.0), st)).__name__
        if q == "translate":
            return sorted(st.translate_rotate(np.array([1.0, -2.0]), 0.5).used_attributes)
        return do_draw(sc, pps, {"dir": ctx.tmpdir(), "what": "states", "owner": op[1], "tb": 0, "te": 2, "occ": False, "traj": False, "icon": False, "init": False,
                                 "hist": False, "flags": [["state.draw_arrow", True]]})
    if k == "pps_find":
        return pps.find_planning_problem_by_id(op[1]).planning_problem_id
    if k == "cycle_q":
        cyc = net.find_traffic_light_by_id(op[1]).traffic_light_cycle
        if op[3] == "state":
            return cyc.get_state_at_time_step(op[2]).name
        return [int(x) for x in cyc.cycle_init_timesteps]
    if k == "shape_q":
        from commonroad.geometry.shape import ShapeGroup
        sh = _owned_shape(sc, pps, op[1])
        q = op[2]
        if q == "contains":
            return bool(sh.contains_point(np.array(op[3])))
        if q == "shapely":
            parts = sh.shapes if isinstance(sh, ShapeGroup) else [sh]
            return [round(p.shapely_object.area, 6) for p in parts]
        if q == "translate":
            return type(sh.translate_rotate(np.array([2.0, 1.0]), 0.25)).__name__
        if q == "local":
            return type(sh.rotate_translate_local(np.array([2.0, 1.0]), 0.25)).__name__
        if q == "attrs":
            return [n for n in ("center", "vertices", "length", "width", "orientation", "radius", "shapes") if getattr(sh, n, None) is not None]
        return do_draw(sc, pps, {"dir": ctx.tmpdir(), "what": "shape", "owner": op[1], "tb": 0, "te": 2, "occ": False, "traj": False, "icon": False, "init": False,
                                 "hist": False, "flags": []})
    if k == "interval_q":
        from commonroad.common.util import AngleInterval, Interval
        out = []
        for g in pps.planning_problem_dict[op[1]].goal.state_list:
            for n in g.used_attributes:
                iv = getattr(g, n)
                if isinstance(iv, AngleInterval):
                    out.append([n, {"contains": lambda: bool(iv.contains(max(-6.0, min(6.0, op[2])))), "overlaps": lambda: bool(iv.overlaps(AngleInterval(0.0, 1.0))),
                                    "intersection": lambda: str(iv.intersection(AngleInterval(-1.0, 1.0)))}[op[3]]()])
                elif isinstance(iv, Interval):
                    out.append([n, {"contains": lambda: bool(iv.contains(op[2])), "overlaps": lambda: bool(iv.overlaps(Interval(0, 5))),
                                    "intersection": lambda: str(iv.intersection(Interval(0, 100)))}[op[3]]()])
        return out
    if k == "sign_interp":
        from commonroad.scenario.traffic_sign import SupportedTrafficSignCountry
        from commonroad.scenario.traffic_sign_interpreter import TrafficSignInterpreter
        ti = TrafficSignInterpreter(SupportedTrafficSignCountry[op[1]], net)
        ids = frozenset(op[2])
        return [_canon_out(ti.speed_limit(ids)), _canon_out(ti.required_speed(ids))]
    if k == "viz_util":
        from commonroad.visualization.util import approximate_bounding_box_dyn_obstacles, collect_center_line_colors
        if op[1] == "bbox":
            b = approximate_bounding_box_dyn_obstacles(sc.dynamic_obstacles, op[2])
            return None if b is None else _canon_out([[float(x) for x in part] for part in b])
        return {str(a): b.name for a, b in collect_center_line_colors(net, net.traffic_lights, op[2]).items()}
    if k == "read_back":
        from commonroad.common.file_reader import CommonRoadFileReader
        res = export(ctx, sc, pps, op[1])
        if res[0] != "ok":
            return "not-written:" + res[1]
        path = os.path.join(ctx.tmpdir(), f"out.{op[1]}")
        rd = CommonRoadFileReader(path)
        if op[2] == "network":
            return len(rd.open_lanelet_network().lanelets)
        sc2, pps2 = rd.open(lanelet_assignment=(op[2] == "open_assign"))
        return [len(sc2.obstacles), len(pps2.planning_problem_dict)]
    if k == "write_x":
        return do_write_x(ctx, sc, pps, op[1])
    if k == "scenario_id_q":
        from commonroad.scenario.scenario import ScenarioID
        sid = sc.scenario_id
        return [str(sid), str(ScenarioID.from_benchmark_id(str(sid), sid.scenario_version)), sid.country_name, str(sid.prediction_type)]
    raise ValueError(f"unknown op {op}")


def do_write_x(ctx, sc, pps, p):
    """the writers through their other entry points: the format classes themselves, explicit header arguments, another decimal
    precision, check_validity, and ONE writer object used for several writes (to_file / scenario_to_file, SKIP on an existing file)"""
    from commonroad.common.file_writer import CommonRoadFileWriter
    from commonroad.common.util import FileFormat
    from commonroad.common.writer.file_writer_interface import OverwriteExistingFile
    from commonroad.common.writer.file_writer_protobuf import ProtobufFileWriter
    from commonroad.common.writer.file_writer_xml import XMLFileWriter
    from commonroad.scenario.scenario import Location, Tag
    kw = {"decimal_precision": p["precision"]}
    if p["args"]:
        kw.update(author="Somebody Else", affiliation="Elsewhere", source="hand", tags={Tag.HIGHWAY})
    if p["location"]:
        kw["location"] = Location()
    with warnings.catch_warnings(), contextlib_redirect():
        warnings.simplefilter("ignore")
        try:
            if p["direct"]:
                w = (XMLFileWriter if p["fmt"] == "xml" else ProtobufFileWriter)(sc, pps, **kw)
            else:
                w = CommonRoadFileWriter(sc, pps, file_format=FileFormat.XML if p["fmt"] == "xml" else FileFormat.PROTOBUF, **kw)
            out = []
            seen = {}
            path = os.path.join(ctx.tmpdir(), f"x.{p['fmt']}")

            def make():
                if p["direct"]:
                    return (XMLFileWriter if p["fmt"] == "xml" else ProtobufFileWriter)(sc, pps, **kw)
                return CommonRoadFileWriter(sc, pps, file_format=FileFormat.XML if p["fmt"] == "xml" else FileFormat.PROTOBUF, **kw)

            def content(q):
                data = open(q, "rb").read()
                return re.sub(rb'date="[^"]*"', b'date=""', data, count=1) if p["fmt"] == "xml" else _erase_pb_date(data)
            for n, how in enumerate(p["seq"]):
                if how == "full":
                    w.write_to_file(path, OverwriteExistingFile.ALWAYS, check_validity=p["check"])
                elif how == "skip":
                    w.write_to_file(path, OverwriteExistingFile.SKIP)
                else:
                    w.write_scenario_to_file(path, OverwriteExistingFile.ALWAYS)
                out.append(os.path.getsize(path) > 0)
                if how != "skip":
                    # ONE writer object exporting the (unchanged) scenario again: the export after the earlier write -- itself a
                    # read-only operation -- must be the file the same entry point produced before (date aside)
                    data = open(path, "rb").read()
                    data = re.sub(rb'date="[^"]*"', b'date=""', data, count=1) if p["fmt"] == "xml" else _erase_pb_date(data)
                    first = seen.setdefault(how, data)
                    if first != data:
                        _LAST.setdefault("write_x_diff", []).append(f"{p['fmt']}:{how}")
                if how != "skip" and "reuse_diff" not in _LAST:
                    # oracle: an export is a read-only operation on the writer's scenario too -- what a writer that has exported
                    # before writes is what a new writer writes through the same entry point
                    fresh = os.path.join(ctx.tmpdir(), f"fresh.{p['fmt']}")
                    if how == "full":
                        make().write_to_file(fresh, OverwriteExistingFile.ALWAYS)
                    else:
                        make().write_scenario_to_file(fresh, OverwriteExistingFile.ALWAYS)
                    a, b = content(path), content(fresh)
                    if a != b:
                        _LAST["reuse_diff"] = [n, how, len(b), len(a)]
            return out
        finally:
            # the decimal precision is process-wide in the writers: put the default back for the oracle's own exports
            from commonroad.common.writer import file_writer_interface as fwi
            fwi.precision.decimals = 4


def _regs(l):
    return [sorted(int(x) for x in l.static_obstacles_on_lanelet),
            sorted([int(t), sorted(int(x) for x in ids)] for t, ids in l.dynamic_obstacles_on_lanelet.items())]


def do_draw(sc, pps, p):
    import matplotlib
    matplotlib.use("Agg")
    import matplotlib.pyplot as plt
    from commonroad.visualization.draw_params import MPDrawParams
    from commonroad.visualization.mp_renderer import MPRenderer
    fig, ax = plt.subplots(figsize=(2, 1.2), dpi=40)
    try:
        dp = MPDrawParams()
        dp.time_begin = p["tb"]
        dp.time_end = p["te"]
        dp.dynamic_obstacle.occupancy.draw_occupancies = p["occ"]
        dp.dynamic_obstacle.trajectory.draw_trajectory = p["traj"]
        dp.dynamic_obstacle.draw_icon = p["icon"]
        dp.dynamic_obstacle.draw_initial_state = p["init"]
        dp.dynamic_obstacle.history.draw_history = p["hist"]
        dp.phantom_obstacle.occupancy.draw_occupancies = p["occ"]
        for path, val in p.get("flags", []):
            obj = dp
            *head, last = path.split(".")
            for part in head:
                obj = getattr(obj, part)
            setattr(obj, last, val)
        focus = sc.obstacle_by_id(p["focus"]) if p.get("focus") is not None else None
        rnd = MPRenderer(ax=ax, draw_params=dp, plot_limits=p.get("limits"), focus_obstacle=focus)
        what = p["what"]

        def draw_once():
            if what in ("scenario", "both"):
                sc.draw(rnd)
            if what in ("pps", "both"):
                pps.draw(rnd)
            # single objects handed to the renderer (a sign or light drawn directly is rendered whatever draw_traffic_signs says)
            if what == "signs":
                for x in sc.lanelet_network.traffic_signs:
                    x.draw(rnd)
            if what == "lights":
                for x in sc.lanelet_network.traffic_lights:
                    x.draw(rnd)
            if what == "network":
                sc.lanelet_network.draw(rnd)
            if what == "obstacles":
                for x in sc.obstacles:
                    x.draw(rnd)
            if what == "goal":
                for pp in pps.planning_problem_dict.values():
                    pp.goal.draw(rnd)
                    pp.initial_state.draw(rnd)
            if what == "trajectories":
                trs = [o.prediction.trajectory for o in sc.dynamic_obstacles if hasattr(o.prediction, "trajectory")]
                rnd.draw_trajectories(trs)
                for t in trs:
                    t.draw(rnd)
            if what == "list":
                rnd.draw_list([sc, pps] + sc.obstacles)
            if what == "states":
                _owned_state(sc, pps, p["owner"]).draw(rnd)
            if what == "shape":
                _owned_shape(sc, pps, p["owner"]).draw(rnd)
        if p.get("video"):
            # create_video draws and renders frame by frame with its own copies of the parameters
            rnd.create_video([sc, pps] if what == "both" else [sc], os.path.join(p["dir"], "v.gif"), delta_time_steps=1, plotting_horizon=p["te"] - p["tb"],
                             draw_params=dp if p["video"] == "params" else None, fig_size=[2, 1.2], dt=100, dpi=30, progress=False)
            return True
        draw_once()
        rnd.render(filename=os.path.join(p["dir"], "frame.png") if p.get("file") else None, keep_static_artists=bool(p.get("keep")))
        # the SAME renderer used again: dynamic part only, then a complete second drawing
        for again in range(p.get("reuse", 0)):
            if again == 0:
                rnd.remove_dynamic()
                rnd.render_dynamic()
            draw_once()
            rnd.render(keep_static_artists=bool(p.get("keep")))
            rnd.clear(keep_static_artists=bool(p.get("keep")))
        return True
    finally:
        plt.close(fig)


# ------------------------------------------------------------------------------------------------ correspondence (model side)

class Intern:
    """value -> small integer token (equal canonical snapshot <=> equal token)"""

    def __init__(self):
        self.t = {}

    def tok(self, v):
        k = json.dumps(snap(v), sort_keys=True)
        return self.t.setdefault(k, len(self.t))

    def tok_snap(self, sv):
        """token of a value that is already a snapshot"""
        k = json.dumps(sv, sort_keys=True)
        return self.t.setdefault(k, len(self.t))


def lanelet_ring(l):
    """polygon ring of a generated lanelet (right boundary, then the left one backwards), exact rationals"""
    import numpy as np
    from common import frac
    x0, y0 = 20.0 * l["col"], 4.0 * l["row"]
    xs = np.linspace(x0, x0 + 20.0, l["n"])
    bend = np.array([l["bend"] * math.sin(math.pi * i / (l["n"] - 1)) for i in range(l["n"])])
    right = np.stack([xs, y0 + bend], axis=1)
    left = np.stack([xs, y0 + 4.0 + bend], axis=1)
    return [(frac(a), frac(b)) for a, b in list(right) + list(left[::-1])]


def point_cells(spec, points):
    """lanelet id -> tokens (indices into `points`) of the query points inside its polygon; None for a point within 1e-6
    of a boundary (the STRtree answer there depends on float rounding: such a query is left out of the correspondence)"""
    from fractions import Fraction
    from common import frac
    import geom
    cells = {l["id"]: [] for l in spec["lanelets"]}
    ambiguous = set()
    for i, p in enumerate(points):
        q = (frac(p[0]), frac(p[1]))
        for l in spec["lanelets"]:
            inside, d2 = geom.point_in_ring(q, lanelet_ring(l))
            if d2 <= Fraction(1, 10 ** 12):
                ambiguous.add(i)
            elif inside:
                cells[l["id"]].append(i)
    return cells, ambiguous


def _has_ori_prop(s):
    return isinstance(inspect.getattr_static(type(s), "orientation", None), property)


def abs_state(s, I):
    return {"t": int(s.time_step), "op": _has_ori_prop(s),
            "a": [[n, None if getattr(s, n) is None else I.tok(getattr(s, n))] for n in s.attributes if n != "time_step"]}


def abs_pred(p, I):
    from commonroad.common.util import Interval
    from commonroad.prediction.prediction import SetBasedPrediction, TrajectoryPrediction
    if p is None:
        return None
    if isinstance(p, SetBasedPrediction):
        occs = []
        for o in p.occupancy_set:
            ts = o.time_step
            lo, hi = (int(ts.start), int(ts.end)) if isinstance(ts, Interval) else (int(ts), int(ts))
            occs.append([lo, hi, I.tok(o.shape)])
        return {"k": "set", "occs": occs}
    assert isinstance(p, TrajectoryPrediction)
    return {"k": "traj", "t1": int(p.trajectory.initial_time_step), "shape": I.tok(p.shape),
            "states": [abs_state(x, I) for x in p.trajectory.state_list], "cache": "occupancy_set" in getattr(p, "__dict__", {})}


_MODELLED = {
    "Scenario": {"lanelet_network", "dynamic_obstacles", "static_obstacles", "environment_obstacle", "phantom_obstacle"},
    "obstacle": {"initial_state", "prediction", "obstacle_id"},
    "prediction": {"trajectory", "occupancy_set"},
    "trajectory": {"state_list", "final_state"},
    "LaneletNetwork": {"lanelets", "traffic_signs", "traffic_lights", "intersections"},
    "Lanelet": {"lanelet_id", "successor", "predecessor", "static_obstacles_on_lanelet", "dynamic_obstacles_on_lanelet", "traffic_lights"},
    "TrafficSign": {"traffic_sign_id"},
    "TrafficLight": {"traffic_light_id", "traffic_light_cycle", "active"},
    "TrafficLightCycle": {"cycle_elements", "time_offset"},
    "Intersection": {"intersection_id"},
}


def _attrs(d, modelled, I, prefix=""):
    """[[name, token]] of the public attributes of a snapshotted object that the model does not hold in structured form"""
    return [[prefix + k, I.tok_snap(v)] for k, v in d.items() if k not in modelled and k != "__class__"]


def extras(S, I):
    """CR.Frame.Extra of a snapshot: one content token per remaining public attribute"""
    sd = S["scenario"]
    nd = sd["lanelet_network"]
    obstacles = []
    for key in ("static_obstacles", "dynamic_obstacles", "phantom_obstacle", "environment_obstacle"):
        for d in sd[key][1]:
            a = _attrs(d, _MODELLED["obstacle"], I)
            p = d.get("prediction")
            if isinstance(p, dict):
                a += _attrs(p, _MODELLED["prediction"], I, "prediction.")
                t = p.get("trajectory")
                if isinstance(t, dict):
                    a += _attrs(t, _MODELLED["trajectory"], I, "prediction.trajectory.")
            obstacles.append([d["obstacle_id"], a])
    lights = []
    for d in nd["traffic_lights"][1]:
        a = _attrs(d, _MODELLED["TrafficLight"], I)
        c = d.get("traffic_light_cycle")
        if isinstance(c, dict):
            a += _attrs(c, _MODELLED["TrafficLightCycle"], I, "traffic_light_cycle.")
        lights.append([d["traffic_light_id"], a])
    return {"scenario": _attrs(sd, _MODELLED["Scenario"], I), "network": _attrs(nd, _MODELLED["LaneletNetwork"], I),
            "obstacles": obstacles,
            "lanelets": [[d["lanelet_id"], _attrs(d, _MODELLED["Lanelet"], I)] for d in nd["lanelets"][1]],
            "signs": [[d["traffic_sign_id"], _attrs(d, _MODELLED["TrafficSign"], I)] for d in nd["traffic_signs"][1]],
            "lights": lights,
            "intersections": [[d["intersection_id"], _attrs(d, _MODELLED["Intersection"], I)] for d in nd["intersections"][1]]}


def abstract(sc, pps, I, cells, S=None):
    """the abstract state CR.Frame.St of the real objects (hidden cache flags read from the private slots); S: a snapshot of
    (sc, pps) taken at the same moment, if there is one (the extras are read from it)"""
    from commonroad.scenario.obstacle import DynamicObstacle, EnvironmentObstacle, PhantomObstacle, StaticObstacle
    from commonroad.scenario.traffic_light import TrafficLightState
    if S is None:
        S = snapshot(sc, pps)
    obs = []
    for o in sc.obstacles:
        if isinstance(o, StaticObstacle):
            obs.append({"k": "static", "id": o.obstacle_id, "init": abs_state(o.initial_state, I), "shape": I.tok(o.obstacle_shape)})
        elif isinstance(o, DynamicObstacle):
            obs.append({"k": "dynamic", "id": o.obstacle_id, "init": abs_state(o.initial_state, I), "shape": I.tok(o.obstacle_shape),
                        "pred": abs_pred(o.prediction, I)})
        elif isinstance(o, PhantomObstacle):
            obs.append({"k": "phantom", "id": o.obstacle_id, "pred": abs_pred(o.prediction, I)})
        else:
            assert isinstance(o, EnvironmentObstacle)
            obs.append({"k": "env", "id": o.obstacle_id, "shape": I.tok(o.obstacle_shape)})
    net = sc.lanelet_network
    tls = list(TrafficLightState)
    lights = [[l.traffic_light_id, [[tls.index(e.state), int(e.duration)] for e in l.traffic_light_cycle.cycle_elements],
               int(l.traffic_light_cycle.time_offset), hasattr(l.traffic_light_cycle, "_cycle_init_timesteps"), bool(l.active)]
              for l in net.traffic_lights]
    problems = []
    for pid, p in pps.planning_problem_dict.items():
        t = p.goal.lanelets_of_goal_position
        problems.append([pid, abs_state(p.initial_state, I), [[[n, I.tok(getattr(g, n))] for n in g.used_attributes] for g in p.goal.state_list],
                         None if t is None else ["defaultdict" if isinstance(t, collections.defaultdict) else "dict",
                                                 [[int(k), [int(x) for x in v]] for k, v in t.items()]]])
    return {"obstacles": obs,
            "net": {"lanelets": [[l.lanelet_id, cells.get(l.lanelet_id, []), [int(x) for x in l.successor], [int(x) for x in l.predecessor],
                                  sorted(int(x) for x in l.static_obstacles_on_lanelet),
                                  [[int(t), sorted(int(x) for x in ids)] for t, ids in l.dynamic_obstacles_on_lanelet.items()],
                                  sorted(int(x) for x in l.traffic_lights)]
                                 for l in net.lanelets], "index": getattr(net, "_strtee", None) is not None},
            "lights": lights, "problems": problems, "extra": extras(S, I)}


def _xml_tag(attr):
    """own copy of the attribute-name -> XML tag rule (file_writer_xml.py:967-982)"""
    special = {"time_step": "time", "delta_y_f": "deltaYFront", "delta_y_r": "deltaYRear", "curvature_rate": "curvatureChange"}
    if attr in special:
        return special[attr]
    parts = attr.split("_")
    return parts[0] + "".join(x[:1].upper() + x[1:] for x in parts[1:])


_TL_VALUES = ["red", "yellow", "redYellow", "green", "inactive"]      # TrafficLightState values in declaration order


def file_abs_xml(data):
    """what the model's FileAbs shows, read back from the XML bytes"""
    from lxml import etree
    root = etree.fromstring(data)
    obstacles, problems = [], []
    problem_states, lanelets, lights, signs, intersections = [], [], [], [], []

    def tags(node):
        return [c.tag for c in node if c.tag != "time"]

    def occ_times(node):
        out = []
        for o in node.findall("occupancy"):
            t = o.find("time")
            if t.find("exact") is not None:
                v = int(t.find("exact").text)
                out.append([v, v])
            else:
                out.append([int(t.find("intervalStart").text), int(t.find("intervalEnd").text)])
        return out
    for node in root:
        if node.tag in ("staticObstacle", "dynamicObstacle"):
            init = node.find("initialState")
            tr = node.find("trajectory")
            oc = node.find("occupancySet")
            obstacles.append([int(node.get("id")), tags(init),
                              [[int(st.find("time/exact").text), tags(st)] for st in tr.findall("state")] if tr is not None else [],
                              occ_times(oc) if oc is not None else []])
        elif node.tag in ("phantomObstacle", "environmentObstacle"):
            oc = node.find("occupancySet")
            obstacles.append([int(node.get("id")), [], [], occ_times(oc) if oc is not None else []])
        elif node.tag == "planningProblem":
            goals = []
            for g in node.findall("goalState"):
                pos = g.find("position")
                goals.append([int(x.get("ref")) for x in pos.findall("lanelet")] if pos is not None else [])
            problems.append([int(node.get("id")), goals])
            problem_states.append([int(node.get("id")), tags(node.find("initialState")), [[c.tag for c in g] for g in node.findall("goalState")]])
        elif node.tag == "lanelet":
            lanelets.append([int(node.get("id")), [int(x.get("ref")) for x in node.findall("successor")],
                             [int(x.get("ref")) for x in node.findall("predecessor")],
                             sorted(int(x.get("ref")) for x in node.findall("trafficLightRef"))])
        elif node.tag == "trafficLight":
            cyc = node.find("cycle")
            off = cyc.find("timeOffset") if cyc is not None else None
            lights.append([int(node.get("id")),
                           [[_TL_VALUES.index(e.find("color").text), int(e.find("duration").text)] for e in cyc.findall("cycleElement")],
                           int(off.text) if off is not None else 0])
        elif node.tag == "trafficSign":
            signs.append(int(node.get("id")))
        elif node.tag == "intersection":
            intersections.append(int(node.get("id")))
    return {"obstacles": obstacles, "problems": problems, "problem_states": problem_states, "lanelets": lanelets, "lights": lights,
            "signs": signs, "intersections": intersections}


def file_abs_pb(data):
    from commonroad.scenario_definition.protobuf_format.generated_scripts import commonroad_pb2
    m = commonroad_pb2.CommonRoad()
    m.ParseFromString(data)

    def names(st):
        out = []
        for f, _ in st.ListFields():
            if f.name == "time_step":
                continue
            out.append("position" if f.name in ("point", "shape") else f.name)
        return sorted(out)
    obstacles = []
    for o in m.static_obstacles:
        obstacles.append([o.static_obstacle_id, names(o.initial_state), []])
    for o in m.dynamic_obstacles:
        obstacles.append([o.dynamic_obstacle_id, names(o.initial_state),
                          [[s.time_step.exact, names(s)] for s in o.trajectory_prediction.trajectory.states]
                          if o.HasField("trajectory_prediction") else []])
    for o in m.phantom_obstacles:
        obstacles.append([o.obstacle_id, [], []])
    for o in m.environment_obstacles:
        obstacles.append([o.environment_obstacle_id, [], []])
    problems = [[p.planning_problem_id, [list(g.goal_position_lanelets) for g in p.goal_states]] for p in m.planning_problems]
    return {"obstacles": obstacles, "problems": problems,
            "lanelets": [[l.lanelet_id, list(l.successors), list(l.predecessors)] for l in m.lanelets],
            "lights": [l.traffic_light_id for l in m.traffic_lights], "signs": [x.traffic_sign_id for x in m.traffic_signs],
            "intersections": [x.intersection_id for x in m.intersections]}


def _model_file(f, fmt):
    """model FileAbs (attribute names) in the shape of file_abs_xml / file_abs_pb"""
    if fmt == "xml":
        return {"obstacles": [[i, [_xml_tag(n) for n in init], [[t, [_xml_tag(n) for n in a]] for t, a in states], occs]
                              for i, init, states, occs in f["obstacles"]], "problems": f["problems"],
                "problem_states": [[i, [_xml_tag(n) for n in init], [[_xml_tag(n) for n in g] for g in goals]]
                                   for i, init, goals in f["problem_states"]] if f["problems"] else [],
                "lanelets": [[i, su, pr, sorted(li)] for i, su, pr, li in f["lanelets"]],
                "lights": [[i, es, off if off > 0 else 0] for i, es, off in f["lights"]],
                "signs": f["signs"], "intersections": f["intersections"]}
    return {"obstacles": [[i, sorted(init), [[t, sorted(a)] for t, a in states]] for i, init, states, occs in f["obstacles"]],
            "problems": f["problems"], "lanelets": [[i, su, pr] for i, su, pr, li in f["lanelets"]], "lights": [i for i, es, off in f["lights"]],
            "signs": f["signs"], "intersections": f["intersections"]}


class Spy:
    """records which hidden caches an operation fills: TrajectoryPrediction._create_occupancy_set calls (by prediction
    object) and TrafficLightCycle.cycle_init_timesteps reads (by cycle object).  The model's `reads` operation replays them."""

    def __init__(self, sc):
        self.sc = sc

    def __enter__(self):
        from commonroad.prediction.prediction import TrajectoryPrediction
        from commonroad.scenario.traffic_light import TrafficLightCycle
        self._preds, self._cycles = [], []
        self.occ, self.light = [], []
        self._orig_create = TrajectoryPrediction.__dict__.get("_create_occupancy_set")
        self._orig_prop = TrafficLightCycle.__dict__.get("cycle_init_timesteps")
        spy = self
        orig_create, orig_prop = self._orig_create, self._orig_prop
        if callable(orig_create):
            def _create_occupancy_set(self):
                spy._preds.append(id(self))
                return orig_create(self)
            TrajectoryPrediction._create_occupancy_set = _create_occupancy_set
        if isinstance(orig_prop, property):
            def cycle_init_timesteps(self):
                spy._cycles.append(id(self))
                return orig_prop.fget(self)
            TrafficLightCycle.cycle_init_timesteps = property(cycle_init_timesteps)
        return self

    def __exit__(self, *a):
        from commonroad.prediction.prediction import TrajectoryPrediction
        from commonroad.scenario.traffic_light import TrafficLightCycle
        if callable(self._orig_create):
            TrajectoryPrediction._create_occupancy_set = self._orig_create
        if isinstance(self._orig_prop, property):
            TrafficLightCycle.cycle_init_timesteps = self._orig_prop
        by_pred = {id(o.prediction): o.obstacle_id for o in self.sc.dynamic_obstacles + self.sc.phantom_obstacle if o.prediction is not None}
        by_cycle = {id(l.traffic_light_cycle): l.traffic_light_id for l in self.sc.lanelet_network.traffic_lights}
        self.occ = [by_pred[i] for i in self._preds if i in by_pred]
        self.light = [by_cycle[i] for i in self._cycles if i in by_cycle]


def goal_decisions(pp, state):
    """per goal state: does `state` reach a goal region made of (a copy of) that goal state alone?  (the decision itself is
    C08's subject; here it is a parameter of the model)"""
    from commonroad.planning.goal import GoalRegion
    out = []
    for g in pp.goal.state_list:
        with warnings.catch_warnings():
            warnings.simplefilter("ignore")
            r = call(lambda: GoalRegion([copy.deepcopy(g)]).is_reached(copy.deepcopy(state)))
        out.append(bool(r[1]) if r[0] == "ok" else {"err": r[1]})
    return out


def _target_json(t):
    return t if isinstance(t, str) else [t[0], t[1]]


def _intersects(lanelet, occ):
    from commonroad.geometry.shape import ShapeGroup
    sh = occ.shape
    parts = sh.shapes if isinstance(sh, ShapeGroup) else [sh]
    lp = lanelet.polygon.shapely_object
    return any(lp.intersects(x.shapely_object) for x in parts)


def _rel(twin_sc, lanelets, obstacles, t):
    """(lanelet id, obstacle id) pairs whose polygons intersect at time t — evaluated on the untouched twin, directly with
    shapely (the geometric predicate is a parameter of the model)"""
    rel = []
    for o in obstacles:
        with warnings.catch_warnings():
            warnings.simplefilter("ignore")
            r = call(twin_sc.obstacle_by_id(o.obstacle_id).occupancy_at_time, t)
        if r[0] != "ok" or r[1] is None:
            continue
        for l in lanelets:
            if _intersects(twin_sc.lanelet_network.find_lanelet_by_id(l.lanelet_id), r[1]):
                rel.append([l.lanelet_id, o.obstacle_id])
    return rel


def model_op(op, P, spy, env):
    """harness operation -> (model operation, how to compare its answer).  env: sc, pps, twin, I (interning), S (shape tokens)"""
    sc, pps, twin, I = env["sc"], env["pps"], env["twin"], env["I"]
    k = op[0]
    if k == "occ":
        return ["occ", op[1], op[2]], "occ"
    if k == "state":
        return ["state", op[1], op[2]], "same"
    if k == "occs":
        return ["occs", op[1], op[2]], "occs"
    if k == "states_at":
        return ["statesAt", op[1]], "sorted"
    if k == "occset":
        return ["occSet", op[1]], "occs"
    if k == "find_pos":
        toks = [P.index(tuple(p)) for p in op[1]]
        return ["findPos", toks], "find_pos"
    if k == "find_shape":
        return ["findShape", env["S"][json.dumps(op[1])]], "sorted"
    if k == "light":
        return ["light", op[1], op[2]], "same"
    if k in ("deepcopy", "pickle") and op[1] in ("scenario", "net"):
        return [k], "copy" if op[1] == "scenario" else "skip"
    if k == "write_xml":
        return ["writeXml", op[1] == "full"], "file-xml"
    if k == "write_pb":
        return ["writePb", op[1] == "full"], "file-pb"
    if k == "reached":
        st = mk_state(op[2])
        return ["reached", op[1], {"k": "foreign", "st": abs_state(st, I)}, goal_decisions(twin[1].planning_problem_dict[op[1]], st)], "same"
    if k == "goal_reached":
        sts = [mk_state(x) for x in op[3]]
        pp = twin[1].planning_problem_dict[op[1]]
        return ["goalReached", op[1], {"k": "foreign", "states": [abs_state(x, I) for x in sts]}, [goal_decisions(pp, x) for x in sts]], "reach"
    if k == "reached_own":
        pp = twin[1].planning_problem_dict[op[1]]
        o, to = sc.obstacle_by_id(op[2]), twin[0].obstacle_by_id(op[2])
        if op[3] == "initial":
            return ["reached", op[1], {"k": "prob"}, goal_decisions(pp, pp.initial_state)], "same"
        if op[3] == "trajectory":
            return ["goalReached", op[1], {"k": "own", "oid": op[2]}, [goal_decisions(pp, x) for x in to.prediction.trajectory.state_list]], "reach"
        x = to.state_at_time(op[4])
        if x is None:
            return ["reached", op[1], {"k": "traj", "oid": op[2], "i": 10 ** 6}, []], "same"
        if x is to.initial_state:
            return ["reached", op[1], {"k": "init", "oid": op[2]}, goal_decisions(pp, x)], "same"
        i = next(i for i, y in enumerate(to.prediction.trajectory.state_list) if y is x)
        return ["reached", op[1], {"k": "traj", "oid": op[2], "i": i}, goal_decisions(pp, x)], "same"
    if k in ("eq", "hash", "copy", "deepcopy", "pickle") and not (isinstance(op[1], str) or op[1][0] in ("obstacle", "problem")):
        return ["reads", spy.occ, spy.light], ("eq" if k == "eq" else "skip")      # a part of the scenario: pure read for the model
    if k == "eq":
        return ["eq", _target_json(op[1])], "eq"
    if k == "hash":
        return ["hash", _target_json(op[1])], "skip"
    if k == "copy":
        return ["shallowCopy", _target_json(op[1])], "copy" if op[1] == "scenario" else "skip"
    if k == "by_interval" and len(op) > 4:
        return ["reads", spy.occ, spy.light], "skip"        # explicit roles (phantom / environment obstacles): generic read
    if k == "by_interval":
        from commonroad.common.util import Interval
        ivx, ivy = Interval(*op[1]), Interval(*op[2])
        inside = []
        for o in twin[0].dynamic_obstacles:
            with warnings.catch_warnings():
                warnings.simplefilter("ignore")
                r = call(o.occupancy_at_time, op[3] if op[3] is not None else 0)
            if r[0] == "ok" and r[1] is not None:
                c = getattr(r[1].shape, "center", None)
                if c is None or (ivx.contains(c[0]) and ivy.contains(c[1])):
                    inside.append(o.obstacle_id)
        for o in twin[0].static_obstacles:
            c = o.initial_state.position
            if ivx.contains(c[0]) and ivy.contains(c[1]):
                inside.append(o.obstacle_id)
        return ["byIntervals", op[3] if op[3] is not None else 0, inside], "same"
    if k == "map_obstacles":
        obs = sc.static_obstacles + (sc.dynamic_obstacles if len(op) > 2 and op[2] == "all" else [])
        return ["mapObstacles", [o.obstacle_id for o in obs], _rel(twin[0], sc.lanelet_network.lanelets, obs, 0)], "mapping-" + op[1]
    if k == "lanelet_q" and op[2] == "obstacles":
        t = int(op[3][0][0] * 16) % 3
        obs = sc.static_obstacles + sc.dynamic_obstacles
        l = sc.lanelet_network.find_lanelet_by_id(op[1])
        return ["getObstacles", op[1], [o.obstacle_id for o in obs], t, _rel(twin[0], [l], obs, t)], "same"
    if k == "lanelet_q" and op[2] == "dyn_by_time":
        return ["dynByTime", op[1], int(op[3][0][0] * 16) % 5], "sorted"
    if k == "lanelet_q" and op[2] in ("merge_succ", "merge_pred"):
        ans = _LAST.get("answer")
        if ans is None and _LAST.get("err") == "assert":
            # Lanelet.merge_lanelets asserts that its two arguments are connected.  On a cycle of two lanelets (a <-> b) it cannot tell
            # which one comes first, the merged lanelet gets the reference lists of the wrong ends and the NEXT merge of the route fails
            # that assertion.  The model takes the routes as parameters and has no answer to take them from: the raising query is a
            # generic read for the model (state view compared strictly as ever, answer not compared); the oracle judges it as any other.
            return ["reads", spy.occ, spy.light], "skip"
        paths = [p[1:] for p in ans[0]] if ans else []          # the routes depend on lanelet lengths: taken from the answer
        return ["mergeFrom", op[1], paths], "regs"
    if k == "lanelet_q" and op[2] == "merge_direct":
        first, second = (int(op[3][0][0]), op[1]) if op[3][0][1] else (op[1], int(op[3][0][0]))
        return ["mergeFrom", first, [[second]]], "regs"
    if k == "draw" and (op[1]["what"] not in ("scenario", "both", "pps") or op[1].get("reuse") or op[1].get("video")):
        return ["reads", spy.occ, spy.light], "skip"        # single objects, a reused renderer, a video: the caches recorded from the run
    if k == "draw":
        from commonroad.geometry.shape import Rectangle
        from commonroad.visualization.icons import supported_icons
        p = op[1]
        icon_ids = [o.obstacle_id for o in sc.dynamic_obstacles if o.obstacle_type in supported_icons() and isinstance(o.obstacle_shape, Rectangle)]
        return ["draw", {"scenario": p["what"] in ("scenario", "both"), "tb": p["tb"], "te": p["te"], "occ": p["occ"], "icon": p["icon"],
                         "iconIds": icon_ids, "history": 5 if p["hist"] else 0}], "skip"
    return ["reads", spy.occ, spy.light], "skip"


# ------------------------------------------------------------------------------------------------ one case

def _opkey(op):
    return op[0]


_LAST = {}


def _observable(view):
    """state view without the hidden cache flags"""
    obs = []
    for o in view["obstacles"]:
        p = o.get("pred")
        if isinstance(p, dict) and p.get("k") == "traj":
            o = dict(o, pred={k: v for k, v in p.items() if k != "cache"})
        obs.append(o)
    return {"obstacles": obs, "lanelets": view["net"]["lanelets"], "lights": [l[:3] + l[4:] for l in view["lights"]], "problems": view["problems"], "extra": view.get("extra")}


def _hidden(view):
    return [[o["id"], o["pred"]["cache"]] for o in view["obstacles"] if isinstance(o.get("pred"), dict) and o["pred"].get("k") == "traj"] + \
           [view["net"]["index"]] + [[l[0], l[3]] for l in view["lights"]]


def _norm_occ(v):
    return None if v is None else ([v, v] if isinstance(v, int) else list(v))


def _compare_answer(mode, impl, model, amb, op):
    """-> None when impl answer and model answer agree (or the answer is not modelled), else a short description"""
    if mode == "skip":
        return None
    if impl[0] == "err":
        if mode.startswith("file") and impl[1] != "key":
            return None           # the writer failed for a reason outside the model (e.g. signal_series=None in protobuf)
        return None if model == {"err": impl[1]} else f"impl raises {impl[1]} ({impl[2][:80]}), model {model}"
    if "err" in model:
        return f"impl answers, model raises {model}"
    m, v = model["ok"], impl[1]
    if mode == "occ":
        ok = _norm_occ(v) == m
    elif mode == "occs":
        ok = [_norm_occ(x) for x in v] == m
    elif mode == "same":
        ok = v == m
    elif mode == "sorted":
        ok = sorted(v) == sorted(m)
    elif mode == "find_pos":
        if amb:
            return None
        ok = v == [sorted(x) for x in m]
    elif mode == "eq":
        ok = v == [True, True, True] if m is None else v == [m, m, m]
    elif mode == "reach":
        ok = v == ([True, m] if m is not None else [False, -1])
    elif mode == "mapping-map":
        ok = v == {str(l): o for l, o in m}
    elif mode == "mapping-filter":
        flat = []
        for _, o in m:
            flat += [x for x in o if x not in flat]
        ok = v == flat
    elif mode == "regs":
        ok = v[1] == [[sorted(st), sorted([t, sorted(ids)] for t, ids in dy)] for st, dy in m]
    elif mode == "copy":
        ok = _observable(v) == _observable(m)
        if not ok:
            return f"copy differs at {first_diff(_observable(v), _observable(m))}"
    elif mode in ("file-xml", "file-pb"):
        fmt = mode[5:]
        want = _model_file(m, fmt)
        ok = v == want
        if not ok:
            return f"{fmt} file differs from the model's at {first_diff(v, want)}"
    else:
        raise ValueError(mode)
    return None if ok else f"impl {json.dumps(v)[:160]} model {json.dumps(m)[:160]}"


def run_case(ctx, case, with_model=True, old_pb=False):
    import logging
    logging.disable(logging.CRITICAL)
    spec, ops = case["spec"], case["ops"]
    with warnings.catch_warnings():
        warnings.simplefilter("ignore")
        sc, pps = build(spec)
        twin = build(spec)
    pre = case.get("pre", [])
    apply_pre(sc, pps, pre)
    apply_pre(twin[0], twin[1], pre)
    for x in pre:
        ctx.tag("pre:" + x[0])
    for x in case.get("tags", []):
        ctx.tag(x)
    _tag_spec(ctx, spec)
    ctx.case(case)
    I = Intern()
    P = []
    for op in ops:
        if op[0] == "find_pos":
            for q in op[1]:
                if tuple(q) not in P:
                    P.append(tuple(q))
    cells, ambiguous = point_cells(spec, P)
    with warnings.catch_warnings():
        warnings.simplefilter("ignore")
        aux = build(spec)        # a third copy, used only to evaluate the geometric / decision parameters of model operations
    apply_pre(aux[0], aux[1], pre)
    if any(x[0] == "translate" for x in pre):
        ambiguous = set(range(len(P)))       # the lanelets were moved: which query point lies where is not known from the spec
    S = {}
    for op in ops:
        if op[0] == "find_shape" and json.dumps(op[1]) not in S:
            tok = len(P) + len(S)
            S[json.dumps(op[1])] = tok
            so = mk_shape(op[1]).shapely_object
            for l in aux[0].lanelet_network.lanelets:
                if l.polygon.shapely_object.intersects(so):
                    cells[l.lanelet_id].append(tok)
    env = {"sc": sc, "pps": pps, "twin": aux, "I": I, "S": S}
    steps = []          # (model op, compare mode, impl answer, impl abstract view afterwards, ambiguous?, harness op)
    nfail0 = len(ctx.failures)

    def file_answer(res, fmt, mode):
        if res[0] != "ok":
            return res
        return ("ok", _file_abs(res[1], fmt))

    s0 = snapshot(sc, pps)
    st0 = abstract(sc, pps, I, cells, s0)
    # reference exports; an export is itself a read-only operation, so it is framed by snapshots as well
    ref = {}
    for fmt in ("xml", "pb"):
        res = export(ctx, sc, pps, fmt)
        ref[fmt] = _digest(res)
        s1 = snapshot(sc, pps)
        steps.append((["writeXml" if fmt == "xml" else "writePb", True], "file-" + fmt, file_answer(res, fmt, "full"),
                      abstract(sc, pps, I, cells, s1), False, [f"write_{fmt}", "full"]))
        d = first_diff(s0, s1)
        if d:
            ctx.fail(f"C18/write_{fmt}/changed:{d}", f"writing the {fmt} file changed {d}", {"spec": spec, "ops": [[f"write_{fmt}", "full"]]})
            s0 = s1
        ctx.tag(f"export:{fmt}-{ref[fmt][0]}" + ("" if ref[fmt][0] == "ok" else ":" + ref[fmt][1]))
    for i, op in enumerate(ops):
        ctx.tag("op:" + op[0])
        if (op[0] == "draw" and op[1]["what"] in ("scenario", "both", "network")) or (op[0] == "viz_util" and op[1] == "colors"):
            inc = {l for x in spec["intersections"] for i_ in x["incomings"] for l in i_["lanelets"]}
            for x in spec["lights"]:
                if inc & set(x["lanelets"]):
                    ctx.tag("drawn-light-on-incoming:" + x["direction"])
        if op[0] == "draw":
            ctx.tag("draw:" + op[1]["what"])
            for extra in ("reuse", "limits", "file", "focus", "video"):
                if op[1].get(extra):
                    ctx.tag("draw:" + extra)
            for f in op[1].get("flags", []):
                ctx.tag("draw-flag:" + f[0].split(".")[-1])
            shown = op[1]["what"] == "signs" or (op[1]["what"] in ("scenario", "both", "network")
                                                 and ["lanelet_network.traffic_sign.draw_traffic_signs", True] in op[1].get("flags", []))
            if shown and any(not x["virtual"] and x["elem"] in ("MAX_SPEED", "MIN_SPEED") and x["values"] for x in spec["signs"]):
                ctx.tag("draw:speed-limit-sign-rendered")
        if op[0] == "lanelet_q":
            ctx.tag("lanelet_q:" + op[2])
            if op[2] in ("merge_succ", "merge_pred") and _merge_moves_ids(spec, op[1], op[2]):
                ctx.tag("merge:ids-to-merge")
            if op[2] in ("merge_succ", "merge_pred") and op[1] in on_cycle(spec["lanelets"]):
                ctx.tag("merge:from-cycle:" + op[2])
        _LAST.clear()
        with warnings.catch_warnings(), Spy(sc) as spy:
            warnings.simplefilter("ignore")
            res = call(run_op, ctx, sc, pps, op, twin)
        if res[0] == "err":
            ctx.tag("op-raises:" + op[0] + ":" + res[1])
        for wd in _LAST.get("write_x_diff", []):
            ctx.fail(f"C18/write_x/reused-writer/export-differs:{wd}", f"one writer object exporting the unchanged scenario again "
                     f"({op[1]['seq']}) produced a different {wd} file than its first export through the same entry point",
                     {"spec": spec, "ops": ops[:i + 1]})
        if op[0] == "write_x" and len(op[1]["seq"]) > 1:
            ctx.tag(f"write_x:reused:{op[1]['fmt']}:" + "-".join(op[1]["seq"]))
            if "scenario" in op[1]["seq"][1:]:
                ctx.tag(f"write_x:reused-scenario:{op[1]['fmt']}")
        _LAST["answer"] = res[1] if res[0] == "ok" else None
        _LAST["err"] = res[1] if res[0] == "err" else None
        if op[0] == "lanelet_q" and op[2] in ("merge_succ", "merge_pred") and res[0] == "err":
            ctx.tag(f"merge:raises:{res[1]}:" + ("on-cycle" if on_cycle(spec["lanelets"]) else "acyclic"))
        if op[0] == "lanelet_q" and op[2] in ("merge_succ", "merge_pred") and res[0] == "ok" and _route_closes_cycle(spec, res[1][0]):
            ctx.tag("merge:route-closes-cycle:" + op[2])
        mop, mode = model_op(op, P, spy, env)
        ans = res
        if res[0] == "ok":
            if mode == "copy":
                ans = ("ok", abstract(_LAST["copy"], pps, I, cells))
            elif mode.startswith("file"):
                ans = file_answer(_LAST["export"], mode[5:], op[1])
                if ans[0] == "err":
                    ctx.tag("op-raises:" + op[0] + ":" + ans[1])
            else:
                ans = ("ok", _canon_out(res[1]))
        amb = op[0] == "find_pos" and any(P.index(tuple(q)) in ambiguous for q in op[1])
        if amb:
            ctx.excluded += 1
        s1 = snapshot(sc, pps)
        steps.append((mop, mode, ans, abstract(sc, pps, I, cells, s1), amb, op))
        d = first_diff(s0, s1)
        sub = {"spec": spec, "ops": ops[:i + 1]}
        if _LAST.get("reuse_diff"):
            n_, how_, fresh_len, got_len = _LAST["reuse_diff"]
            ctx.fail(f"C18/write_x/reused-writer-export-differs:{op[1]['fmt']}:{how_}",
                     f"export number {n_ + 1} ({how_}) of ONE {op[1]['fmt']} writer object differs from the export of a new writer through the same "
                     f"entry point ({fresh_len} -> {got_len} bytes, date erased): the earlier export changed what is exported", sub)
        if d:
            ctx.fail(f"C18/{_opkey(op)}/changed:{d}", f"operation {op[:3]} changed the observable attribute {d}"
                     + (f" (it raised {res[2]})" if res[0] == "err" else ""), sub)
            s0 = s1
        pending = []
        for fmt in ("xml", "pb"):
            res = export(ctx, sc, pps, fmt)
            e = _digest(res)
            pending.append((["writeXml" if fmt == "xml" else "writePb", True], "file-" + fmt, file_answer(res, fmt, "full"), fmt))
            if e != ref[fmt]:
                ctx.fail(f"C18/{_opkey(op)}/export-differs:{fmt}", f"the {fmt} export after operation {op[:3]} differs from the export "
                         f"before ({ref[fmt]} -> {e})", sub)
                ref[fmt] = e
        # (the two exports just made are read-only operations too; each writer was framed on its own at the start of the case;
        #  one snapshot and one state view after both)
        s2 = snapshot(sc, pps)
        view_w = abstract(sc, pps, I, cells, s2)
        for mop_w, mode_w, ans_w, fmt in pending:
            steps.append((mop_w, mode_w, ans_w, view_w, False, [f"write_{fmt}", "full"]))
        d = first_diff(s0, s2)
        if d:
            ctx.fail(f"C18/write_after_{_opkey(op)}/changed:{d}", f"writing the XML and protobuf files after {op[:3]} changed {d}",
                     {"spec": spec, "ops": ops[:i + 1] + [["write_xml", "full"], ["write_pb", "full"]]})
            s0 = s2
    # the untouched twin built from the same spec must still look like the operated scenario
    if len(ctx.failures) == nfail0:
        with warnings.catch_warnings():
            warnings.simplefilter("ignore")
            d = first_diff(snapshot(twin[0], twin[1]), s0)
        if d:
            ctx.fail(f"C18/sequence/differs-from-untouched-twin:{d}", f"after the sequence the scenario differs from an untouched twin at {d}", case)
    # and it must answer a fixed set of probing queries like the twin (exception classes included)
    if len(ctx.failures) == nfail0:
        pa, pb = probes(spec, sc, pps), probes(spec, twin[0], twin[1])
        d = first_diff(pa, pb)
        if d:
            ctx.fail(f"C18/sequence/probe-differs:{d}", f"after the sequence the scenario answers the probing query {d} differently from "
                     f"an untouched twin", case)
    if not with_model:
        return
    # ---- correspondence: the same operation sequence on the Lean model
    args = {"st": st0, "ops": [m for m, *_ in steps]}
    if old_pb:
        args["old_pb"] = True
    mres = ctx.driver.ask("C18", "trace", args)
    impl_l, model_l, what = [], [], ""
    hid_seen = False
    if mres and mres[-1]["st"].get("extra") != st0["extra"]:
        ctx.compare(case, st0["extra"], mres[-1]["st"].get("extra"), "the model changed Extra")
    for (mop, mode, ans, view, amb, op), mr in zip(steps, mres):
        mr["st"]["extra"] = st0["extra"]       # sent with the last step only, compared with the initial one just above
        bad = _compare_answer(mode, ans, mr["out"], amb, op)
        # the observable part of the state view is compared strictly; where the hidden cache flags sit (private slots, their
        # names are an implementation detail) is only recorded: a rewrite that caches differently is not a disagreement
        hid_ok = _hidden(view) == _hidden(mr["st"])
        ctx.tag("hidden-cache-flags:" + ("agree" if hid_ok else "differ"))
        if not hid_ok and not hid_seen:
            hid_seen = True
            ctx.tag("hidden-cache-flags:first-differ-at:" + op[0])
            if os.environ.get("C18_DEBUG_HIDDEN"):
                print("HIDDEN", op, _hidden(view), _hidden(mr["st"]), ans[:2] if ans[0] == "err" else "ok", json.dumps(mop)[:200])
        vd = first_diff(_observable(view), _observable(mr["st"]))
        if (bad or vd) and not what:
            what = f"step {len(impl_l)} {op[:3]} (model op {json.dumps(mop)[:80]}): " + (f"state view differs at {vd}; " if vd else "") + (bad or "")
        impl_l.append({"view": _observable(view), "answer_agrees": bad is None})
        model_l.append({"view": _observable(mr["st"]), "answer_agrees": True})
    ctx.compare(case, impl_l, model_l, what or "read-only operation sequence vs CR.Frame.trace")


def probes(spec, sc, pps):
    """answers of a fixed set of queries (name -> canonical answer or exception class)"""
    import numpy as np
    out = {}

    def q(name, f):
        with warnings.catch_warnings():
            warnings.simplefilter("ignore")
            res = call(f)
        out[name] = {"ok": _canon_out(res[1])} if res[0] == "ok" else {"err": res[1]}
    for k in ("static", "dynamic", "phantom", "env"):
        for o in spec[k]:
            t0 = o["init"]["t"] if "init" in o else 0
            for t in (t0, t0 + 1, t0 + 2):
                def occ(o=o, t=t):
                    x = sc.obstacle_by_id(o["id"]).occupancy_at_time(t)
                    return None if x is None else [_occ_out(x), json.dumps(snap(x.shape), sort_keys=True)]
                q(f"occupancy_at_time({k} obstacle {o['id']}, {t})", occ)
    if spec["lanelets"]:
        q("find_lanelet_by_position", lambda: [sorted(int(i) for i in ids) for ids in
                                               sc.lanelet_network.find_lanelet_by_position([np.array([3.0625, 2.0625]), np.array([23.0625, 5.0625])])])
        q("find_lanelet_by_shape", lambda: sorted(int(i) for i in sc.lanelet_network.find_lanelet_by_shape(mk_shape(["circ", 3.0, 20.0, 4.0]))))
    for l in spec["lights"]:
        q(f"light.{l['id']}", lambda l=l: [sc.lanelet_network.find_traffic_light_by_id(l["id"]).get_state_at_time_step(t).name for t in (0, 3, 11)])
    q("occupancies_at_time_step", lambda: [_occ_out(o) for o in sc.occupancies_at_time_step(1)])
    return out


def _route_closes_cycle(spec, routes):
    """is there a merged route one of whose END lanelets refers (successor / predecessor) to a lanelet of the route itself?  The
    merged lanelet is handed the reference lists of its end lanelets; only then do those lists name a part of the merged lanelet."""
    by_id = {l["id"]: l for l in spec["lanelets"]}
    for route in routes:
        if len(route) < 2 or any(i not in by_id for i in route):
            continue
        for end in (route[0], route[-1]):
            if (set(by_id[end]["succ"]) | set(by_id[end]["pred"])) & set(route):
                return True
    return False


def _merge_moves_ids(spec, lid, q):
    """does merging lanelet `lid` with its successors/predecessors bring together lanelets one of which has obstacle ids the
    other one lacks?  (only then a merge that writes into its inputs is visible)"""
    by_id = {l["id"]: l for l in spec["lanelets"]}
    reg = {i: set() for i in by_id}
    for o in spec["static"]:
        for i in o["shape_ids"] or []:
            reg[i].add(("s", o["id"]))
    for o in spec["dynamic"]:
        for i in o["shape_ids"] or []:
            reg[i].add(("d", o["id"], o["init"]["t"]))
        p = o["pred"]
        if p and p["kind"] == "traj" and p["shape_assign"]:
            for t, ids in p["shape_assign"]:
                for i in ids:
                    reg[i].add(("d", o["id"], t))
    nxt = by_id[lid]["succ" if q == "merge_succ" else "pred"]
    return any(reg[n] - reg[lid] or reg[lid] - reg[n] for n in nxt if n in reg)


def _canon_out(v):
    if isinstance(v, float):
        return repr(v)
    if isinstance(v, (list, tuple)):
        return [_canon_out(x) for x in v]
    if isinstance(v, dict):
        return {str(k): _canon_out(x) for k, x in v.items()}
    return v


def _tag_spec(ctx, spec):
    for p_ in spec["problems"]:
        ctx.tag("problem-init:acceleration-" + ("set" if any(a[0] == "acceleration" for a in p_["init"]["attrs"]) else "unset"))
    if spec.get("areas"):
        ctx.tag("spec:areas")
    if spec.get("map_info"):
        ctx.tag("spec:map_info")
    if not spec["dynamic"]:
        ctx.tag("spec:no-dynamic")
    if 0 in _obstacle_ids(spec):
        ctx.tag("spec:id-0")
    for d in spec["dynamic"]:
        p = d["pred"]
        if p is None:
            ctx.tag("pred:none")
        elif p["kind"] == "set":
            ctx.tag("pred:set")
        else:
            ctx.tag("traj:" + p["cls"])
        if d["shape"][0] == "group":
            ctx.tag("shape:group")
    if not spec["lanelets"]:
        ctx.tag("net:empty")
    cyc = on_cycle(spec["lanelets"])
    if cyc:
        ctx.tag("net:cycle")
        ctx.tag("net:cycle:len-%d" % min(len(cyc), 4))
    ctx.tag("scenario-version:" + (spec.get("scenario_version") or "default"))
    for p in spec["problems"]:
        t = p["tbl"]
        if t is None:
            ctx.tag("tbl:none")
        else:
            missing = len(t["items"]) < len(p["goals"])
            ctx.tag(f"tbl:{t['kind']}" + ("-missing" if missing else "-complete"))


# ------------------------------------------------------------------------------------------------ entry points

def run(ctx):
    import logging
    logging.disable(logging.CRITICAL)
    import c18_dims
    kinds = {"occ", "state", "occs", "states_at", "occset", "find_pos", "find_shape", "proximity", "light", "reached", "reached_own", "goal_reached",
             "eq", "hash", "copy", "deepcopy", "pickle", "write_xml", "write_pb", "str", "by_role", "by_interval", "signal", "lanelet_q",
             "map_obstacles", "final_time", "traj_q", "net_copy", "most_likely", "draw"} | set(NEW_KINDS)
    c18_dims.check(ctx, kinds)
    for p in sorted(glob.glob(os.path.join(CORPUS_DIR, "C18", "*.json"))):
        run_case(ctx, json.load(open(p)))
    n = ctx.n(110)
    for i in range(n):
        recipe = {1: "merge", 3: "sign", 6: "vvy", 8: "sign", 11: "tbl", 13: "reach", 16: "merge", 18: "reach", 7: "ring", 12: "version", 17: "ring"}.get(i % 20)
        if i % 20 in (9, 19):
            recipe = "unc"
        if i % 10 == 4:
            recipe = ["inter", ALL_DIRECTIONS[(i // 10) % len(ALL_DIRECTIONS)]]       # every direction in turn
        case = gen_case(ctx, tiny=(i % 4 == 3 and recipe is None), allow_draw=(i % 5 == 0), recipe=recipe)
        if i % 20 == 2:
            # directed: ONE writer object exporting several times, a scenario-only export after an earlier write (round-6 seed
            # C18_13: the protobuf scenario-only entry point kept the message of the previous export)
            j = i // 20
            case["ops"].append(["write_x", {"fmt": "pb" if j % 2 == 0 else "xml", "direct": j % 4 >= 2, "precision": 4, "check": False,
                                            "args": False, "location": False,
                                            "seq": [["full", "scenario", "scenario"], ["scenario", "scenario"], ["full", "scenario"]][j % 3]}])
        run_case(ctx, case)


def search(ctx):
    """failing-input search: the dimensions added last come first (cycles + merge queries, the older format version + exports),
    then the ordinary mix"""
    import logging
    logging.disable(logging.CRITICAL)
    for i in range(12):
        run_case(ctx, gen_case(ctx, allow_draw=False, recipe=("ring", "version", "merge")[i % 3]))
    run(ctx)


def replay(ctx, case):
    run_case(ctx, case)


def _fails_with(case, key):
    from common import Ctx
    c = Ctx("C18", "quick", 0)
    try:
        run_case(c, case, with_model=False)
    except Exception:  # noqa  (a shrunk spec may not be constructible any more)
        return False
    finally:
        c.close()
    return any(f.key == key for f in c.failures)


def shrink(case, key):
    """greedy: drop operations, then whole objects of the spec, while the same finding key is still reported"""
    case = json.loads(json.dumps(case))
    if not _fails_with(case, key):
        return case
    budget = [60]

    def attempt(cand):
        if budget[0] <= 0:
            return False
        budget[0] -= 1
        return _fails_with(cand, key)
    i = 0
    while i < len(case["ops"]) and len(case["ops"]) > 1:
        cand = dict(case, ops=case["ops"][:i] + case["ops"][i + 1:])
        if attempt(cand):
            case = cand
        else:
            i += 1
    for field in ("problems", "dynamic", "static", "env", "phantom", "intersections", "signs", "lights", "lanelets"):
        i = 0
        while i < len(case["spec"][field]):
            spec = dict(case["spec"])
            spec[field] = spec[field][:i] + spec[field][i + 1:]
            cand = {"spec": spec, "ops": case["ops"]}
            if attempt(cand):
                case = cand
            else:
                i += 1
    for d in case["spec"]["dynamic"]:
        p = d.get("pred")
        while p and p["kind"] == "traj" and len(p["states"]) > 1:
            saved = p["states"]
            p["states"] = saved[:-1]
            if not attempt(case):
                p["states"] = saved
                break
    return case
