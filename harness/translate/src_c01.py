"""py -> Lean translator for property C01 (XML write -> read): the TRANSLATOR tie of the XML writer and reader.

`regenerate(repo, gen_dir)` parses the CURRENT source of

    commonroad/common/writer/file_writer_xml.py      (every *XMLNode class, Point, Pointlist, the module-level helpers)
    commonroad/common/reader/file_reader_xml.py      (XMLFileReader, every *Factory class, the module-level helpers)

with `ast` and writes `<gen_dir>/SrcC01.lean` (module `Gen.SrcC01`):

  STRUCTURAL EXTRACTION (two finite tables, checked completely by `decide` in lean/CRProps/T01.lean)
    Gen.C01.writer : List CR.X.Tie.W    one entry per (element kind, item) the writer can emit: child element / XML attribute /
                                         text, its multiplicity (one = on every path, opt = under a condition, many = in a
                                         loop) and the attribute paths of the written object the value is computed from.
    Gen.C01.reader : List CR.X.Tie.R    one entry per (element kind, item) the reader looks up (find / findall / get /
                                         iteration over children / .text) and whether the reader REQUIRES it (dereferences
                                         the result without a None test).
    An "element kind" is the tag of the element that carries the item; for the tags in AMBIG (whose content depends on where
    they stand) it is `parentTag/tag`.  Tags computed at run time are wild cards: `<Tag>` (a member of scenario.Tag),
    `<xmlName>` (`_map_to_xml_prop(attr)`), `<camel>` (the bare regex of the goal-state writer).
    Both tables come out of a small inter-procedural abstract interpretation (writer: which `etree.Element(...)` /
    `etree.SubElement(parent, ...)` creation sites reach which `append` / `extend` / `set` / `.text =`; reader: which element kinds reach which `find` / `findall` /
    `get`), so renaming locals, extracting helpers, re-ordering independent statements, if/else <-> conditional expression
    do not change the tables.

  FUNCTIONAL TRANSLATION (string helpers; tied to CRModel/Codec.lean + CRXml.lean for all arguments)
    Gen.float_to_str, Gen.decimal_to_str, Gen.writer_map_to_xml_prop, Gen.reader_map_to_xml_prop, Gen.reader_map_to_prop

A part that cannot be translated any more is not a verdict: its last good text (harness/translate/lastgood/C01_*.lean) is
emitted and the status says `lost`.  `python harness/translate/src_c01.py --update-lastgood [repo]` refreshes the copies.
"""
from __future__ import annotations

import ast
import os
import re

try:
    from .pysrc import LASTGOOD, Target, Tr, Unsupported, find_func
except ImportError:  # run as a script
    from pysrc import LASTGOOD, Target, Tr, Unsupported, find_func

HERE = os.path.dirname(os.path.abspath(__file__))
WRITER = "commonroad/common/writer/file_writer_xml.py"
READER = "commonroad/common/reader/file_reader_xml.py"

#: tags whose content depends on the parent element: their kind is `parentTag/tag`
AMBIG = {"position", "time", "lanelet"}
#: fixed table: writer class -> value of `obstacle_role.value` of the objects it is called with (ObstacleXMLNode.create_node
#: dispatches on the obstacle class; each obstacle class passes its ObstacleRole to Obstacle.__init__)
ROLE_OF_CLASS = {"StaticObstacleXMLNode": "static", "DynamicObstacleXMLNode": "dynamic",
                 "EnvironmentObstacleXMLNode": "environment", "PhantomObstacleXMLNode": "phantom"}
CAMEL_RE = r"_(\w)"
#: the reader's 2018b branch is outside the property (2020a schema) and outside the model
READER_EXCLUDE = {"ScenarioFactory._obstacles_2018b", "XMLFileReader._get_tags"}
ERRS = (Unsupported, SyntaxError, KeyError, IndexError, AttributeError, OSError, TypeError, ValueError, RecursionError)


def q(s: str) -> str:
    return '"' + s.replace("\\", "\\\\").replace('"', '\\"') + '"'


def mult_join(a: str, b: str) -> str:
    order = {"one": 0, "opt": 1, "many": 2}
    return a if order[a] >= order[b] else b


def functions_of(tree):
    """qualified name -> (class name or None, FunctionDef)"""
    out = {}
    for n in tree.body:
        if isinstance(n, ast.FunctionDef):
            out[n.name] = (None, n)
        elif isinstance(n, ast.ClassDef):
            for m in n.body:
                if isinstance(m, ast.FunctionDef) and not any(
                        isinstance(d, ast.Attribute) and d.attr == "setter" for d in m.decorator_list):
                    out.setdefault(f"{n.name}.{m.name}", (n.name, m))
    return out


def params_of(fn: ast.FunctionDef):
    names = [a.arg for a in fn.args.posonlyargs + fn.args.args]
    if names and names[0] in ("cls", "self"):
        names = names[1:]
    return names + [a.arg for a in fn.args.kwonlyargs]


def is_static(fn):
    return any(isinstance(d, ast.Name) and d.id == "staticmethod" for d in fn.decorator_list)


def dotted(n):
    if isinstance(n, ast.Name):
        return n.id
    if isinstance(n, ast.Attribute):
        return dotted(n.value) + "." + n.attr
    return "?"


def terminates(stmts):
    return bool(stmts) and isinstance(stmts[-1], (ast.Return, ast.Raise, ast.Continue))


# ===================================================================================================== writer
class WriterAnalysis:
    """Which `etree.Element(tag)` creation sites receive which children / attributes / text."""

    def __init__(self, tree):
        self.funcs = functions_of(tree)
        # instance methods callable on a receiver of unknown class (`Point(...).create_node()`, `point.create_node()`)
        self.by_method = {}
        for qn, (cls, fn) in self.funcs.items():
            if cls and fn.args.args and fn.args.args[0].arg == "self":
                self.by_method.setdefault(fn.name, []).append(qn)
        self.sites = {}        # site id -> tag expression: ("lit", s) | ("role", suffix) | ("wild", name)
        self.items = set()     # (target id, item, name, mult, src)
        self.edges = set()     # (parent id, child id, mult, src)
        self.ret = {qn: set() for qn in self.funcs}
        self.bind = {}         # placeholder id -> set of ids
        self.spec = {}         # specialised role site -> base site
        self.final = False
        self.callsrc = {}

    # ---- tag expressions
    def tag_expr(self, n):
        if isinstance(n, ast.Constant) and isinstance(n.value, str):
            return ("lit", n.value)
        if isinstance(n, ast.BinOp) and isinstance(n.op, ast.Add) and isinstance(n.right, ast.Constant) \
                and isinstance(n.left, ast.Attribute) and n.left.attr == "value" and "role" in dotted(n.left.value):
            return ("role", n.right.value)
        if isinstance(n, ast.Attribute) and n.attr == "value" and dotted(n.value) == "tag":
            return ("wild", "<Tag>")
        if isinstance(n, ast.Call) and dotted(n.func).endswith("_map_to_xml_prop") and len(n.args) == 1:
            return ("wild", "<xmlName>")
        if isinstance(n, ast.Call) and dotted(n.func) == "re.sub" and len(n.args) == 3 \
                and isinstance(n.args[0], ast.Constant) and n.args[0].value == CAMEL_RE \
                and isinstance(n.args[1], ast.Lambda) and ast.unparse(n.args[1].body) == "m.group(1).upper()":
            return ("wild", "<camel>")
        raise Unsupported(f"element tag {ast.unparse(n)}")

    # ---- calls
    def resolve(self, f, cls):
        if isinstance(f, ast.Name):
            return f.id if f.id in self.funcs else None
        if isinstance(f, ast.Attribute):
            if isinstance(f.value, ast.Name):
                owner = cls if f.value.id == "cls" else f.value.id
                if f"{owner}.{f.attr}" in self.funcs:
                    return f"{owner}.{f.attr}"
                if f.value.id in ("cls",) or f.value.id[:1].isupper():
                    return None
            c = self.by_method.get(f.attr, [])
            if len(c) == 1:
                return c[0]
        return None

    # ---- source paths (which attributes of the written object a value is computed from)
    def paths(self, n, senv):
        if isinstance(n, ast.Name):
            return list(senv.get(n.id, []))
        if isinstance(n, ast.Attribute):
            base = self.paths(n.value, senv)
            if isinstance(n.value, ast.Name) and n.value.id in ("self",) and not base:
                return ["." + n.attr]
            return [b + "." + n.attr for b in base]
        if isinstance(n, ast.Subscript):
            idx = ast.unparse(n.slice) if isinstance(n.slice, ast.Constant) else ""
            return [b + f"[{idx}]" for b in self.paths(n.value, senv)]
        if isinstance(n, ast.Call):
            out = []
            if isinstance(n.func, ast.Attribute) and not (isinstance(n.func.value, ast.Name) and n.func.value.id[:1].isupper()):
                out += self.paths(n.func.value, senv)
            for a in list(n.args) + [k.value for k in n.keywords]:
                out += self.paths(a, senv)
            return out
        if isinstance(n, (ast.JoinedStr, ast.FormattedValue, ast.BinOp, ast.BoolOp, ast.Compare, ast.IfExp, ast.UnaryOp,
                          ast.Tuple, ast.List)):
            out = []
            for c in ast.iter_child_nodes(n):
                if isinstance(c, ast.expr):
                    out += self.paths(c, senv)
            return out
        return []

    def src(self, n, senv):
        return ",".join(sorted(set(p for p in self.paths(n, senv) if p)))

    # ---- expressions: the element sites an expression may denote
    def ev(self, n, st):
        if isinstance(n, ast.Name):
            return set(st["env"].get(n.id, ()))
        if isinstance(n, (ast.List, ast.Tuple)):
            out = set()
            for x in n.elts:
                out |= self.ev(x, st)
            return out
        if isinstance(n, ast.IfExp):
            return self.ev(n.body, st) | self.ev(n.orelse, st)
        if isinstance(n, ast.Call):
            if dotted(n.func) == "etree.Element":
                if len(n.args) != 1:
                    raise Unsupported("etree.Element with attributes")
                sid = f"{st['qn']}@{n.lineno - st['line0']}:{n.col_offset}"
                self.sites[sid] = self.tag_expr(n.args[0])
                st["born"].setdefault(sid, st["path"])
                return {sid}
            if dotted(n.func) == "etree.SubElement":
                # `etree.SubElement(parent, tag)` = `child = etree.Element(tag); parent.append(child)` (lxml: created and appended
                # as the LAST child of `parent`), the value of the call is the child
                if len(n.args) != 2 or n.keywords:
                    raise Unsupported("etree.SubElement with attributes")
                parents = self.ev(n.args[0], st)
                sid = f"{st['qn']}@{n.lineno - st['line0']}:{n.col_offset}"
                self.sites[sid] = self.tag_expr(n.args[1])
                st["born"].setdefault(sid, st["path"])
                if not parents and self.final:
                    raise Unsupported(f"parent of {ast.unparse(n)}")
                for t in parents:
                    st["rec"].append(("edge", t, sid, "", st["path"], ""))
                return {sid}
            callee = self.resolve(n.func, st["cls"])
            if callee is None:
                for a in list(n.args) + [k.value for k in n.keywords]:
                    self.ev(a, st)
                if isinstance(n.func, ast.Attribute):
                    self.ev(n.func.value, st)
                return set()
            _, fn = self.funcs[callee]
            ps = params_of(fn)
            actual = {}
            for i, a in enumerate(n.args):
                if i < len(ps):
                    actual[ps[i]] = a
            for k in n.keywords:
                if k.arg:
                    actual[k.arg] = k.value
            if isinstance(n.func, ast.Attribute):
                self.ev(n.func.value, st)
            sub = {}
            for p, a in actual.items():
                v = self.ev(a, st)
                if v:
                    self.bind.setdefault(f"P:{callee}:{p}", set()).update(v)
                    sub[f"P:{callee}:{p}"] = v
                sp = self.paths(a, st["senv"])
                self.callsrc.setdefault((callee, p), set()).update(sp)
            out = set()
            for r in self.ret[callee]:
                if r.startswith("P:"):
                    out |= sub.get(r, set())
                elif self.sites.get(r, ("", ""))[0] == "role" and st["cls"] in ROLE_OF_CLASS:
                    s2 = f"{r}#{ROLE_OF_CLASS[st['cls']]}"
                    self.sites[s2] = ("lit", ROLE_OF_CLASS[st["cls"]] + self.sites[r][1])
                    self.spec[s2] = r
                    out.add(s2)
                else:
                    out.add(r)
            for r in out:
                st["born"].setdefault(r, st["path"])
            return out
        return set()

    # ---- statements
    def walk(self, stmts, st, mult, rec):
        for s in stmts:
            self.stmt(s, st, mult, rec)

    def sub(self, st, kind, copy=True):
        """state for a nested block: `kind` = opt (conditional) / many (loop)"""
        self.nblock += 1
        st2 = dict(st)
        if copy:
            st2["env"], st2["senv"] = dict(st["env"]), dict(st["senv"])
        st2["path"] = st["path"] + ((self.nblock, kind),)
        return st2

    def stmt(self, s, st, mult, rec):
        env, senv = st["env"], st["senv"]
        mult = st["path"]
        st["rec"] = rec        # where an expression with an effect on the tree (`etree.SubElement`) records it
        if isinstance(s, ast.Expr) and isinstance(s.value, ast.Constant):
            return
        if isinstance(s, (ast.Assign, ast.AnnAssign)):
            tg = s.targets[0] if isinstance(s, ast.Assign) else s.target
            if s.value is None:
                return
            if isinstance(tg, ast.Name):
                v = self.ev(s.value, st)
                env[tg.id] = v
                senv[tg.id] = self.paths(s.value, senv)
                return
            if isinstance(tg, ast.Attribute) and tg.attr == "text":
                for t in self.ev(tg.value, st):
                    rec.append(("item", t, "text", "", mult, self.src(s.value, senv)))
                return
            self.ev(s.value, st)
            return
        if isinstance(s, ast.Expr) and isinstance(s.value, ast.Call):
            c = s.value
            if isinstance(c.func, ast.Attribute) and c.func.attr in ("append", "extend", "set", "insert"):
                tgt = self.ev(c.func.value, st)
                if tgt:
                    if c.func.attr == "set":
                        if not (len(c.args) == 2 and isinstance(c.args[0], ast.Constant) and isinstance(c.args[0].value, str)):
                            raise Unsupported(f"attribute name {ast.unparse(c)}")
                        for t in tgt:
                            rec.append(("item", t, "attr", c.args[0].value, mult, self.src(c.args[1], senv)))
                        return
                    if c.func.attr == "insert":
                        raise Unsupported("insert")
                    kids = self.ev(c.args[0], st)
                    if not kids:
                        if self.final:
                            raise Unsupported(f"appended value {ast.unparse(c.args[0])}")
                        return
                    sp = self.src(c.args[0], senv)
                    for t in tgt:
                        for k in kids:
                            rec.append(("edge", t, k, "", mult, sp))
                    return
            self.ev(c, st)
            return
        if isinstance(s, ast.If):
            r1, r2 = [], []
            e1 = self.sub(st, "opt")
            e2 = self.sub(st, "opt")
            b1, b2 = e1["path"][-1], e2["path"][-1]
            self.walk(s.body, e1, "opt", r1)
            self.walk(s.orelse, e2, "opt", r2)
            for k in set(e1["env"]) | set(e2["env"]):
                env[k] = set(e1["env"].get(k, ())) | set(e2["env"].get(k, ()))
            for k in set(e1["senv"]) | set(e2["senv"]):
                senv[k] = sorted(set(e1["senv"].get(k, [])) | set(e2["senv"].get(k, [])))
            # an item both branches emit is emitted on every path through this statement
            def key(r):
                k = r[2] if r[0] == "item" else self.tag_of(r[2])
                return (r[0], r[1], k, r[3])
            k1, k2 = {key(r) for r in r1}, {key(r) for r in r2}
            for r in r1 + r2:
                m = r[4]
                if key(r) in k1 and key(r) in k2:
                    m = tuple(x for x in m if x not in (b1, b2))
                rec.append(r[:4] + (m, r[5]))
            return
        if isinstance(s, ast.For):
            ip = [p + "[]" for p in self.paths(s.iter, senv)]
            for nm in ast.walk(s.target):
                if isinstance(nm, ast.Name):
                    senv[nm.id] = ip
                    env.pop(nm.id, None)
            self.ev(s.iter, st)
            self.walk(s.body, self.sub(st, "many", copy=False), "many", rec)
            return
        if isinstance(s, ast.Try):
            st2 = self.sub(st, "opt", copy=False)
            self.walk(s.body, st2, "opt", rec)
            for h in s.handlers:
                self.walk(h.body, st2, "opt", rec)
            self.walk(s.finalbody, st2, "opt", rec)
            return
        if isinstance(s, ast.With):
            self.walk(s.body, st, mult, rec)
            return
        if isinstance(s, ast.Return):
            if s.value is not None:
                self.ret[st["qn"]] |= self.ev(s.value, st)
            return
        if isinstance(s, (ast.Raise, ast.Assert, ast.Pass, ast.Expr, ast.AugAssign, ast.Import, ast.ImportFrom)):
            return
        raise Unsupported(f"writer statement {type(s).__name__}")

    def tag_of(self, sid):
        t = self.sites.get(sid)
        return t[1] if t else sid

    def run(self):
        for _ in range(12):
            before = (len(self.items), len(self.edges), sum(len(v) for v in self.ret.values()), sum(len(v) for v in self.bind.values()))
            self.items, self.edges = set(), set()
            self.callsrc = {}
            for qn, (cls, fn) in self.funcs.items():
                ps = params_of(fn)
                st = {"env": {p: {f"P:{qn}:{p}"} for p in ps}, "senv": {p: [""] for p in ps}, "qn": qn, "cls": cls,
                      "line0": fn.lineno, "path": (), "born": {}}
                self.nblock = 0
                rec = []
                self.walk(fn.body, st, "one", rec)
                for r in rec:
                    # multiplicity RELATIVE to the element that receives the item: only the blocks entered after that
                    # element was created in this function (a parameter / the root exists from the start)
                    born = st["born"].get(r[1], ())
                    n = 0
                    while n < len(born) and n < len(r[4]) and born[n] == r[4][n]:
                        n += 1
                    m = "one"
                    for (_, kind) in r[4][n:]:
                        m = mult_join(m, kind)
                    if r[0] == "item":
                        self.items.add((r[1], r[2], r[3], m, r[5]))
                    else:
                        self.edges.add((r[1], r[2], m, r[5]))
            after = (len(self.items), len(self.edges), sum(len(v) for v in self.ret.values()), sum(len(v) for v in self.bind.values()))
            if self.final:
                break
            if after == before:
                self.final = True       # one more pass, now an unresolved appended value is an error
        else:
            raise Unsupported("writer analysis does not stabilise")

    # ---- flatten to the table
    def concrete(self, x, seen=()):
        """creation sites a target id stands for (placeholders resolved through the call bindings)"""
        if not x.startswith("P:"):
            return {x}
        if x in seen:
            return set()
        out = set()
        for y in self.bind.get(x, ()):
            out |= self.concrete(y, seen + (x,))
        return out

    def table(self):
        items, edges = set(), set()
        for (t, item, name, mult, src) in self.items:
            for c in self.concrete(t):
                items.add((c, item, name, mult, src))
        for (p, k, mult, src) in self.edges:
            for pc in self.concrete(p):
                for kc in self.concrete(k):
                    edges.add((pc, kc, mult, src))
        # a specialised role site inherits what its base site receives; the unspecialised base site disappears
        bases = set(self.spec.values())
        for s2, b in self.spec.items():
            items |= {(s2,) + r[1:] for r in items if r[0] == b}
            edges |= {(s2,) + r[1:] for r in edges if r[0] == b}
        items = {r for r in items if r[0] not in bases}
        edges = {r for r in edges if r[0] not in bases and r[1] not in bases}
        for sid, t in self.sites.items():
            if t[0] == "role" and sid not in bases:
                raise Unsupported("obstacle tag outside a role-specific writer class")
        parents = {}
        for (p, k, _, _) in edges:
            parents.setdefault(k, set()).add(self.tag_of(p))

        def kinds(sid):
            t = self.tag_of(sid)
            if t in AMBIG:
                return sorted(f"{p}/{t}" for p in parents.get(sid, {"?"}))
            return [t]
        rows = {}

        def add(kind, item, name, mult, src):
            k = (kind, item, name)
            if k in rows:
                m0, s0 = rows[k]
                # the same (kind, item) from two creation sites: `one` only if every site emits it on every path
                m = m0 if m0 == mult else ("many" if "many" in (m0, mult) else "opt")
                rows[k] = (m, ",".join(sorted(set(filter(None, s0.split(",") + src.split(","))))))
            else:
                rows[k] = (mult, src)
        for (c, item, name, mult, src) in items:
            for kd in kinds(c):
                add(kd, item, name, mult, src)
        for (p, k, mult, src) in edges:
            for kd in kinds(p):
                add(kd, "elem", self.tag_of(k), mult, src)
        return rows


def writer_rows(repo):
    tree = ast.parse(open(os.path.join(repo, WRITER), encoding="utf-8").read())
    # the file-level writer appends the children of <commonRoad> through `self._root_node`
    a = WriterAnalysis(tree)
    root = "XMLFileWriter.__init__@root"
    a.sites[root] = ("lit", "commonRoad")
    orig_ev = a.ev

    def ev(n, st):
        if isinstance(n, ast.Attribute) and dotted(n) == "self._root_node":
            return {root}
        return orig_ev(n, st)
    a.ev = ev
    a.run()
    a.sites[root] = ("lit", "commonRoad")
    rows = a.table()
    if not rows:
        raise Unsupported("empty writer table")
    return rows


# ===================================================================================================== reader
class ReaderAnalysis:
    """Which element kinds reach which `find` / `findall` / `get` / `.text` / child iteration."""

    def __init__(self, tree):
        self.funcs = {k: v for k, v in functions_of(tree).items() if k not in READER_EXCLUDE}
        self.pk = {}        # (qn, param) -> set of kinds
        self.rows = {}      # (kind, item, name) -> [set(how), required]
        self.nonesafe = set()   # (qn, param): the function returns early when the parameter is None
        for qn, (cls, fn) in self.funcs.items():
            for p in params_of(fn):
                body = [s for s in fn.body if not (isinstance(s, ast.Expr) and isinstance(s.value, ast.Constant))]
                for s in body[:3]:
                    if isinstance(s, ast.If) and self.none_test(s.test) == (p, True) and terminates(s.body):
                        self.nonesafe.add((qn, p))

    def close_nonesafe(self):
        """a parameter that is only ever handed on to None-safe parameters is None-safe itself"""
        changed = True
        while changed:
            changed = False
            for qn, (cls, fn) in self.funcs.items():
                for p in params_of(fn):
                    if (qn, p) in self.nonesafe:
                        continue
                    uses = [n for n in ast.walk(fn) if isinstance(n, ast.Name) and n.id == p and isinstance(n.ctx, ast.Load)]
                    ok = set()
                    for c in ast.walk(fn):
                        if isinstance(c, ast.Call):
                            callee = self.resolve(c.func, cls)
                            if callee is None:
                                continue
                            ps = params_of(self.funcs[callee][1])
                            for i, a in enumerate(c.args):
                                if isinstance(a, ast.Name) and a.id == p and i < len(ps) and (callee, ps[i]) in self.nonesafe:
                                    ok.add(id(a))
                    if uses and all(id(u) in ok for u in uses):
                        self.nonesafe.add((qn, p))
                        changed = True

    @staticmethod
    def none_test(t):
        """(expression text, True) for `e is None` / `not e`; (text, False) for `e is not None` / `e`"""
        if isinstance(t, ast.Compare) and len(t.ops) == 1 and isinstance(t.comparators[0], ast.Constant) \
                and t.comparators[0].value is None and isinstance(t.ops[0], (ast.Is, ast.IsNot)):
            return (ast.unparse(t.left), isinstance(t.ops[0], ast.Is))
        if isinstance(t, ast.UnaryOp) and isinstance(t.op, ast.Not) and isinstance(t.operand, (ast.Name, ast.Call)):
            return (ast.unparse(t.operand), True)
        return None

    def facts(self, test, positive):
        """expression texts known to be not None when `test` is true (positive) / false"""
        out = set()
        nt = self.none_test(test)
        if nt:
            if nt[1] != positive:
                out.add(nt[0])
            return out
        if isinstance(test, ast.BoolOp):
            if isinstance(test.op, ast.And) and positive:
                for v in test.values:
                    out |= self.facts(v, True)
            if isinstance(test.op, ast.Or) and not positive:
                for v in test.values:
                    out |= self.facts(v, False)
        return out

    @staticmethod
    def tag_of(kind):
        return kind.split("/")[-1]

    def child(self, kind, t):
        return f"{self.tag_of(kind)}/{t}" if t in AMBIG else t

    def resolve(self, f, cls):
        if isinstance(f, ast.Name):
            return f.id if f.id in self.funcs else None
        if isinstance(f, ast.Attribute) and isinstance(f.value, ast.Name):
            owner = cls if f.value.id in ("cls", "self") else f.value.id
            if f"{owner}.{f.attr}" in self.funcs:
                return f"{owner}.{f.attr}"
            # inherited class methods (ObstacleFactory.read_*)
            for qn in self.funcs:
                if qn.endswith("." + f.attr) and qn.split(".")[0] in self.bases.get(owner, ()):
                    return qn
        return None

    def name_arg(self, n):
        if isinstance(n, ast.Constant) and isinstance(n.value, str):
            return n.value
        if isinstance(n, ast.Attribute) and n.attr == "value" and dotted(n.value) in ("elem", "tag"):
            return "<Tag>"
        if isinstance(n, ast.Call) and dotted(n.func).endswith("_map_to_xml_prop") and len(n.args) == 1:
            return "<xmlName>"
        raise Unsupported(f"looked-up name {ast.unparse(n)}")

    def record(self, kinds, item, name, how, required):
        for k in kinds:
            r = self.rows.setdefault((k, item, name), [set(), False])
            r[0].add(how)
            r[1] = r[1] or required

    # ---- expressions.  `st["nn"]`: texts known not None; `use`: how the value of this expression is consumed
    def kind(self, n, st, use="deref"):
        """kinds of the element the expression denotes (recording every look-up on the way)"""
        if isinstance(n, ast.Name):
            if n.id in st["pending"] and use == "deref" and n.id not in st["nn"]:
                kinds, name = st["pending"][n.id]
                self.record(kinds, "elem", name, "find", True)
            return set(st["env"].get(n.id, ()))
        if isinstance(n, ast.Attribute):
            if dotted(n) == "self._tree":
                return {"commonRoad"}
            if n.attr == "text":
                ks = self.kind(n.value, st)
                self.record(ks, "text", "", "text", False)
                return set()
            if n.attr in ("_root", "attrib", "tag"):
                return self.kind(n.value, st)
            self.kind(n.value, st, "other")
            return set()
        if isinstance(n, ast.Subscript):
            if isinstance(n.value, ast.Attribute) and n.value.attr == "attrib" and isinstance(n.slice, ast.Constant):
                self.record(self.kind(n.value, st), "attr", n.slice.value, "attrib", True)
                return set()
            self.kind(n.value, st, "other")
            self.kind(n.slice, st, "other")
            return set()
        if isinstance(n, ast.Call):
            f = n.func
            if isinstance(f, ast.Attribute) and f.attr == "getroot":
                return self.kind(f.value, st)
            if isinstance(f, ast.Attribute) and f.attr in ("find", "findall", "iter", "get") and len(n.args) >= 1:
                ks = self.kind(f.value, st)
                if ks:
                    name = self.name_arg(n.args[0])
                    txt = ast.unparse(n)
                    if f.attr == "get":
                        req = use in ("num", "deref") and txt not in st["nn"]
                        self.record(ks, "attr", name, "get", req)
                        return set()
                    if f.attr in ("findall", "iter"):
                        self.record(ks, "elem", name, f.attr, False)
                    else:
                        req = use == "deref" and txt not in st["nn"]
                        self.record(ks, "elem", name, "find", req)
                    return {self.child(k, name) for k in ks}
            if isinstance(f, ast.Name) and f.id in ("list", "iter", "enumerate", "reversed", "sorted") and len(n.args) == 1:
                ks = self.kind(n.args[0], st)
                if isinstance(n.args[0], ast.Call):
                    return ks            # enumerate(x.findall(..))
                return {f"<child:{k}>" for k in ks if not k.startswith("<child:")}
            callee = self.resolve(f, st["cls"])
            if callee is not None:
                _, fn = self.funcs[callee]
                ps = params_of(fn)
                actual = {}
                for i, a in enumerate(n.args):
                    if i < len(ps):
                        actual[ps[i]] = a
                for k in n.keywords:
                    if k.arg:
                        actual[k.arg] = k.value
                for p, a in actual.items():
                    ks = self.kind(a, st, "maybe" if (callee, p) in self.nonesafe else "deref")
                    if ks:
                        self.pk.setdefault((callee, p), set()).update(ks)
                for a in n.args[len(ps):]:
                    self.kind(a, st, "other")
                return set()
            num = isinstance(f, ast.Name) and f.id in ("int", "float")
            if isinstance(f, ast.Attribute):
                self.kind(f.value, st, "other")
            for a in list(n.args) + [k.value for k in n.keywords]:
                self.kind(a, st, "num" if num else "other")
            return set()
        if isinstance(n, ast.Compare):
            nt = self.none_test(n)
            if nt:
                self.kind(n.left, st, "probe")
                return set()
            # `xml_node.tag == "rectangle"` on a child reached by iteration
            for c in [n.left] + list(n.comparators):
                self.kind(c, st, "other")
            return set()
        if isinstance(n, (ast.ListComp, ast.GeneratorExp, ast.SetComp)):
            st2 = self.fork(st)
            for g in n.generators:
                ks = self.kind(g.iter, st2, "other")
                for nm in ast.walk(g.target):
                    if isinstance(nm, ast.Name):
                        st2["env"][nm.id] = ks
                for c in g.ifs:
                    self.kind(c, st2, "other")
            self.kind(n.elt, st2, "other")
            return set()
        if isinstance(n, ast.IfExp):
            self.kind(n.test, st, "other")
            s1, s2 = self.fork(st), self.fork(st)
            s1["nn"] |= self.facts(n.test, True)
            s2["nn"] |= self.facts(n.test, False)
            return self.kind(n.body, s1, use) | self.kind(n.orelse, s2, use)
        if isinstance(n, ast.BoolOp):
            st2 = self.fork(st)
            for v in n.values:
                self.kind(v, st2, "other")
                if isinstance(n.op, ast.And):
                    st2["nn"] |= self.facts(v, True)
                else:
                    st2["nn"] |= self.facts(v, False)
            return set()
        if isinstance(n, ast.Lambda):
            return set()
        for c in ast.iter_child_nodes(n):
            if isinstance(c, ast.expr):
                self.kind(c, st, "other")
        return set()

    @staticmethod
    def fork(st):
        return {"env": dict(st["env"]), "nn": set(st["nn"]), "pending": dict(st["pending"]), "tagvar": dict(st["tagvar"]),
                "qn": st["qn"], "cls": st["cls"]}

    def tag_branch(self, test, st):
        """`<x>.tag == "lit"` / `tagvar == "lit"` where x is a child reached by iteration: (variable, lit)"""
        if isinstance(test, ast.Compare) and len(test.ops) == 1 and isinstance(test.ops[0], ast.Eq) \
                and isinstance(test.comparators[0], ast.Constant) and isinstance(test.comparators[0].value, str):
            l = test.left
            if isinstance(l, ast.Name) and l.id in st["tagvar"]:
                return st["tagvar"][l.id], test.comparators[0].value
            if isinstance(l, ast.Attribute) and l.attr == "tag" and isinstance(l.value, ast.Name):
                return l.value.id, test.comparators[0].value
        return None

    def walk(self, stmts, st):
        for s in stmts:
            self.stmt(s, st)

    def stmt(self, s, st):
        if isinstance(s, ast.Expr):
            self.kind(s.value, st, "other")
            return
        if isinstance(s, (ast.Assign, ast.AnnAssign, ast.AugAssign)):
            if s.value is None:
                return
            tg = s.targets[0] if isinstance(s, ast.Assign) else s.target
            if isinstance(tg, ast.Name) and isinstance(s.value, ast.Attribute) and s.value.attr == "tag" \
                    and isinstance(s.value.value, ast.Name):
                st["tagvar"][tg.id] = s.value.value.id
                return
            if isinstance(tg, ast.Name) and isinstance(s.value, ast.Call) and isinstance(s.value.func, ast.Attribute) \
                    and s.value.func.attr == "find":
                # `v = x.find("t")`: required only if v is dereferenced later without a None test
                ks = self.kind(s.value.func.value, st)
                if ks:
                    name = self.name_arg(s.value.args[0])
                    self.record(ks, "elem", name, "find", False)
                    st["env"][tg.id] = {self.child(k, name) for k in ks}
                    st["nn"].discard(tg.id)
                    if ast.unparse(s.value) in st["nn"]:
                        st["nn"].add(tg.id)
                    st["pending"][tg.id] = (ks, name)
                    return
            ks = self.kind(s.value, st, "other" if not isinstance(s.value, (ast.Name,)) else "alias")
            for nm in ast.walk(tg):
                if isinstance(nm, ast.Name) and isinstance(nm.ctx, ast.Store):
                    st["env"][nm.id] = ks if isinstance(tg, ast.Name) else set()
                    st["pending"].pop(nm.id, None)
            if not isinstance(tg, ast.Name):
                self.kind(tg, st, "other")
            return
        if isinstance(s, ast.If):
            self.kind(s.test, st, "other")
            s1, s2 = self.fork(st), self.fork(st)
            s1["nn"] |= self.facts(s.test, True)
            s2["nn"] |= self.facts(s.test, False)
            tb = self.tag_branch(s.test, st)
            if tb:
                var, lit = tb
                ks = {k[len("<child:"):-1] for k in st["env"].get(var, ()) if k.startswith("<child:")}
                self.record(ks, "elem", lit, "iter", False)
                if ks:
                    s1["env"][var] = {self.child(k, lit) for k in ks}
            self.walk(s.body, s1)
            self.walk(s.orelse, s2)
            for k in set(s1["env"]) | set(s2["env"]):
                st["env"][k] = set(s1["env"].get(k, ())) | set(s2["env"].get(k, ()))
            for k in set(s1["pending"]) | set(s2["pending"]):
                st["pending"][k] = s1["pending"].get(k) or s2["pending"].get(k)
            st["tagvar"].update(s1["tagvar"])
            st["tagvar"].update(s2["tagvar"])
            if terminates(s.body) and not terminates(s.orelse):
                st["nn"] |= self.facts(s.test, False)
            elif s.orelse and terminates(s.orelse) and not terminates(s.body):
                st["nn"] |= self.facts(s.test, True)
            else:
                st["nn"] |= (s1["nn"] & s2["nn"])
            return
        if isinstance(s, ast.For):
            ks = self.kind(s.iter, st, "other")
            names = [nm for nm in ast.walk(s.target) if isinstance(nm, ast.Name)]
            for nm in names:
                st["env"][nm.id] = set()
                st["pending"].pop(nm.id, None)
            if names:
                st["env"][names[-1].id] = ks
                st["nn"].add(names[-1].id)
            self.walk(s.body, st)
            self.walk(s.orelse, st)
            return
        if isinstance(s, ast.While):
            self.kind(s.test, st, "other")
            self.walk(s.body, st)
            return
        if isinstance(s, ast.Try):
            self.walk(s.body, st)
            for h in s.handlers:
                self.walk(h.body, st)
            self.walk(s.orelse, st)
            self.walk(s.finalbody, st)
            return
        if isinstance(s, ast.With):
            self.walk(s.body, st)
            return
        if isinstance(s, (ast.Return, ast.Assert, ast.Raise)):
            for c in ast.iter_child_nodes(s):
                if isinstance(c, ast.expr):
                    self.kind(c, st, "other")
            return
        if isinstance(s, (ast.Pass, ast.Continue, ast.Break, ast.Import, ast.ImportFrom, ast.Delete, ast.Global)):
            return
        raise Unsupported(f"reader statement {type(s).__name__}")

    def run(self, tree):
        self.bases = {}
        for n in tree.body:
            if isinstance(n, ast.ClassDef):
                self.bases[n.name] = [dotted(b) for b in n.bases]
        self.close_nonesafe()
        for _ in range(10):
            before = sum(len(v) for v in self.pk.values())
            self.rows = {}
            for qn, (cls, fn) in self.funcs.items():
                ps = params_of(fn)
                st = {"env": {p: set(self.pk.get((qn, p), ())) for p in ps}, "nn": set(), "pending": {}, "tagvar": {},
                      "qn": qn, "cls": cls}
                for p in ps:
                    if (qn, p) not in self.nonesafe:
                        st["nn"].add(p)
                self.walk(fn.body, st)
            if sum(len(v) for v in self.pk.values()) == before:
                break
        else:
            raise Unsupported("reader kinds do not stabilise")


def reader_rows(repo):
    tree = ast.parse(open(os.path.join(repo, READER), encoding="utf-8").read())
    a = ReaderAnalysis(tree)
    a.run(tree)
    rows = {k: v for k, v in a.rows.items() if not k[0].startswith("<child:")}
    if not rows:
        raise Unsupported("empty reader table")
    return rows


# ===================================================================================================== Lean text
def writer_text(repo):
    rows = writer_rows(repo)
    lines = ["/-- " + WRITER + ": what the writer can emit (kind, item, name, multiplicity, source attribute paths) -/",
             "def writer : List CR.X.Tie.W := ["]
    body = [f"  ⟨{q(k[0])}, .{k[1]}, {q(k[2])}, .{v[0]}, {q(v[1])}⟩" for k, v in sorted(rows.items())]
    return "\n".join(lines) + "\n" + ",\n".join(body) + "]\n"


def reader_text(repo):
    rows = reader_rows(repo)
    lines = ["/-- " + READER + ": what the reader looks up (kind, item, name, how, required) -/",
             "def reader : List CR.X.Tie.R := ["]
    body = [f"  ⟨{q(k[0])}, .{k[1]}, {q(k[2])}, {q('+'.join(sorted(v[0])))}, {'true' if v[1] else 'false'}⟩"
            for k, v in sorted(rows.items())]
    return "\n".join(lines) + "\n" + ",\n".join(body) + "]\n"


# ---- functional translation of the string helpers
class StrTr(Tr):
    """`Tr` + string constants, `in` on strings, `str.split`, slices `[:n]`, string concatenation, the two formatting calls"""

    def e(self, n):
        t = self.t
        if isinstance(n, ast.Constant) and isinstance(n.value, str):
            return q(n.value)
        if isinstance(n, ast.Compare) and len(n.ops) == 1 and isinstance(n.ops[0], (ast.In, ast.NotIn)) \
                and isinstance(n.left, ast.Constant) and isinstance(n.left.value, str):
            r = f"(CR.PyC01.strIn {q(n.left.value)} {self.e(n.comparators[0])})"
            return r if isinstance(n.ops[0], ast.In) else f"(!{r})"
        if isinstance(n, ast.Compare) and len(n.ops) == 1 and isinstance(n.ops[0], (ast.Eq, ast.NotEq)) and \
                any(isinstance(x, ast.Constant) and isinstance(x.value, str) for x in (n.left, n.comparators[0])):
            r = f"({self.e(n.left)} == {self.e(n.comparators[0])})"
            return r if isinstance(n.ops[0], ast.Eq) else f"(!{r})"
        if isinstance(n, ast.BinOp) and isinstance(n.op, ast.Add) and t.ret.endswith("String"):
            return f"({self.e(n.left)} ++ {self.e(n.right)})"
        if isinstance(n, ast.Subscript) and isinstance(n.slice, ast.Slice):
            sl = n.slice
            if sl.lower is None and sl.step is None and sl.upper is not None:
                return f"(CR.PyC01.strTake {self.e(n.value)} {self.e(sl.upper)})"
            raise Unsupported("slice")
        if isinstance(n, ast.Call):
            d = self.dotted(n.func)
            if d == "str" and len(n.args) == 1 and isinstance(n.args[0], ast.Name) and ("str", n.args[0].id) in t.names:
                return t.names[("str", n.args[0].id)]
            if isinstance(n.func, ast.Attribute) and n.func.attr == "split" and len(n.args) == 1 \
                    and isinstance(n.args[0], ast.Constant) and n.args[0].value == ".":
                return f"(CR.PyC01.splitDot {self.e(n.func.value)})"
            if d == "format" and len(n.args) == 2 and ast.unparse(n.args[1]) == "'.{}f'.format(precision.decimals)" \
                    and isinstance(n.args[0], ast.Name) and ("str", n.args[0].id) in t.names:
                return f"(CR.PyC01.formatFixed P {t.names[('str', n.args[0].id)]})"
            if d == "np.format_float_positional" and len(n.args) == 1 and len(n.keywords) == 1 and n.keywords[0].arg == "trim" \
                    and ast.unparse(n.keywords[0].value) == "'0'" and isinstance(n.args[0], ast.Name) \
                    and ("str", n.args[0].id) in t.names:
                return f"(CR.PyC01.formatPositional P {t.names[('str', n.args[0].id)]})"
            if d == "re.sub" and len(n.args) == 3 and isinstance(n.args[0], ast.Constant):
                if n.args[0].value == CAMEL_RE and isinstance(n.args[1], ast.Lambda) \
                        and ast.unparse(n.args[1].body) == "m.group(1).upper()":
                    return f"(CR.PyC01.reCamel {self.e(n.args[2])})"
                if n.args[0].value == "(?<!^)(?=[A-Z])" and isinstance(n.args[1], ast.Constant) and n.args[1].value == "_":
                    return f"(CR.PyC01.reSnakeSep {self.e(n.args[2])})"
                raise Unsupported("re.sub pattern")
            if isinstance(n.func, ast.Attribute) and n.func.attr == "lower" and not n.args:
                return f"(CR.PyC01.strLower {self.e(n.func.value)})"
        if isinstance(n, ast.IfExp):
            # `(← …)` inside a term-level `if` would be lifted out of it (evaluated on both paths): not a translation
            before, self.uses_bind = self.uses_bind, False
            txt = f"(if {self.e(n.test)} then {self.e(n.body)} else {self.e(n.orelse)})"
            if self.uses_bind:
                raise Unsupported("partial operation inside a conditional expression")
            self.uses_bind = before
            return txt
        if isinstance(n, ast.Attribute) and self.dotted(n) == "precision.decimals":
            return "(P.d : Int)"
        return super().e(n)


def str_targets():
    P = (None, "P : CR.X.Params")
    return [
        Target("float_to_str", WRITER, "float_to_str", None, [P, ("f", "f : String")], "String",
               names={("str", "f"): "f"}, monadic=True,
               doc="the argument is `str(f)` (the repr of the np.float64); `format(f, '.{d}f')` is the table `P.fix`"),
        Target("decimal_to_str", WRITER, "decimal_to_str", None, [P, ("value", "value : String")], "String",
               names={("str", "value"): "value"}, monadic=True,
               doc="the argument is `str(value)`; `np.format_float_positional(value, trim='0')` is the table `P.pos`"),
        Target("writer_map_to_xml_prop", WRITER, "_map_to_xml_prop", "StateXMLNode", [("prop", "prop : String")], "String"),
        Target("reader_map_to_xml_prop", READER, "_map_to_xml_prop", "StateFactory", [("prop", "prop : String")], "String"),
        Target("reader_map_to_prop", READER, "_map_to_prop", "StateFactory", [("xml_prop", "xml_prop : String")], "String"),
    ]


def str_text(repo, t):
    tree = ast.parse(open(os.path.join(repo, t.file), encoding="utf-8").read())
    fn = find_func(tree, t.cls, t.func)
    return StrTr(t).function(fn)


HEADER = """/-
  Gen.SrcC01 — GENERATED on every run by harness/translate/src_c01.py from the current source of
  commonroad/common/writer/file_writer_xml.py and commonroad/common/reader/file_reader_xml.py. Do not edit.
-/
import CRModel.PyExt
import CRModel.PyExtC01
set_option linter.unusedVariables false
"""


def parts(repo):
    ps = [("C01_writer", "Gen.C01", lambda: writer_text(repo)), ("C01_reader", "Gen.C01", lambda: reader_text(repo))]
    for t in str_targets():
        ps.append(("C01_" + t.name, "Gen", (lambda t=t: str_text(repo, t))))
    return ps


def regenerate(repo, gen_dir):
    os.makedirs(gen_dir, exist_ok=True)
    os.makedirs(LASTGOOD, exist_ok=True)
    status, chunks = {}, []
    for name, ns, f in parts(repo):
        lg = os.path.join(LASTGOOD, name + ".lean")
        try:
            txt = f()
            status[name] = "ok"
        except Exception as e:  # noqa -- whatever goes wrong in a translator is `lost`, never a verdict (ERRS are the expected ones)
            if os.path.exists(lg):
                txt = open(lg).read()
                status[name] = f"lost ({type(e).__name__}: {e}); last good translation used"
            else:
                txt = f"-- {name}: not translatable ({e})\n"
                status[name] = f"lost ({type(e).__name__}: {e}); no fallback"
        chunks.append(f"namespace {ns}\nopen CR\n\n{txt}\nend {ns}\n")
    new = HEADER + "\n" + "\n".join(chunks)
    path = os.path.join(gen_dir, "SrcC01.lean")
    old = open(path).read() if os.path.exists(path) else None
    if old != new:
        with open(path, "w") as fh:
            fh.write(new)
    return status


def update_lastgood(repo):
    os.makedirs(LASTGOOD, exist_ok=True)
    for name, ns, f in parts(repo):
        open(os.path.join(LASTGOOD, name + ".lean"), "w").write(f())


if __name__ == "__main__":
    import sys
    args = [a for a in sys.argv[1:] if not a.startswith("--")]
    repo = args[0] if args else os.environ.get("VERIF_REPO", "/repo")
    if "--update-lastgood" in sys.argv:
        update_lastgood(repo)
    st = regenerate(repo, os.path.join(os.path.dirname(os.path.dirname(HERE)), "lean", "Gen"))
    for k, v in st.items():
        print(k, v)
