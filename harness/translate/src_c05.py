"""py -> Lean translator for property C05 (translate_rotate is the exact rigid motion on every object).

`regenerate(repo, gen_dir)` writes `<gen_dir>/SrcC05.lean` (module `Gen.SrcC05`) from the CURRENT source:

* functional translation (typed): commonroad/geometry/transform.py (translation_rotation_matrix, rotation_translation_matrix,
  translate_rotate, rotate_translate, to_/from_homogeneous_coordinates) and every `translate_rotate` method of the library.  Every
  Python expression gets a static layout type (`pt`, `pts` = (n,2) rows, `ptsT` = (2,n), `hs` = (n,3), `hsT` = (3,n), `m3`, `rat`,
  model types ...); numpy idioms are mapped through the fixed table lean/CRModel/PyExtC05.lean.  An object that is mutated in place
  is a set of `let mut` field variables; the generated definition returns the model record built from their final values.
* structural extraction: for every class that defines `translate_rotate`, the attributes of `self` the method assigns, calls
  `translate_rotate` on, or iterates over — `Gen.C05.movedTable` (sorted), compared with the model's table by `decide` in T05.

A function that cannot be translated any more is `lost (...)`: its last good text (harness/translate/lastgood/C05_*.lean) is emitted,
never an alarm (the correspondence tie of harness/c05.py still stands).
"""
from __future__ import annotations

import ast
import os

from .pysrc import Target, Tr, find_func, Unsupported   # noqa: F401  (Target / Tr: same protocol; own typed translator below)

HERE = os.path.dirname(os.path.abspath(__file__))
LASTGOOD = os.path.join(HERE, "lastgood")

RAT_CONSTS = (int, float)


class T5:
    """One translation target."""

    def __init__(self, name, file, func, cls=None, binders="", ret="Rat", env=None, attrs=None, assign=None, result=None,
                 monadic=True, methods=None, ctors=None, src=None, ignore=(), doc="", opt=None, super_call=None,
                 init=(), copies=None, refine=None, ignore_assign=(), ret_types=None, refs=None):
        self.name, self.file, self.func, self.cls = name, file, func, cls
        self.binders, self.ret = binders, ret
        self.env = dict(env or {})          # python local / parameter name -> (lean, type)
        self.attrs = dict(attrs or {})      # (var, attr) -> (lean, type)           read access
        self.assign = dict(assign or {})    # (var, attr) -> (lean mut var, {value type: template with {v}})
        self.result = result                # lean text of the returned record when the method falls off its end
        self.monadic = monadic
        self.methods = dict(methods or {})  # receiver type -> (lean function, "ret" | "inplace", result type)
        self.ctors = dict(ctors or {})      # class name -> (template with {0} {1} .., [arg types], result type, monadic)
        self.src = dict(src or {})          # exact source text of an expression -> (lean, type)   (idioms of dynamic typing)
        self.ignore = set(ignore)           # calls without modelled effect (cache invalidation, spatial index)
        self.doc = doc
        self.opt = dict(opt or {})          # (var, attr) of an Optional attribute -> (lean mut var, element type)
        self.super_call = super_call        # lean function `super().translate_rotate(translation, angle)` denotes
        self.init = list(init)              # (lean mut var, initial value): the fields of `self` the method may assign
        self.copies = dict(copies or {})    # local object name -> ([(lean mut var, field of the model record)], (lean record, type))
        self.refine = dict(refine or {})    # source of an isinstance test -> (lean Bool, {source text: (lean, type)} inside its branch)
        self.ignore_assign = set(ignore_assign)   # attributes whose assignment has no modelled effect (spatial index, caches)
        self.ret_types = dict(ret_types or {})    # type of a returned expression -> template of the returned model value
        # reference view (objects held by reference and mutated in place; `is` tests): see `Ty.sloop`.  Keys: heap = (lean var,
        # initial value, lean type), elem = (element type, lean type), fields = {attr: (projection, type)} value attributes of an
        # element, ref_fields = {attr: projection} attributes holding an object reference, deref = template({heap},{ref}),
        # obj_method = (lean fn on the dereferenced record, record template({FIELD}.., {obj}), {attr: field of the result},
        # field of the result that is the moved referenced object), ref_method = lean fn on a dereferenced object,
        # binders / args = what the loop body sees of the enclosing function
        self.refs = refs


TRANSFORM = "commonroad/geometry/transform.py"

LEAN_WORDS = {"end", "from", "init", "at", "do", "then", "have", "show", "fun", "let", "in", "if", "else", "match", "with", "for",
              "open", "section", "namespace", "instance", "structure", "class", "def", "theorem", "where", "by", "Type", "Prop",
              "Sort", "st", "m", "heap", "mut", "return", "deriving", "variable", "universe", "export", "import", "local"}


def lean_name(py):
    return py + "_" if py in LEAN_WORDS else py


class Ty:
    def __init__(self, t: T5):
        self.t = t
        self.env = dict(t.env)
        self.muts = set(v for v, _ in t.init)
        self.tmp = 0
        self.depth = 0
        self.acc_kind = {}      # python name of a list / set of object references -> "ref" (objects) | "id" (their id())
        self.in_sloop = None    # inside the body of a loop over elements that hold references: (python loop variable, heap var)
        self.pre = []           # auxiliary definitions (loop bodies) emitted before the function
        self.nloops = 0

    # ------------------------------------------------------------------ helpers
    def dotted(self, n):
        if isinstance(n, ast.Name):
            return n.id
        if isinstance(n, ast.Attribute):
            return self.dotted(n.value) + "." + n.attr
        if isinstance(n, ast.Call):
            return self.dotted(n.func) + "()"
        return "?"

    def fresh(self, base="v"):
        self.tmp += 1
        return f"{base}_{self.tmp}"

    def need(self, got, want, what):
        if got not in (want if isinstance(want, (tuple, list, set)) else (want,)):
            raise Unsupported(f"{what}: type {got}, expected {want}")

    def const(self, n):
        return isinstance(n, ast.Constant) and isinstance(n.value, RAT_CONSTS) and not isinstance(n.value, bool)

    def num(self, v):
        if isinstance(v, float):
            if v != int(v):
                raise Unsupported(f"float literal {v}")
            v = int(v)
        return f"{v}" if v >= 0 else f"({v})"

    # ------------------------------------------------------------------ expressions: returns (lean, type)
    def e(self, n):
        t = self.t
        s = ast.unparse(n)
        if s in t.src:
            return t.src[s]
        if isinstance(n, ast.Constant):
            if isinstance(n.value, bool):
                return ("true" if n.value else "false", "bool")
            if n.value is None:
                return ("none", "none")
            if isinstance(n.value, RAT_CONSTS):
                return (self.num(n.value), "rat")
            raise Unsupported(f"constant {n.value!r}")
        if isinstance(n, ast.Name):
            if n.id in self.env:
                return self.env[n.id]
            raise Unsupported(f"unknown name {n.id}")
        if isinstance(n, ast.Attribute):
            key = (self.dotted(n.value), n.attr)
            if key in t.attrs:
                return t.attrs[key]
            if key in self.env:
                return self.env[key]
            raise Unsupported(f"attribute {self.dotted(n)}")
        if isinstance(n, ast.UnaryOp):
            a, ty = self.e(n.operand)
            if isinstance(n.op, ast.USub):
                self.need(ty, ("rat", "angle"), "unary minus")
                return (f"(-{a})", "rat")
            if isinstance(n.op, ast.Not):
                self.need(ty, "bool", "not")
                return (f"(!{a})", "bool")
            raise Unsupported("unary op")
        if isinstance(n, ast.BinOp):
            (a, ta), (b, tb) = self.e(n.left), self.e(n.right)
            if ta == "angleiv" and isinstance(n.op, ast.Add) and tb == "angle":
                return (f"(← CR.Iv.addAngle m.τ {a} {b})", "angleiv")      # AngleInterval.__add__ (model: CR.Iv.addAngle, tied in T16)
            self.need(ta, ("rat", "angle"), "arithmetic")
            self.need(tb, ("rat", "angle"), "arithmetic")
            op = {ast.Add: "+", ast.Sub: "-", ast.Mult: "*"}.get(type(n.op))
            if op is None:
                raise Unsupported(f"binary op {type(n.op).__name__}")
            return (f"({a} {op} {b})", "rat")
        if isinstance(n, ast.BoolOp):
            parts = [self.e(v) for v in n.values]
            for _, ty in parts:
                self.need(ty, "bool", "and/or")
            op = " && " if isinstance(n.op, ast.And) else " || "
            return ("(" + op.join(p for p, _ in parts) + ")", "bool")
        if isinstance(n, ast.Compare) and len(n.ops) == 1:
            op, r = n.ops[0], n.comparators[0]
            if isinstance(op, (ast.Is, ast.IsNot)) and isinstance(r, ast.Constant) and r.value is None:
                a, ty = self.e(n.left)
                if not ty.startswith("opt:"):
                    raise Unsupported(f"`is None` on {ty}")
                return (f"({a}).isNone" if isinstance(op, ast.Is) else f"({a}).isSome", "bool")
            if t.refs:
                got = self.ref_compare(n.left, op, r)
                if got:
                    return got
            # static shape tests of to_/from_homogeneous_coordinates
            st = self.static_int(n.left), self.static_int(r)
            if st[0] is not None and st[1] is not None and isinstance(op, ast.Eq):
                return ("true" if st[0] == st[1] else "false", "bool")
            (a, ta), (b, tb) = self.e(n.left), self.e(r)
            self.need(ta, ("rat", "angle"), "comparison")
            self.need(tb, ("rat", "angle"), "comparison")
            sym = {ast.Lt: "<", ast.LtE: "≤", ast.Gt: ">", ast.GtE: "≥", ast.Eq: "=", ast.NotEq: "≠"}.get(type(op))
            if sym is None:
                raise Unsupported("comparison")
            return (f"decide ({a} {sym} {b})", "bool")
        if isinstance(n, ast.IfExp):
            (c, tc), (a, ta), (b, tb) = self.e(n.test), self.e(n.body), self.e(n.orelse)
            self.need(tc, "bool", "condition")
            self.need(tb, ta, "conditional expression")
            return (f"(if {c} then {a} else {b})", ta)
        if isinstance(n, ast.Tuple):
            parts = [self.e(x) for x in n.elts]
            return ("(" + ", ".join(p for p, _ in parts) + ")", "tuple:" + ",".join(ty for _, ty in parts))
        if isinstance(n, ast.Subscript):
            return self.subscript(n)
        if isinstance(n, ast.Call):
            return self.call(n)
        if isinstance(n, ast.ListComp):
            return self.listcomp(n)
        raise Unsupported(f"expression {type(n).__name__}")

    def static_int(self, n):
        """len(x.shape) / x.shape[k] from the static layout type; integer literals."""
        if isinstance(n, ast.Constant) and isinstance(n.value, int):
            return n.value
        shapes = {"pts": ("n", 2), "hs": ("n", 3), "ptsT": (2, "n"), "hsT": (3, "n"), "m3": (3, 3)}
        if isinstance(n, ast.Call) and self.dotted(n.func) == "len" and len(n.args) == 1 and isinstance(n.args[0], ast.Attribute) \
                and n.args[0].attr == "shape":
            ty = self.e(n.args[0].value)[1]
            return len(shapes[ty]) if ty in shapes else None
        if isinstance(n, ast.Subscript) and isinstance(n.value, ast.Attribute) and n.value.attr == "shape" \
                and isinstance(n.slice, ast.Constant):
            ty = self.e(n.value.value)[1]
            if ty in shapes and isinstance(shapes[ty][n.slice.value], int):
                return shapes[ty][n.slice.value]
        return None

    def subscript(self, n):
        a, ty = self.e(n.value)
        sl = n.slice
        if isinstance(sl, ast.Constant) and isinstance(sl.value, int):
            if ty == "pt" and sl.value in (0, 1):
                return (f"{a}.{'xy'[sl.value]}", "rat")
            if ty == "pts":
                return (f"(← CR.Py.getItem {a} {self.num(sl.value)})", "pt")
            if ty.startswith("list:"):
                return (f"(← CR.Py.getItem {a} {self.num(sl.value)})", ty[5:])
            raise Unsupported(f"index into {ty}")
        if isinstance(sl, ast.Tuple) and len(sl.elts) == 2:
            def rng(x):
                if isinstance(x, ast.Slice) and x.step is None:
                    lo = 0 if x.lower is None else (x.lower.value if isinstance(x.lower, ast.Constant) else "?")
                    hi = None if x.upper is None else (x.upper.value if isinstance(x.upper, ast.Constant) else "?")
                    return (lo, hi)
                return "?"
            r0, r1 = rng(sl.elts[0]), rng(sl.elts[1])
            if ty == "hs" and r0 == (0, None) and r1 == (0, 2):
                return (f"(({a}).map CR.PyC05.fromH)", "pts")
            if ty == "hsT" and r0 == (0, 2) and r1 == (0, None):
                return (f"(({a}).map CR.PyC05.fromH)", "ptsT")
            raise Unsupported(f"slice of {ty}")
        raise Unsupported("subscript")

    def ones(self, n, rows_first):
        """np.ones((len(P), 1)) / np.ones((P.shape[0], 1))   (rows_first)   or   np.ones((1, P.shape[0])): lean text of P."""
        if not (isinstance(n, ast.Call) and self.dotted(n.func) == "np.ones" and len(n.args) == 1 and isinstance(n.args[0], ast.Tuple)
                and len(n.args[0].elts) == 2):
            raise Unsupported("np.ones pattern")
        a, b = n.args[0].elts
        one, cnt = (b, a) if rows_first else (a, b)
        if not (isinstance(one, ast.Constant) and one.value == 1):
            raise Unsupported("np.ones shape")
        if isinstance(cnt, ast.Call) and self.dotted(cnt.func) == "len" and len(cnt.args) == 1:
            p, ty = self.e(cnt.args[0])
        elif isinstance(cnt, ast.Subscript) and isinstance(cnt.value, ast.Attribute) and cnt.value.attr == "shape" \
                and isinstance(cnt.slice, ast.Constant) and cnt.slice.value == 0:
            p, ty = self.e(cnt.value.value)
        else:
            raise Unsupported("np.ones count")
        self.need(ty, "pts", "np.ones count")
        return p

    def matrix_literal(self, n):
        if isinstance(n, ast.List) and len(n.elts) == 3 and all(isinstance(r, ast.List) and len(r.elts) == 3 for r in n.elts):
            cells = []
            for r in n.elts:
                for c in r.elts:
                    x, ty = self.e(c)
                    self.need(ty, ("rat", "angle"), "matrix cell")
                    cells.append(x)
            return ("(CR.PyC05.M3.mk " + " ".join(cells) + ")", "m3")
        return None

    def call(self, n):
        t = self.t
        f = n.func
        d = self.dotted(f)
        # ---- type predicates that are static for the declared parameter types
        if d == "is_real_number_vector" and len(n.args) == 2 and isinstance(n.args[1], ast.Constant) and n.args[1].value == 2:
            self.need(self.e(n.args[0])[1], "pt", d)
            return ("true", "bool")
        if d == "is_real_number" and len(n.args) == 1:
            self.need(self.e(n.args[0])[1], ("rat", "angle"), d)
            return ("true", "bool")
        if d == "is_valid_orientation" and len(n.args) == 1:
            a, ty = self.e(n.args[0])
            self.need(ty, ("rat", "angle"), d)
            return (f"(CR.Iv.validOrientation {self.env['TWO_PI'][0]} {a})", "bool")
        if d in ("math.cos", "math.sin") and len(n.args) == 1:
            a, ty = self.e(n.args[0])
            self.need(ty, "angle", d + " of anything but the angle parameter")
            return self.env["cos(angle)" if d == "math.cos" else "sin(angle)"]
        if d == "make_valid_orientation" and len(n.args) == 1:
            a, ty = self.e(n.args[0])
            self.need(ty, "rat", d)
            return (f"(CR.Iv.makeValid {self.env['TWO_PI'][0]} {a})", "rat")      # model function, tied to util.py in T16
        # ---- numpy
        if d in ("np.array", "np.asarray"):
            extra = [k.arg for k in n.keywords if k.arg != "dtype"]
            if extra or len(n.args) != 1:
                raise Unsupported(d)
            m = self.matrix_literal(n.args[0])
            if m:
                return m
            if isinstance(n.args[0], ast.List):
                parts = [self.e(x) for x in n.args[0].elts]
                for _, ty in parts:
                    self.need(ty, "pt", "np.array of vertices")
                return ("[" + ", ".join(p for p, _ in parts) + "]", "pts")
            a, ty = self.e(n.args[0])
            self.need(ty, ("pts", "pt"), d)
            return (a, ty)
        if isinstance(f, ast.Attribute) and f.attr == "reshape" and len(n.args) == 1 and ast.unparse(n.args[0]) in ("[1, -1]", "(1, -1)", "(1, 2)", "[1, 2]"):
            a, ty = self.e(f.value)
            self.need(ty, "pt", "reshape")
            return (f"[{a}]", "pts")
        if isinstance(f, ast.Attribute) and f.attr == "transpose" and not n.args:
            a, ty = self.e(f.value)
            flip = {"pts": "ptsT", "ptsT": "pts", "hs": "hsT", "hsT": "hs"}
            if ty not in flip:
                raise Unsupported(f"transpose of {ty}")
            return (a, flip[ty])
        if isinstance(f, ast.Attribute) and f.attr == "dot" and len(n.args) == 1:
            (a, ta), (b, tb) = self.e(f.value), self.e(n.args[0])
            self.need(ta, "m3", "dot")
            if tb == "m3":
                return (f"(CR.PyC05.M3.dot {a} {b})", "m3")
            if tb == "hsT":
                return (f"(({b}).map (CR.PyC05.M3.app {a}))", "hsT")
            raise Unsupported(f"dot with {tb}")
        if d == "np.hstack" and len(n.args) == 1 and isinstance(n.args[0], ast.Tuple) and len(n.args[0].elts) == 2:
            p, ty = self.e(n.args[0].elts[0])
            self.need(ty, "pts", d)
            if self.ones(n.args[0].elts[1], True) != p:
                raise Unsupported("np.hstack: ones of another array")
            return (f"(({p}).map CR.PyC05.toH)", "hs")
        if d == "np.vstack" and len(n.args) == 1 and isinstance(n.args[0], ast.Tuple) and len(n.args[0].elts) == 2:
            p, ty = self.e(n.args[0].elts[0])
            self.need(ty, "ptsT", d)
            if self.ones(n.args[0].elts[1], False) != p:
                raise Unsupported("np.vstack: ones of another array")
            return (f"(({p}).map CR.PyC05.toH)", "hsT")
        if d == "np.concatenate" and len(n.args) == 1 and isinstance(n.args[0], ast.Tuple):
            parts = [self.e(x) for x in n.args[0].elts]
            for _, ty in parts:
                self.need(ty, "pts", d)
            return ("(" + " ++ ".join(p for p, _ in parts) + ")", "pts")
        if d in ("np.flip", "np.flipud") and len(n.args) in (1, 2):
            if d == "np.flip" and not (len(n.args) == 2 and isinstance(n.args[1], ast.Constant) and n.args[1].value == 0):
                raise Unsupported("np.flip axis")
            a, ty = self.e(n.args[0])
            self.need(ty, "pts", d)
            return (f"({a}).reverse", "pts")
        if d == "copy.copy" and len(n.args) == 1:
            return self.e(n.args[0])
        # ---- object references (targets with a reference view)
        if t.refs and d == "id" and len(n.args) == 1 and not n.keywords:
            a, ty = self.e(n.args[0])
            self.need(ty, "ref", "id() of anything but an object held by reference")
            return (a, "id")
        if t.refs and d in ("any", "all") and len(n.args) == 1 and isinstance(n.args[0], (ast.GeneratorExp, ast.ListComp)):
            g = n.args[0]
            if len(g.generators) != 1 or g.generators[0].ifs or not isinstance(g.generators[0].target, ast.Name):
                raise Unsupported(d + "(...) comprehension")
            it, ity = self.e(g.generators[0].iter)
            self.need(ity, "refacc", d + "(...) over anything but a local list of object references")
            var = lean_name(g.generators[0].target.id)
            saved = dict(self.env)
            self.env[g.generators[0].target.id] = (var, self.acc_kind.get(self.acc_of(g.generators[0].iter), "ref"))
            try:
                c, cty = self.e(g.elt)
            finally:
                self.env = saved
            self.need(cty, "bool", d + "(...) element")
            return (f"({it}.{d} (fun {var} => {c}))", "bool")
        # ---- translated functions of transform.py
        for mod in ("", "commonroad.geometry.transform."):
            for fn, (lean, argt, rt) in FUNCS.items():
                if d == mod + fn:
                    if len(n.args) != len(argt) or n.keywords:
                        raise Unsupported(f"call {d}: arity")
                    args = []
                    for x, want in zip(n.args, argt):
                        a, ty = self.e(x)
                        self.need(ty, want, f"call {d}")
                        if want != "angle":
                            args.append(a)
                    ang = [self.e(x)[0] for x, want in zip(n.args, argt) if want == "angle"]
                    pre = f"{self.env['cos(angle)'][0]} {self.env['sin(angle)'][0]} {ang[0]} " if ang else ""
                    return (f"({lean} {pre}" + " ".join(args) + ")", rt)
        # ---- constructors
        if d in t.ctors:
            tmpl, argt, rt, monadic = t.ctors[d]
            if len(n.args) != len(argt) or n.keywords:
                raise Unsupported(f"constructor {d}: arity")
            args = []
            for x, want in zip(n.args, argt):
                a, ty = self.e(x)
                self.need(ty, want, f"constructor {d}")
                args.append(a)
            txt = tmpl.format(*args)
            return (f"(← {txt})" if monadic else f"({txt})", rt)
        # ---- super().translate_rotate(translation, angle)
        if d == "super().translate_rotate" and t.super_call:
            self.motion_args(n)
            return (f"(← {t.super_call[0]})", t.super_call[1])
        # ---- x.translate_rotate(translation, angle) returning the moved object
        if isinstance(f, ast.Attribute) and f.attr == "translate_rotate":
            a, ty = self.e(f.value)
            if ty in t.methods and t.methods[ty][1] == "ret":
                self.motion_args(n)
                return (f"(← {t.methods[ty][0]} {a})", t.methods[ty][2])
            raise Unsupported(f"translate_rotate on {ty}")
        raise Unsupported(f"call {d}")

    def motion_args(self, n):
        if len(n.args) != 2 or n.keywords:
            raise Unsupported("translate_rotate arity")
        (a, ta), (b, tb) = self.e(n.args[0]), self.e(n.args[1])
        if (a, ta) != self.env["translation"] or (b, tb) != self.env["angle"]:
            raise Unsupported("translate_rotate called with other arguments than (translation, angle)")

    def listcomp(self, n):
        if len(n.generators) != 1 or n.generators[0].ifs or not isinstance(n.generators[0].target, ast.Name):
            raise Unsupported("list comprehension")
        g = n.generators[0]
        it, ty = self.iterable(g.iter)
        var = g.target.id
        saved = dict(self.env)
        self.env[var] = (var, ty)
        body, bt = self.e(n.elt)
        self.env = saved
        return (f"(← CR.PyC05.forEach (fun {var} => do\n        return {body}) {it})", "list:" + bt)

    def iterable(self, n):
        """`xs`, `xs.values()`, `xs or []`, `list(xs)`: (lean list, element type)."""
        if isinstance(n, ast.Call) and isinstance(n.func, ast.Attribute) and n.func.attr == "values" and not n.args:
            n = n.func.value
        if isinstance(n, ast.BoolOp) and isinstance(n.op, ast.Or) and len(n.values) == 2 and isinstance(n.values[1], ast.List) \
                and not n.values[1].elts:
            n = n.values[0]
        a, ty = self.e(n)
        if not ty.startswith("list:"):
            raise Unsupported(f"iteration over {ty}")
        return a, ty[5:]

    # ------------------------------------------------------------------ statements
    def target(self, n):
        """assignable location -> (lean mut var, {type: template})"""
        if isinstance(n, ast.Attribute):
            key = (self.dotted(n.value), n.attr)
            if key in self.t.assign:
                return self.t.assign[key]
        raise Unsupported(f"assignment to {ast.unparse(n)}")

    def store(self, tgt, val, ty, pad):
        if isinstance(tgt, ast.Name):
            name = tgt.id
            lean = {"end": "end_", "from": "from_", "init": "init_"}.get(name, name)
            if name in self.t.env:
                raise Unsupported(f"assignment to parameter {name}")
            known = name in self.env and self.env[name][0] in self.muts
            if known and self.env[name][1] == ty:
                return f"{pad}{self.env[name][0]} := {val}\n"
            if known:
                if self.depth > 0 and name not in self.local_scope:
                    raise Unsupported(f"{name} re-bound with another type inside a branch")
                lean = self.fresh(lean)         # a Lean `let mut` cannot be shadowed: the re-typed variable gets a fresh name
            self.env[name] = (lean, ty)
            self.muts.add(lean)
            self.local_scope.add(name)
            return f"{pad}let mut {lean} := {val}\n"
        var, tmpls = self.target(tgt)
        if ty not in tmpls:
            raise Unsupported(f"assignment of a {ty} to {ast.unparse(tgt)}")
        return f"{pad}{var} := {tmpls[ty].format(v=val)}\n"

    local_scope: set = set()

    def block(self, stmts, ind, nested=True):
        pad = "  " * ind
        out = ""
        scope = set(self.env)
        saved_local = self.local_scope
        self.local_scope = set()
        if nested:
            self.depth += 1
        try:
            for i, s in enumerate(stmts):
                out += self.stmt(s, ind, last=(i == len(stmts) - 1))
        finally:
            if nested:
                self.depth -= 1
            self.local_scope = saved_local
        for k in set(self.env) - scope:
            del self.env[k]                     # a name first bound in a nested block is not visible after it
        return out or f"{pad}pure ()\n"

    def inplace(self, recv, ind):
        """`recv.translate_rotate(translation, angle)` as a statement: the receiver is mutated."""
        pad = "  " * ind
        t = self.t
        key = (self.dotted(recv.value), recv.attr) if isinstance(recv, ast.Attribute) else None
        if key in t.opt:
            raise Unsupported(f"in-place call on Optional {ast.unparse(recv)} outside `is not None`")
        a, ty = self.e(recv)
        if t.refs and self.in_sloop and ty in (t.refs["elem"][0], "ref"):
            return self.inplace_ref(recv, a, ty, pad)
        if ty not in t.methods or t.methods[ty][1] != "inplace":
            raise Unsupported(f"in-place translate_rotate on {ty}")
        if isinstance(recv, ast.Name):
            var = a
        else:
            var = self.target(recv)[0]
        if var != a:
            raise Unsupported("in-place call on a non-variable")
        return f"{pad}{var} ← {t.methods[ty][0]} {var}\n"

    def stmt(self, s, ind, last=False):
        pad = "  " * ind
        t = self.t
        if isinstance(s, ast.Pass):
            return ""
        if isinstance(s, ast.Expr) and isinstance(s.value, ast.Constant) and isinstance(s.value.value, str):
            return ""
        if isinstance(s, ast.Assert):
            c, ty = self.e(s.test)
            self.need(ty, "bool", "assert")
            return "" if c == "true" else f"{pad}CR.Py.assert {c}\n"
        if isinstance(s, ast.Raise):
            cls = self.dotted(s.exc.func) if isinstance(s.exc, ast.Call) else self.dotted(s.exc)
            err = {"TypeError": "type", "ValueError": "value", "AssertionError": "assert", "KeyError": "key"}.get(cls)
            if err is None:
                raise Unsupported(f"raise {cls}")
            return f"{pad}throw CR.Err.{err}\n"
        if isinstance(s, ast.Return):
            if s.value is None:
                if t.result is None:
                    raise Unsupported("bare return")
                return f"{pad}return {t.result}\n"
            v, ty = self.e(s.value)
            if ty in t.ret_types:
                return f"{pad}return {t.ret_types[ty].format(v=v)}\n"
            raise Unsupported(f"return of a {ty}")
        if isinstance(s, ast.Assign) and len(s.targets) == 1:
            tg = s.targets[0]
            if isinstance(tg, ast.Tuple):
                if not (isinstance(s.value, ast.Tuple) and len(s.value.elts) == len(tg.elts)):
                    raise Unsupported("tuple assignment")
                vals = [self.e(v) for v in s.value.elts]
                out, tmps = "", []
                for v, ty in vals:
                    nm = self.fresh("t")
                    out += f"{pad}let {nm} := {v}\n"
                    tmps.append((nm, ty))
                for x, (nm, ty) in zip(tg.elts, tmps):
                    out += self.store(x, nm, ty, pad)
                return out
            if isinstance(tg, ast.Attribute) and (self.dotted(tg.value), tg.attr) in t.ignore_assign:
                return ""
            if isinstance(tg, ast.Name) and tg.id in t.copies:
                v, ty = self.e(s.value)
                fields, rec = t.copies[tg.id]
                self.need(ty, rec[1], f"object bound to {tg.id}")
                nm = self.fresh("o")
                out = f"{pad}let {nm} := {v}\n"
                for var, fld in fields:
                    out += f"{pad}let mut {var} := {nm}.{fld}\n"
                    self.muts.add(var)
                self.env[tg.id] = rec
                return out
            # empty list accumulators
            if isinstance(tg, ast.Name) and ((isinstance(s.value, ast.List) and not s.value.elts)
                                             or (isinstance(s.value, ast.Call) and self.dotted(s.value.func) in (("list", "set") if t.refs else ("list",))
                                                 and not s.value.args and not s.value.keywords)):
                if t.refs:
                    if self.in_sloop or self.depth > 0:
                        raise Unsupported("list of references created inside a loop / branch")
                    self.env[tg.id] = (lean_name(tg.id), "refacc")
                    return f"{pad}let {lean_name(tg.id)} : List Nat := []\n"
                self.env[tg.id] = (tg.id, "acc")
                return ""
            v, ty = self.e(s.value)
            return self.store(tg, v, ty, pad)
        if isinstance(s, ast.Expr) and isinstance(s.value, ast.Call):
            c = s.value
            d = self.dotted(c.func)
            if d in t.ignore:
                return ""
            if isinstance(c.func, ast.Attribute) and c.func.attr == "translate_rotate":
                self.motion_args(c)
                return self.inplace(c.func.value, ind)
            if t.refs and isinstance(c.func, ast.Attribute) and c.func.attr in ("append", "add") and isinstance(c.func.value, ast.Name) \
                    and len(c.args) == 1 and not c.keywords and self.env.get(c.func.value.id, (None, None))[1] == "refacc":
                if not self.in_sloop:
                    raise Unsupported("reference list filled outside the loop")
                acc = self.env[c.func.value.id][0]
                v, vty = self.e(c.args[0])
                self.need(vty, self.acc_kind.get(c.func.value.id), f"element added to {c.func.value.id}")
                return f"{pad}{acc} := {acc} ++ [{v}]\n"
            raise Unsupported(f"statement call {d}")
        if isinstance(s, ast.If):
            # `if <optional attribute> is not None: <body using it>`
            te = s.test
            if isinstance(te, ast.Compare) and len(te.ops) == 1 and isinstance(te.ops[0], ast.IsNot) \
                    and isinstance(te.comparators[0], ast.Constant) and te.comparators[0].value is None \
                    and isinstance(te.left, ast.Attribute) and (self.dotted(te.left.value), te.left.attr) in t.opt and not s.orelse:
                key = (self.dotted(te.left.value), te.left.attr)
                var, ety = t.opt[key]
                inner = var + "_v"
                saved_attrs, saved_assign, saved_opt = dict(t.attrs), dict(t.assign), dict(t.opt)
                for k, (v, _) in list(t.opt.items()):
                    if v == var:
                        t.attrs[k] = (inner, ety)
                        t.assign[k] = (inner, {ety: "{v}"})
                        del t.opt[k]
                self.muts.add(inner)
                try:
                    body = self.block(s.body, ind + 2)
                finally:
                    t.attrs, t.assign, t.opt = saved_attrs, saved_assign, saved_opt
                return (f"{pad}match {var} with\n{pad}| none => pure ()\n{pad}| some {inner} =>\n{pad}    let mut {inner} := {inner}\n"
                        f"{body}{pad}    {var} := some {inner}\n")
            key = ast.unparse(s.test)
            if key in t.refine:
                c, extra = t.refine[key]
                saved = dict(t.src)
                t.src.update(extra)
                try:
                    body = self.block(s.body, ind + 1)
                finally:
                    t.src = saved
                out = f"{pad}if {c} then\n{body}"
                if s.orelse:
                    if len(s.orelse) == 1 and isinstance(s.orelse[0], ast.If):
                        out += f"{pad}else\n{self.stmt(s.orelse[0], ind + 1)}"
                    else:
                        out += f"{pad}else\n{self.block(s.orelse, ind + 1)}"
                return out
            c, ty = self.e(s.test)
            self.need(ty, "bool", "if")
            if c == "true":
                return self.block(s.body, ind)
            if c == "false":
                return self.block(s.orelse, ind) if s.orelse else ""
            pre = ""
            if s.orelse:
                # names first bound in BOTH branches are visible afterwards: declare them before the `if`
                both = None
                for br in (s.body, s.orelse):
                    st = (dict(self.env), set(self.muts), self.tmp)
                    try:
                        for x in br:
                            self.stmt(x, ind + 1)
                        new_names = {k: v for k, v in self.env.items() if k not in st[0] and isinstance(k, str)}
                    finally:
                        self.env, self.muts, self.tmp = dict(st[0]), set(st[1]), st[2]
                    both = new_names if both is None else {k: v for k, v in both.items() if new_names.get(k) == v}
                for k, (lean, ty) in sorted(both.items()):
                    dflt = {"rat": "(0 : Rat)", "pt": "(⟨0, 0⟩ : CR.Rigid.Pt)"}.get(ty)
                    if dflt is None:
                        continue
                    pre += f"{pad}let mut {lean} := {dflt}\n"
                    self.env[k] = (lean, ty)
                    self.muts.add(lean)
            out = pre + f"{pad}if {c} then\n{self.block(s.body, ind + 1)}"
            if s.orelse:
                out += f"{pad}else\n{self.block(s.orelse, ind + 1)}"
            return out
        if isinstance(s, ast.For) and not s.orelse:
            return self.loop(s, ind)
        raise Unsupported(f"statement {type(s).__name__}")

    def loop(self, s, ind):
        """Loops that produce one value per element of a list: element mutated in place / value appended / value stored back."""
        pad = "  " * ind
        it, tg, body = s.iter, s.target, list(s.body)
        index_of = None      # source text of `L[i]` that denotes the element
        store_back = None    # source text prefix of `L[i] = ...`
        if isinstance(it, ast.Call) and self.dotted(it.func) == "range" and len(it.args) == 1 and isinstance(it.args[0], ast.Call) \
                and self.dotted(it.args[0].func) == "len" and isinstance(tg, ast.Name):
            lst = it.args[0].args[0]
            index_of = f"{ast.unparse(lst)}[{tg.id}]"
            it = lst
            var = self.fresh("x")
        elif isinstance(it, ast.Call) and self.dotted(it.func) == "enumerate" and len(it.args) == 1 and isinstance(tg, ast.Tuple) \
                and len(tg.elts) == 2 and all(isinstance(x, ast.Name) for x in tg.elts):
            lst = it.args[0]
            store_back = f"{ast.unparse(lst)}[{tg.elts[0].id}]"
            it = lst
            var = tg.elts[1].id
        elif isinstance(tg, ast.Name):
            var = tg.id
        else:
            raise Unsupported("loop target")
        lst_lean, ety = self.iterable(it)
        if self.t.refs and ety == self.t.refs["elem"][0]:
            if index_of or store_back:
                raise Unsupported("indexed loop over elements that hold references")
            return self.sloop(s, var, lst_lean, ind)
        if len(body) != 1:
            raise Unsupported("loop body with several statements")
        b = body[0]
        saved_env, saved_src = dict(self.env), dict(self.t.src)
        self.env[var] = (var, ety)
        if index_of:
            self.t.src[index_of] = (var, ety)
        try:
            # (a) x.translate_rotate(translation, angle)           -- element mutated in place
            if isinstance(b, ast.Expr) and isinstance(b.value, ast.Call) and isinstance(b.value.func, ast.Attribute) \
                    and b.value.func.attr == "translate_rotate":
                self.motion_args(b.value)
                r, rty = self.e(b.value.func.value)
                if r != var or rty not in self.t.methods or self.t.methods[rty][1] != "inplace":
                    raise Unsupported("loop: in-place call on something else than the loop element")
                dest = self.loop_dest(it)
                return f"{pad}{dest} ← CR.PyC05.forEach (fun {var} => {self.t.methods[rty][0]} {var}) {lst_lean}\n"
            # (b) acc.append(<value>)
            if isinstance(b, ast.Expr) and isinstance(b.value, ast.Call) and isinstance(b.value.func, ast.Attribute) \
                    and b.value.func.attr == "append" and isinstance(b.value.func.value, ast.Name) and len(b.value.args) == 1:
                acc = b.value.func.value.id
                if saved_env.get(acc, (None, None))[1] != "acc":
                    raise Unsupported("append to something that is not a fresh list")
                v, vty = self.e(b.value.args[0])
                self.env = saved_env
                self.env[acc] = (acc, "list:" + vty)
                saved_env = dict(self.env)
                return f"{pad}let {acc} ← CR.PyC05.forEach (fun {var} => do\n{pad}    return {v}) {lst_lean}\n"
            # (c) L[i] = <value>   under enumerate(L)
            if store_back and isinstance(b, ast.Assign) and len(b.targets) == 1 and ast.unparse(b.targets[0]) == store_back:
                v, vty = self.e(b.value)
                if vty != ety:
                    raise Unsupported("loop: stored value of another type")
                dest = self.loop_dest(it)
                return f"{pad}{dest} ← CR.PyC05.forEach (fun {var} => do\n{pad}    return {v}) {lst_lean}\n"
            raise Unsupported("loop body")
        finally:
            self.env, self.t.src = saved_env, saved_src

    def loop_dest(self, it):
        if isinstance(it, ast.Call) and isinstance(it.func, ast.Attribute) and it.func.attr == "values":
            it = it.func.value
        if isinstance(it, ast.BoolOp):
            it = it.values[0]
        var, tmpls = self.target(it)
        return var

    # ------------------------------------------------------------------ reference view
    def acc_of(self, n):
        return n.id if isinstance(n, ast.Name) else None

    def ref_compare(self, left, op, right):
        """`a is b` / `a is not b` on two objects held by reference; `==` / `!=` / `in` / `not in` on their `id()`s: equality of the
        heap indices.  `==` / `in` on the OBJECTS goes by `__eq__` (by value for a GoalRegion: CR.PyC05.goalEq on what the two
        references hold) - not the identity test, and the tie to the model's loop over identities is then not provable."""
        try:
            (a, ta), (b, tb) = self.e(left), self.e(right)
        except Unsupported:
            return None
        if ta not in ("ref", "id") and tb not in ("ref", "id", "refacc"):
            return None
        neg = isinstance(op, (ast.IsNot, ast.NotEq, ast.NotIn))
        if isinstance(op, (ast.In, ast.NotIn)):
            kind = self.acc_kind.get(self.acc_of(right))
            if tb != "refacc" or ta != kind:
                raise Unsupported(f"`in`: {ta} in {tb}")
            g = self.fresh("g")
            if kind == "id":
                c = f"({b}.any (fun {g} => decide ({a} = {g})))"
            else:       # `x in list`: `x is e or x == e` per element, and `==` on the objects goes by VALUE
                c = f"({b}.any (fun {g} => decide ({a} = {g}) || {self.val_eq(a, g)}))"
            return (f"(!{c})" if neg else c, "bool")
        if isinstance(op, (ast.Is, ast.IsNot)):
            if ta != "ref" or tb != "ref":
                raise Unsupported(f"`is` between {ta} and {tb}")
        elif isinstance(op, (ast.Eq, ast.NotEq)):
            if ta == "ref" and tb == "ref":     # `==` on the objects: __eq__, by VALUE - not the identity test
                c = self.val_eq(a, b)
                return (f"(!{c})" if neg else c, "bool")
            if ta != "id" or tb != "id":
                raise Unsupported(f"`==` between {ta} and {tb}")
        else:
            raise Unsupported("comparison of object references")
        return (f"decide ({a} {'≠' if neg else '='} {b})", "bool")

    def val_eq(self, a, b):
        R = self.t.refs
        if not self.in_sloop or "val_eq" not in R:
            raise Unsupported("`==` on objects held by reference")
        heap = self.in_sloop[1]
        return f"({R['val_eq']} {R['deref'].format(heap=heap, ref=a)} {R['deref'].format(heap=heap, ref=b)})"

    def inplace_ref(self, recv, a, ty, pad):
        """`x.translate_rotate(..)` on a loop element that holds an object by reference (dereference, call the method on the
        record, write the moved object back to the heap) / `x.goal.translate_rotate(..)` on the referenced object itself."""
        R = self.t.refs
        var, heap = self.in_sloop
        if ty == "ref":
            o = self.fresh("o")
            return (f"{pad}let {o} ← {R['ref_method']} ({R['deref'].format(heap=heap, ref=a)})\n"
                    f"{pad}{heap} := {heap}.set {a} {o}\n")
        if not (isinstance(recv, ast.Name) and recv.id == var):
            raise Unsupported("in-place call on another element than the loop variable")
        fn, rec, back, moved = R["obj_method"]
        ref = self.env[(var, next(iter(R["ref_fields"])))][0]
        vals = {attr: self.env[(var, attr)][0] for attr in R["fields"]}
        o = self.fresh("o")
        out = f"{pad}let {o} ← {fn} {rec.format(obj=R['deref'].format(heap=heap, ref=ref), **vals)}\n"
        done = set()
        for attr, fld in back.items():
            lv = self.env[(var, attr)][0]
            if lv not in done:
                out += f"{pad}{lv} := {o}.{fld}\n"
                done.add(lv)
        out += f"{pad}{heap} := {heap}.set {ref} {o}.{moved}\n"
        return out

    def sloop(self, s, var, lst_lean, ind):
        """`for x in <elements that hold object references>: <body>`: the body becomes a definition of its own
        `<name>_loop<k> (st : heap × reference lists) (x : element) : Res (element × state)`, the loop `CR.PyC05.forEachS` of it."""
        t, R = self.t, self.t.refs
        pad = "  " * ind
        if self.depth > 0 or self.in_sloop:
            raise Unsupported("nested loop over elements that hold references")
        heap, _, heap_ty = R["heap"]
        accs = [(py, lean) for py, (lean, ty) in self.env.items() if isinstance(py, str) and ty == "refacc"]
        for py, _ in accs:       # what the list holds: the objects or their id()
            kinds = {("id" if isinstance(c.args[0], ast.Call) and self.dotted(c.args[0].func) == "id" else "ref")
                     for c in ast.walk(s) if isinstance(c, ast.Call) and isinstance(c.func, ast.Attribute)
                     and c.func.attr in ("append", "add") and isinstance(c.func.value, ast.Name) and c.func.value.id == py
                     and len(c.args) == 1}
            if len(kinds) > 1:
                raise Unsupported(f"{py} holds objects and ids")
            self.acc_kind[py] = kinds.pop() if kinds else "ref"
        comps = [(heap, heap_ty)] + [(lean, "List Nat") for _, lean in accs]
        st_ty = " × ".join(ty for _, ty in comps)

        def proj(k):
            if len(comps) == 1:
                return "st"
            return "st" + ".2" * k + (".1" if k < len(comps) - 1 else "")
        self.nloops += 1
        name = f"{t.name}_loop{self.nloops}"
        x = lean_name(var)
        saved_env, saved_assign, saved_muts = dict(self.env), dict(t.assign), set(self.muts)
        self.env = {k: v for k, v in t.env.items()}
        for py, lean in accs:
            self.env[py] = (lean, "refacc")
        self.env[var] = (x, R["elem"][0])
        body = "".join(f"  let mut {lean} := {proj(k)}\n" for k, (lean, _) in enumerate(comps))
        self.muts |= {lean for lean, _ in comps}
        fvars = {}
        for attr, (pr, ty) in R["fields"].items():
            if pr not in fvars:
                fvars[pr] = f"{x}_{attr.lstrip('_')}"
                body += f"  let mut {fvars[pr]} := {x}{pr}\n"
                self.muts.add(fvars[pr])
            self.env[(var, attr)] = (fvars[pr], ty)
            t.assign[(var, attr)] = (fvars[pr], {ty: "{v}"})
        for attr, pr in R["ref_fields"].items():
            self.env[(var, attr)] = (f"{x}{pr}", "ref")
        self.in_sloop = (var, heap)
        try:
            body += self.block(list(s.body), 1, nested=False)
        finally:
            self.in_sloop = None
            self.env, t.assign, self.muts = saved_env, saved_assign, saved_muts
        elem = R["elem_result"].format(x=x, **{a.lstrip("_"): v for a, v in
                                                 ((attr, fvars[pr]) for attr, (pr, _) in R["fields"].items())})
        state = "(" + ", ".join(lean for lean, _ in comps) + ")" if len(comps) > 1 else comps[0][0]
        body += f"  return ({elem}, {state})\n"
        self.pre.append(f"/-- {t.file}: {(t.cls + '.') if t.cls else ''}{t.func} — the body of its loop `for {var} in ...` on the reference view: "
                        f"`st` = the heap of referenced objects and the local lists of references -/\n"
                        f"def {name} {R['binders']} (st : {st_ty}) ({x} : {R['elem'][1]}) : Res (({R['elem'][1]}) × ({st_ty})) := do\n{body}")
        r = self.fresh("r")
        dest = self.loop_dest(s.iter)
        out = f"{pad}let {r} ← CR.PyC05.forEachS ({name} {R['args']}) {state} {lst_lean}\n{pad}{dest} := {r}.1\n"
        for k, (lean, _) in enumerate(comps):
            out += f"{pad}let {lean} := {r}.2" + proj(k)[2:] + "\n"
        return out

    # ------------------------------------------------------------------ whole function
    def function(self, fn):
        t = self.t
        body = ""
        stmts = list(fn.body)
        out = "".join(f"  let mut {v} := {x}\n" for v, x in t.init)
        if t.refs:
            out += f"  let {t.refs['heap'][0]} := {t.refs['heap'][1]}\n"
        out += self.block(stmts, 1, nested=False)
        ends_with_return = bool(stmts) and isinstance(stmts[-1], ast.Return)
        if not ends_with_return:
            if t.result is None:
                raise Unsupported("path without return")
            out += f"  return {t.result}\n"
        if not t.monadic and "←" in out:
            raise Unsupported("partial operation in a target declared pure")
        head = f"def {t.name} {t.binders} : " + (f"Res ({t.ret}) := do\n" if t.monadic else f"{t.ret} := Id.run do\n")
        doc = f"/-- {t.file}: {(t.cls + '.') if t.cls else ''}{t.func}{(' — ' + t.doc) if t.doc else ''} -/\n"
        return "\n".join(self.pre) + ("\n" if self.pre else "") + doc + head + body + out


# translated module-level functions of transform.py: python name -> (lean name, argument types, result type)
FUNCS = {
    "translation_rotation_matrix": ("transform_translation_rotation_matrix", ["pt", "angle"], "m3"),
    "rotation_translation_matrix": ("transform_rotation_translation_matrix", ["pt", "angle"], "m3"),
    "to_homogeneous_coordinates": ("transform_to_homogeneous_coordinates", ["pts"], "hs"),
    "from_homogeneous_coordinates": ("transform_from_homogeneous_coordinates", ["hs"], "pts"),
    "translate_rotate": ("transform_translate_rotate", ["pts", "pt", "angle"], "pts"),
    "rotate_translate": ("transform_rotate_translate", ["pts", "pt", "angle"], "pts"),
}

CSA = {"cos(angle)": ("c", "rat"), "sin(angle)": ("s", "rat"), "angle": ("a", "angle")}
MO = {"cos(angle)": ("m.c", "rat"), "sin(angle)": ("m.s", "rat"), "angle": ("m.a", "angle"), "translation": ("m.t", "pt"),
      "TWO_PI": ("m.τ", "rat")}


def targets():
    P = "List CR.Rigid.Pt"
    ts = []

    def add(t, ret_types=None):
        if ret_types:
            t.ret_types = ret_types
        ts.append(t)
        return t
    add(T5("transform_to_homogeneous_coordinates", TRANSFORM, "to_homogeneous_coordinates", None, f"(points : {P})",
           "List CR.PyC05.H", env={"points": ("points", "pts")}, monadic=False), {"hs": "{v}"})
    add(T5("transform_from_homogeneous_coordinates", TRANSFORM, "from_homogeneous_coordinates", None, "(points : List CR.PyC05.H)",
           P, env={"points": ("points", "hs")}, monadic=False), {"pts": "{v}"})
    for nm in ("translation_rotation_matrix", "rotation_translation_matrix"):
        add(T5("transform_" + nm, TRANSFORM, nm, None, "(c s a : Rat) (translation : CR.Rigid.Pt)", "CR.PyC05.M3",
               env={**CSA, "translation": ("translation", "pt")}, monadic=False,
               doc="c = math.cos(angle), s = math.sin(angle), a = angle"), {"m3": "{v}"})
    for nm in ("translate_rotate", "rotate_translate"):
        add(T5("transform_" + nm, TRANSFORM, nm, None, f"(c s a : Rat) (vertices : {P}) (translation : CR.Rigid.Pt)", P,
               env={**CSA, "translation": ("translation", "pt"), "vertices": ("vertices", "pts")}, monadic=False,
               doc="c = math.cos(angle), s = math.sin(angle), a = angle"), {"pts": "{v}"})
    # ------------------------------------------------------------------ translate_rotate methods
    R = "CR.Rigid."
    SHAPE, STATE = "commonroad/geometry/shape.py", "commonroad/scenario/state.py"
    OBST, PRED = "commonroad/scenario/obstacle.py", "commonroad/prediction/prediction.py"
    TR = "translate_rotate"
    shape_m = {"shape": (R + "Shape.move m", "ret", "shape")}
    state_m = {"state": (R + "State.move m", "ret", "state")}
    ident = lambda ty: {ty: "{v}"}       # noqa: E731

    def rw(var, ty, *names):             # read + write access to a field of self under several attribute names
        a = {("self", n): (var, ty) for n in names}
        w = {("self", n): (var, ident(ty)) for n in names}
        return a, w

    # shapes (functional API: return the moved shape)
    add(T5("Rectangle_translate_rotate", SHAPE, TR, "Rectangle", f"(m : {R}Mo) (l w : Rat) (ctr : {R}Pt) (θ : Rat)", R + "Shape", env=MO,
           attrs={("self", "_length"): ("l", "rat"), ("self", "length"): ("l", "rat"), ("self", "_width"): ("w", "rat"),
                  ("self", "width"): ("w", "rat"), ("self", "_center"): ("ctr", "pt"), ("self", "center"): ("ctr", "pt"),
                  ("self", "_orientation"): ("θ", "rat"), ("self", "orientation"): ("θ", "rat")},
           ctors={"Rectangle": (R + "Shape.rect {0} {1} {2} {3}", ["rat", "rat", "pt", "rat"], "shape", False)},
           ret_types=ident("shape")))
    add(T5("Circle_translate_rotate", SHAPE, TR, "Circle", f"(m : {R}Mo) (r : Rat) (ctr : {R}Pt)", R + "Shape", env=MO,
           attrs={("self", "_radius"): ("r", "rat"), ("self", "radius"): ("r", "rat"), ("self", "_center"): ("ctr", "pt"),
                  ("self", "center"): ("ctr", "pt")},
           ctors={"Circle": (R + "Shape.circ {0} {1}", ["rat", "pt"], "shape", False)}, ret_types=ident("shape")))
    add(T5("Polygon_translate_rotate", SHAPE, TR, "Polygon", f"(m : {R}Mo) (vs : {P})", R + "Shape", env=MO,
           attrs={("self", "_vertices"): ("vs", "pts"), ("self", "vertices"): ("vs", "pts")},
           ctors={"Polygon": (R + "polyMk {0}", ["pts"], "ring", True)}, ret_types={"ring": "(" + R + "Shape.poly {v})"},
           doc="Polygon(...) is the model constructor polyMk (ring closed, oriented clockwise)"))
    add(T5("ShapeGroup_translate_rotate", SHAPE, TR, "ShapeGroup", f"(m : {R}Mo) (ss : List {R}Shape)", R + "Shape", env=MO,
           attrs={("self", "_shapes"): ("ss", "list:shape"), ("self", "shapes"): ("ss", "list:shape")}, methods=shape_m,
           ctors={"ShapeGroup": (R + "Shape.group {0}", ["list:shape"], "shape", False)}, ret_types=ident("shape"),
           doc="s.translate_rotate on a member is the model's dispatch Shape.move (its branches are the four ties of this file)"))

    # states
    st_rec = ("(⟨tpos, tori, tvel⟩ : " + R + "State)", "state")
    st_copies = {"transformed_state": ([("tpos", "pos"), ("tori", "ori"), ("tvel", "vel")], st_rec)}
    st_assign = {("transformed_state", "position"): ("tpos", {"pt": R + "Pos.pt {v}", "shape": R + "Pos.region {v}"}),
                 ("transformed_state", "orientation"): ("tori", {"rat": R + "Ori.exact {v}", "angleiv": R + "Ori.iv {v}"})}
    add(T5("State_translate_rotate", STATE, TR, "State", f"(m : {R}Mo) (pos : {R}Pos) (ori : {R}Ori) (vel : Option {R}Pt)", R + "State",
           env={**MO, "self": ("(⟨pos, ori, vel⟩ : " + R + "State)", "state")}, methods=shape_m, copies=st_copies, assign=st_assign,
           src={"hasattr(self, 'position') and getattr(self, 'position') is not None": ("(CR.PyC05.posIsSome pos)", "bool"),
                "'orientation' in self.attributes and getattr(self, 'orientation') is not None": ("(CR.PyC05.oriIsSome ori)", "bool")},
           refine={"isinstance(self.position, ValidTypes.ARRAY)":
                   ("(CR.PyC05.posIsArray pos)", {"self.position": ("(CR.PyC05.posArray pos)", "pt")}),
                   "isinstance(self.position, Shape)":
                   ("(CR.PyC05.posIsShape pos)", {"self.position": ("(CR.PyC05.posShape pos)", "shape")}),
                   "isinstance(self.orientation, ValidTypes.NUMBERS)":
                   ("(CR.PyC05.oriIsNum ori)", {"self.orientation": ("(CR.PyC05.oriNum ori)", "rat")}),
                   "isinstance(self.orientation, AngleInterval)":
                   ("(CR.PyC05.oriIsIv ori)", {"self.orientation": ("(CR.PyC05.oriIv ori)", "angleiv"),
                                               "transformed_state.orientation": ("(CR.PyC05.oriIv tori)", "angleiv")})},
           ret_types=ident("state"),
           doc="the dynamic type tests on position / orientation are the predicates of CRModel/PyExtC05.lean"))
    add(T5("PMState_translate_rotate", STATE, TR, "PMState", f"(m : {R}Mo) (pos : {R}Pos) (ori : {R}Ori) (vel : Option {R}Pt)", R + "State",
           env=MO, copies=st_copies, super_call=("State_translate_rotate m pos ori vel", "state"),
           attrs={("self", "velocity"): ("(vel.getD ⟨0, 0⟩).x", "rat"), ("self", "velocity_y"): ("(vel.getD ⟨0, 0⟩).y", "rat")},
           assign={("transformed_state", "velocity"): ("tvel", {"rat": "some ⟨{v}, (tvel.getD ⟨0, 0⟩).y⟩"}),
                   ("transformed_state", "velocity_y"): ("tvel", {"rat": "some ⟨(tvel.getD ⟨0, 0⟩).x, {v}⟩"})},
           src={"is_real_number(self.velocity) and is_real_number(self.velocity_y)": ("vel.isSome", "bool")},
           ret_types=ident("state"), doc="vel = some (velocity, velocity_y) iff both are real numbers"))

    # trajectory, predictions
    a, w = rw("sts", "list:state", "_state_list", "state_list")
    add(T5("Trajectory_translate_rotate", "commonroad/scenario/trajectory.py", TR, "Trajectory", f"(m : {R}Mo) (sts : List {R}State)",
           f"List {R}State", env=MO, attrs=a, assign=w, methods=state_m, init=[("sts", "sts")], result="sts"))
    a, w = rw("sh", "shape", "_shape", "shape")
    add(T5("Occupancy_translate_rotate", PRED, TR, "Occupancy", f"(m : {R}Mo) (sh : {R}Shape)", R + "Shape", env=MO, attrs=a, assign=w,
           methods=shape_m, init=[("sh", "sh")], result="sh"))
    a, w = rw("shs", "list:occ", "_occupancy_set", "occupancy_set")
    add(T5("SetBasedPrediction_translate_rotate", PRED, TR, "SetBasedPrediction", f"(m : {R}Mo) (shs : List {R}Shape)", f"List {R}Shape",
           env=MO, attrs=a, assign=w, methods={"occ": ("Occupancy_translate_rotate m", "inplace", "occ")}, init=[("shs", "shs")],
           result="shs"))
    a, w = rw("sts", "traj", "_trajectory", "trajectory")
    add(T5("TrajectoryPrediction_translate_rotate", PRED, TR, "TrajectoryPrediction", f"(m : {R}Mo) (body : {R}Shape) (sts : List {R}State)",
           R + "Pred", env=MO, attrs=a, assign=w, methods={"traj": ("Trajectory_translate_rotate m", "inplace", "traj")},
           init=[("sts", "sts")], result="(" + R + "Pred.traj body sts)", ignore={"self._invalidate_occupancy_set"},
           doc="the body-frame `shape` is not touched; cache invalidation is C11's subject"))

    # road network
    pq_a = {("self", "_start"): ("p", "pt"), ("self", "start"): ("p", "pt"), ("self", "_end"): ("q", "pt"), ("self", "end"): ("q", "pt")}
    pq_w = {k: (v[0], ident("pt")) for k, v in pq_a.items()}
    add(T5("StopLine_translate_rotate", "commonroad/common/common_lanelet.py", TR, "StopLine", f"(m : {R}Mo) (sl : {R}Pt × {R}Pt)",
           f"{R}Pt × {R}Pt", env=MO, attrs=pq_a, assign=pq_w, init=[("p", "sl.1"), ("q", "sl.2")], result="(p, q)"))
    la_a, la_w = {}, {}
    for var, names in (("left", ("_left_vertices", "left_vertices")), ("center", ("_center_vertices", "center_vertices")),
                       ("right", ("_right_vertices", "right_vertices"))):
        a, w = rw(var, "pts", *names)
        la_a.update(a)
        la_w.update(w)
    la_w[("self", "_polygon")] = ("poly", ident("ring"))
    add(T5("Lanelet_translate_rotate", "commonroad/scenario/lanelet.py", TR, "Lanelet", f"(m : {R}Mo) (la : {R}Lanelet)", R + "Lanelet",
           env=MO, attrs=la_a, assign=la_w, opt={("self", "_stop_line"): ("stop", "stop"), ("self", "stop_line"): ("stop", "stop")},
           methods={"stop": ("StopLine_translate_rotate m", "inplace", "stop")},
           ctors={"Polygon": (R + "polyMk {0}", ["pts"], "ring", True)},
           init=[("left", "la.left"), ("center", "la.center"), ("right", "la.right"), ("stop", "la.stop"), ("poly", "la.poly")],
           result="(⟨left, center, right, stop, poly⟩ : " + R + "Lanelet)"))
    for cls, file in (("TrafficSign", "commonroad/scenario/traffic_sign.py"),):
        a, w = rw("p", "pt", "_position", "position")
        add(T5(cls + "_translate_rotate", file, TR, cls, f"(m : {R}Mo) (p : {R}Pt)", R + "Pt", env=MO, attrs=a, assign=w,
               init=[("p", "p")], result="p"))
    a, w = rw("pos", "pt", "_position", "position")
    add(T5("TrafficLight_translate_rotate", "commonroad/scenario/traffic_light.py", TR, "TrafficLight", f"(m : {R}Mo) (l : {R}Light)",
           R + "Light", env=MO, attrs=a, assign=w, init=[("pos", "l.pos")], result="(⟨pos, l.shape⟩ : " + R + "Light)",
           doc="the body-frame housing `shape` is not touched"))
    a, w = rw("vs", "pts", "_border_vertices", "border_vertices")
    add(T5("AreaBorder_translate_rotate", "commonroad/scenario/area.py", TR, "AreaBorder", f"(m : {R}Mo) (vs : {P})", P, env=MO,
           attrs=a, assign=w, init=[("vs", "vs")], result="vs"))
    a, w = rw("bs", "list:border", "_border", "border")
    add(T5("Area_translate_rotate", "commonroad/scenario/area.py", TR, "Area", f"(m : {R}Mo) (bs : List ({P}))", f"List ({P})", env=MO,
           attrs=a, assign=w, methods={"border": ("AreaBorder_translate_rotate m", "inplace", "border")}, init=[("bs", "bs")],
           result="bs"))
    NET = f"List {R}Lanelet × List {R}Pt × List {R}Light × List (List ({P}))"
    na, nw = {}, {}
    for var, ty, names in (("ls", "list:lanelet", ("_lanelets",)), ("sg", "list:sign", ("_traffic_signs",)),
                           ("lt", "list:light", ("_traffic_lights",)), ("ar", "list:area", ("_areas",))):
        a, w = rw(var, ty, *names)
        na.update(a)
        nw.update(w)
    add(T5("LaneletNetwork_translate_rotate", "commonroad/scenario/lanelet.py", TR, "LaneletNetwork", f"(m : {R}Mo) (net : {NET})", NET,
           env=MO, attrs=na, assign=nw,
           methods={"lanelet": (R + "Lanelet.move m", "inplace", "lanelet"), "sign": (R + "movePosition m", "inplace", "sign"),
                    "light": (R + "Light.move m", "inplace", "light"), "area": ("Area_translate_rotate m", "inplace", "area")},
           init=[("ls", "net.1"), ("sg", "net.2.1"), ("lt", "net.2.2.1"), ("ar", "net.2.2.2")], result="(ls, sg, lt, ar)",
           ignore={"self._create_strtree"}, ignore_assign={("self", "_buffered_polygons")},
           doc="the dicts id -> object as lists in insertion order; the spatial index rebuilt at the end is not modelled"))

    # obstacles
    a, w = rw("st", "state", "_initial_state", "initial_state")
    add(T5("StaticObstacle_translate_rotate", OBST, TR, "StaticObstacle", f"(m : {R}Mo) (body : {R}Shape) (st : {R}State)", R + "Obstacle",
           env=MO, attrs=a, assign=w, methods=state_m, init=[("st", "st")], result="(" + R + "Obstacle.static body st)"))
    a2, w2 = rw("pred", "pred", "_prediction", "prediction")
    a3, w3 = rw("hist", "list:state", "_history", "history")
    add(T5("DynamicObstacle_translate_rotate", OBST, TR, "DynamicObstacle",
           f"(m : {R}Mo) (body : {R}Shape) (st : {R}State) (pred : {R}Pred) (hist : List {R}State)", R + "Obstacle", env=MO,
           attrs={**a, **a2, **a3}, assign={**w, **w2, **w3},
           methods={**state_m, "pred": (R + "Pred.move m", "inplace", "pred")},
           src={"self._prediction is not None": ("(CR.PyC05.predIsSome pred)", "bool"),
                "self.prediction is not None": ("(CR.PyC05.predIsSome pred)", "bool")},
           init=[("st", "st"), ("pred", "pred"), ("hist", "hist")], result="(" + R + "Obstacle.dynamic body st pred hist)",
           doc="prediction.translate_rotate is the model's dispatch Pred.move (branches tied above)"))
    add(T5("PhantomObstacle_translate_rotate", OBST, TR, "PhantomObstacle", f"(m : {R}Mo) (p : Option (List {R}Shape))", R + "Obstacle",
           env=MO, opt={("self", "_prediction"): ("p", "occs"), ("self", "prediction"): ("p", "occs")},
           methods={"occs": (R + "moveOccs m", "inplace", "occs")}, init=[("p", "p")], result="(" + R + "Obstacle.phantom p)"))
    a, w = rw("sh", "shape", "_obstacle_shape", "obstacle_shape")
    add(T5("EnvironmentObstacle_translate_rotate", OBST, TR, "EnvironmentObstacle", f"(m : {R}Mo) (sh : {R}Shape)", R + "Obstacle", env=MO,
           attrs=a, assign=w, methods=shape_m, init=[("sh", "sh")], result="(" + R + "Obstacle.env sh)"))

    # scenario, planning problems
    a, w = rw("net", "net", "_lanelet_network", "lanelet_network")
    a2, w2 = rw("obs", "list:obstacle", "obstacles")
    add(T5("Scenario_translate_rotate", "commonroad/scenario/scenario.py", TR, "Scenario", f"(m : {R}Mo) (sc : {R}Scenario)", R + "Scenario",
           env=MO, attrs={**a, **a2}, assign={**w, **w2},
           methods={"net": ("LaneletNetwork_translate_rotate m", "inplace", "net"), "obstacle": (R + "Obstacle.move m", "inplace", "obstacle")},
           init=[("net", "(sc.lanelets, sc.signs, sc.lights, sc.areas)"), ("obs", "sc.obstacles")],
           result="(⟨net.1, net.2.1, net.2.2.1, obs, net.2.2.2⟩ : " + R + "Scenario)",
           doc="`self.obstacles` (all roles, scenario order) is the model's obstacle list"))
    a, w = rw("sts", "list:state", "state_list", "_state_list")
    add(T5("GoalRegion_translate_rotate", "commonroad/planning/goal.py", TR, "GoalRegion", f"(m : {R}Mo) (sts : List {R}State)",
           f"List {R}State", env=MO, attrs=a, assign=w, methods=state_m, init=[("sts", "sts")], result="sts"))
    a, w = rw("ini", "state", "initial_state", "_initial_state")
    a2, w2 = rw("goal", "goal", "goal", "_goal")
    add(T5("PlanningProblem_translate_rotate", "commonroad/planning/planning_problem.py", TR, "PlanningProblem",
           f"(m : {R}Mo) (pp : {R}Problem)", R + "Problem", env=MO, attrs={**a, **a2}, assign={**w, **w2},
           methods={**state_m, "goal": ("GoalRegion_translate_rotate m", "inplace", "goal")},
           init=[("ini", "pp.init"), ("goal", "pp.goal")], result="(⟨ini, goal⟩ : " + R + "Problem)"))
    # the set on the REFERENCE view (CR.Rigid.ProblemSet): `goals` is the heap of GoalRegion objects, a problem holds its initial state
    # and the index of its goal-region object - two problems may hold the same object, `a.goal is b.goal` is equality of indices
    a, w = rw("l", "list:problemref", "_planning_problem_dict", "planning_problem_dict")
    add(T5("PlanningProblemSet_translate_rotate", "commonroad/planning/planning_problem.py", TR, "PlanningProblemSet",
           f"(m : {R}Mo) (ps : {R}ProblemSet)", f"{R}ProblemSet", env=MO, attrs=a, assign=w, methods=state_m,
           init=[("l", "ps.problems")], result="(⟨heap, l⟩ : " + R + "ProblemSet)",
           refs={"heap": ("heap", "ps.goals", f"List (List {R}State)"), "elem": ("problemref", f"{R}State × Nat"),
                 "fields": {"initial_state": (".1", "state"), "_initial_state": (".1", "state")},
                 "ref_fields": {"goal": ".2", "_goal": ".2"}, "elem_result": "({initial_state}, {x}.2)",
                 "deref": "(" + R + "goalAt {heap} {ref})",
                 "obj_method": (R + "Problem.move m", "(⟨{initial_state}, {obj}⟩ : " + R + "Problem)",
                                {"initial_state": "init", "_initial_state": "init"}, "goal"),
                 "ref_method": "GoalRegion_translate_rotate m", "val_eq": "CR.PyC05.goalEq", "binders": f"(m : {R}Mo)", "args": "m"},
           doc="on the reference view: `ps.goals` = the GoalRegion objects (an index is an identity), a problem = (initial state, "
               "index of the goal-region object it holds); `x.translate_rotate` on a problem = PlanningProblem.translate_rotate on "
               "the dereferenced record (model Problem.move, tied above), the moved goal region written back to the heap"))
    return ts


# ---------------------------------------------------------------------- structural extraction
# class -> file, for every class whose translate_rotate mutates the object in place
STRUCT = [
    ("StopLine", "commonroad/common/common_lanelet.py"), ("Lanelet", "commonroad/scenario/lanelet.py"),
    ("LaneletNetwork", "commonroad/scenario/lanelet.py"), ("TrafficSign", "commonroad/scenario/traffic_sign.py"),
    ("TrafficLight", "commonroad/scenario/traffic_light.py"), ("AreaBorder", "commonroad/scenario/area.py"),
    ("Area", "commonroad/scenario/area.py"), ("Trajectory", "commonroad/scenario/trajectory.py"),
    ("Occupancy", "commonroad/prediction/prediction.py"), ("SetBasedPrediction", "commonroad/prediction/prediction.py"),
    ("TrajectoryPrediction", "commonroad/prediction/prediction.py"), ("StaticObstacle", "commonroad/scenario/obstacle.py"),
    ("DynamicObstacle", "commonroad/scenario/obstacle.py"), ("PhantomObstacle", "commonroad/scenario/obstacle.py"),
    ("EnvironmentObstacle", "commonroad/scenario/obstacle.py"), ("Scenario", "commonroad/scenario/scenario.py"),
    ("GoalRegion", "commonroad/planning/goal.py"), ("PlanningProblem", "commonroad/planning/planning_problem.py"),
    ("PlanningProblemSet", "commonroad/planning/planning_problem.py"),
]


def self_attr(n):
    """`self.x`, `self.x.values()`, `self.x or []`, `self.x[i]`, `enumerate(self.x)`, `range(len(self.x))`, `sorted(self.x)`,
    `{f(e) for e in self.x...}` / `[...]` / `(...)` (a comprehension over it) -> 'x' (no leading '_')."""
    while True:
        if isinstance(n, ast.Call) and isinstance(n.func, ast.Attribute) and n.func.attr in ("values", "items", "copy") and not n.args:
            n = n.func.value
        elif isinstance(n, ast.Call) and isinstance(n.func, ast.Name) and n.func.id in ("enumerate", "range", "len", "list", "set", "tuple",
                                                                                       "sorted", "reversed") and len(n.args) >= 1:
            n = n.args[0]
        elif isinstance(n, (ast.SetComp, ast.ListComp, ast.GeneratorExp)) and len(n.generators) == 1:
            n = n.generators[0].iter
        elif isinstance(n, ast.BoolOp) and isinstance(n.op, ast.Or):
            n = n.values[0]
        elif isinstance(n, ast.Subscript):
            n = n.value
        else:
            break
    if isinstance(n, ast.Attribute) and isinstance(n.value, ast.Name) and n.value.id == "self":
        return n.attr.lstrip("_")
    return None


def rooted_at(n, names):
    """`x`, `x.a`, `x.a.b`, `x.a[i]` with x one of `names`"""
    while isinstance(n, (ast.Attribute, ast.Subscript)):
        n = n.value
    return isinstance(n, ast.Name) and n.id in names


def moved_attrs(fn):
    """attributes of `self` that `translate_rotate` assigns, calls `.translate_rotate` on, or walks with a loop whose body moves the
    element (calls `.translate_rotate` on the element or on a part of it, or assigns a part of it)"""
    out = set()
    for n in ast.walk(fn):
        if isinstance(n, ast.Assign):
            for tg in n.targets:
                for x in (tg.elts if isinstance(tg, ast.Tuple) else [tg]):
                    a = self_attr(x)
                    if a:
                        out.add(a)
        if isinstance(n, ast.Call) and isinstance(n.func, ast.Attribute) and n.func.attr == "translate_rotate":
            a = self_attr(n.func.value)
            if a:
                out.add(a)
        if isinstance(n, ast.For):
            names = {x.id for x in ast.walk(n.target) if isinstance(x, ast.Name)}
            moves = False
            for b in n.body:
                for c in ast.walk(b):
                    if isinstance(c, ast.Call) and isinstance(c.func, ast.Attribute) and c.func.attr == "translate_rotate" \
                            and rooted_at(c.func.value, names):
                        moves = True
                    if isinstance(c, ast.Assign) and any(isinstance(t, (ast.Attribute, ast.Subscript)) and rooted_at(t, names)
                                                         for t in c.targets):
                        moves = True
            a = self_attr(n.iter)
            if a and moves:
                out.add(a)
    return sorted(out)


def struct_table(repo):
    rows = []
    for cls, file in STRUCT:
        tree = ast.parse(open(os.path.join(repo, file), encoding="utf-8").read())
        rows.append((cls, moved_attrs(find_func(tree, cls, "translate_rotate"))))
    body = ",\n".join('  ("%s", [%s])' % (c, ", ".join('"%s"' % a for a in attrs)) for c, attrs in rows)
    return ("/-- structural extraction: per class, the attributes of `self` (leading `_` dropped) that `translate_rotate` of the CURRENT\n"
            "    source assigns, calls `translate_rotate` on, or walks in a loop whose body moves the element -/\n"
            "def C05_movedTable : List (String × List String) := [\n" + body + "]\n")


def translate_target(repo, t):
    src = open(os.path.join(repo, t.file), encoding="utf-8").read()
    fn = find_func(ast.parse(src), t.cls, t.func)
    return Ty(t).function(fn)


HEADER = """/-
  Gen.SrcC05 — GENERATED on every run by harness/translate/src_c05.py from the current source of commonroad-io. Do not edit.
-/
import CRModel.PyExt
import CRModel.PyExtC05
import CRModel.Rigid
set_option linter.unusedVariables false
namespace Gen
open CR CR.Rigid

"""


def lastgood_path(name):
    return os.path.join(LASTGOOD, "C05_" + name + ".lean")


def build(repo):
    status, chunks = {}, []
    for t in targets():
        lg = lastgood_path(t.name)
        try:
            txt = translate_target(repo, t)
            status["C05." + t.name] = "ok"
        except (Unsupported, SyntaxError, KeyError, IndexError, AttributeError, OSError, TypeError, ValueError) as e:
            if os.path.exists(lg):
                txt = open(lg).read()
                status["C05." + t.name] = f"lost ({type(e).__name__}: {e}); last good translation used"
            else:
                txt = f"-- {t.name}: not translatable ({e})\n"
                status["C05." + t.name] = f"lost ({type(e).__name__}: {e}); no fallback"
        chunks.append(txt)
    lg = lastgood_path("movedTable")
    try:
        txt = struct_table(repo)
        status["C05.movedTable"] = "ok"
    except (Unsupported, SyntaxError, KeyError, IndexError, AttributeError, OSError, TypeError, ValueError) as e:
        txt = open(lg).read() if os.path.exists(lg) else f"-- movedTable: not extractable ({e})\n"
        status["C05.movedTable"] = f"lost ({type(e).__name__}: {e}); last good table used"
    chunks.append(txt)
    return status, chunks


def regenerate(repo, gen_dir):
    os.makedirs(gen_dir, exist_ok=True)
    os.makedirs(LASTGOOD, exist_ok=True)
    status, chunks = build(repo)
    new = HEADER + "\n".join(chunks) + "\nend Gen\n"
    path = os.path.join(gen_dir, "SrcC05.lean")
    old = open(path).read() if os.path.exists(path) else None
    if old != new:
        with open(path, "w") as f:
            f.write(new)
    return status


def update_lastgood(repo):
    os.makedirs(LASTGOOD, exist_ok=True)
    for t in targets():
        open(lastgood_path(t.name), "w").write(translate_target(repo, t))
    open(lastgood_path("movedTable"), "w").write(struct_table(repo))


if __name__ == "__main__":
    import sys
    repo = os.environ.get("VERIF_REPO", "/repo")
    if len(sys.argv) > 1 and sys.argv[1] == "--update-lastgood":
        update_lastgood(repo)
    st = regenerate(repo, os.path.join(os.path.dirname(os.path.dirname(HERE)), "lean", "Gen"))
    for k, v in st.items():
        print(k, v)
