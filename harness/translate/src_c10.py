"""py -> Lean translator for the removal / cut-out code of commonroad-io (translator tie of property C10).

`regenerate(repo, gen_dir)` parses the CURRENT source of

  commonroad/scenario/lanelet.py   LaneletNetwork.cleanup_lanelet_references, cleanup_traffic_sign_references,
                                   cleanup_traffic_light_references, remove_lanelet, remove_traffic_sign, remove_traffic_light,
                                   remove_intersection, create_from_lanelet_list, create_from_lanelet_network (three pieces
                                   that exhaust the body — prefix + first loop, body of the intersection loop, tail — and
                                   the whole function as their composition)
  commonroad/scenario/scenario.py  Scenario.remove_hanging_lanelet_members (whole; also the two id sets alone), remove_lanelet,
                                   remove_traffic_sign,
                                   remove_traffic_light, remove_intersection

with `ast` and writes Lean definitions over the records of lean/CRModel/Refs.lean to `<gen_dir>/SrcC10.lean` (module `Gen.SrcC10`).
lean/CRProps/T10.lean proves each generated definition equal to the hand model the C10 theorems are about.

The code mutates objects in place; the translation threads the mutated variables through `let` re-bindings:

  obj.attr = e                       let obj := { obj with field := e }
  obj.opt_attr.attr = e              let obj := { obj with f := obj.f.map (fun st => { st with field := e }) }
  del obj._dict[k]                   let obj := { obj with field := obj.field.filter (fun e => key e != k) }
  s.add(x) / l.append(x)             let s := PyR.add s x  /  let l := l ++ [x]
  obj.method(args)   (translated)    let obj := Method obj args
  if c: A else: B   (no escape)      let (vars) := if c then (A; vars) else (B; vars)
  if c: ... continue/return ...      if c then (...; final) else (rest; final)
  for x in obj.coll: <mutates x>     let obj := { obj with coll := obj.coll.map (fun x => body; x) }
  for x in xs: <mutates locals vs>   let (vs) := xs.foldl (fun (vs) x => body; (vs)) (vs)
  for x in xs: <may raise>           PyR.forEach (fun self x => body) self xs           (scenario level, state kept on raise)
  raise KeyError(..)                 (self, some .key)

Calls go through a fixed table (lean/CRModel/PyExtC10.lean).  What is NOT modelled is dropped by name (spatial index,
`_buffered_polygons`, areas, warnings, type asserts); the geometric / type filter of the cut-out (the one `if` that mentions
`shape_input` / `exclude_lanelet_types`) is the model's parameter `keep`.  A function that cannot be translated any more is
reported `lost (...)` and its last good translation (harness/translate/lastgood/C10_*.lean) is emitted instead.
"""
from __future__ import annotations

import ast
import os

from .pysrc import HERE, LASTGOOD, Tr, Unsupported, find_func

L = "commonroad/scenario/lanelet.py"
S = "commonroad/scenario/scenario.py"

LEAN_TY = {
    "Id": "CR.Refs.Id", "IdSet": "List CR.Refs.Id", "IdList": "List CR.Refs.Id", "Bool": "Bool", "Nat": "Nat",
    "Net": "CR.Refs.Net", "Lanelet": "CR.Refs.Lanelet", "Inc": "CR.Refs.Incoming", "Inter": "CR.Refs.Intersection",
    "Elem": "CR.Refs.Elem", "Scn": "CR.Refs.Scn", "RmArg": "CR.Refs.RmArg", "Keep": "CR.Refs.Id → Bool",
    "OptId": "Option CR.Refs.Id", "OptElem": "Option CR.Refs.Elem", "OptInter": "Option CR.Refs.Intersection", "OptInc": "Option CR.Refs.Incoming",
}


def lean_ty(t):
    if t.startswith("List:"):
        return f"List ({lean_ty(t[5:])})"
    if t.startswith("Prod:"):
        return " × ".join(f"({lean_ty(x)})" for x in t[5:].split(","))
    return LEAN_TY[t]


# python attribute (leading underscore stripped) -> (lean field, type)
FIELDS = {
    "Lanelet": {"lanelet_id": ("id", "Id"), "predecessor": ("pred", "IdList"), "successor": ("succ", "IdList"),
                "adj_left": ("adjL", "OptId"), "adj_left_same_direction": ("adjLSame", "OptBool"),
                "adj_right": ("adjR", "OptId"), "adj_right_same_direction": ("adjRSame", "OptBool"),
                "traffic_signs": ("signs", "IdSet"), "traffic_lights": ("lights", "IdSet"), "stop_line": ("stop", "OptStop")},
    "Stop": {"traffic_sign_ref": ("signRef", "OptIdSet"), "traffic_light_ref": ("lightRef", "OptIdSet")},
    "Inc": {"incoming_id": ("id", "Id"), "incoming_lanelets": ("inc", "IdSet"), "successors_right": ("right", "IdSet"),
            "successors_straight": ("straight", "IdSet"), "successors_left": ("left", "IdSet"), "left_of": ("leftOf", "OptId")},
    "Inter": {"intersection_id": ("id", "Id"), "incomings": ("incomings", "List:Inc"), "crossings": ("crossings", "IdSet")},
    "Elem": {"traffic_sign_id": ("1", "Id"), "traffic_light_id": ("1", "Id")},
    "RmArg": {"lanelet_id": ("id", "Id"), "traffic_signs": ("signs", "IdSet"), "traffic_lights": ("lights", "IdSet")},
    "Scn": {"lanelet_network": ("net", "Net")},
}
# LaneletNetwork: the dicts (private) and the list-valued properties (public) are different things
NET_FIELDS = {"lanelets": ("lanelets", "List:Lanelet"), "intersections": ("inters", "List:Inter"),
              "traffic_signs": ("signs", "List:Elem"), "traffic_lights": ("lights", "List:Elem"),
              "_lanelets": ("lanelets", "Dict:Lanelet"), "_intersections": ("inters", "Dict:Inter"),
              "_traffic_signs": ("signs", "Dict:Elem"), "_traffic_lights": ("lights", "Dict:Elem")}
DICT_KEYS = {"lanelets": ("lids", "·.id", "id"), "inters": ("iids", "·.id", "id"), "signs": ("sids", "·.1", "1"),
             "lights": ("tids", "·.1", "1")}
# constructor keyword -> lean field
CTORS = {"IntersectionIncomingElement": ("Inc", ["incoming_id", "incoming_lanelets", "successors_right", "successors_straight",
                                                 "successors_left", "left_of"]),
         "Intersection": ("Inter", ["intersection_id", "incomings", "crossings"])}
# what is not modelled and therefore dropped (each is listed in the manifest)
SKIP_CALLS = {"warnings.warn", "self._create_strtree", "lanelet_network._create_strtree", "new_lanelet_network._create_strtree",
              "area_ids.add", "new_lanelet_network.add_area"}
SKIP_ATTRS = {"_buffered_polygons"}
OPAQUE = {"exclude_lanelet_types", "shape_input", "area_ids", "rtree"}
KEYWORDS = {"at", "end", "from", "in", "do", "then", "fun", "show", "have", "open", "local", "instance", "where", "with", "match"}


def root(n):
    while isinstance(n, (ast.Attribute, ast.Subscript)):
        n = n.value
    return n.id if isinstance(n, ast.Name) else None


def names_in(n):
    return {x.id for x in ast.walk(n) if isinstance(x, ast.Name)}


class Spec:
    def __init__(self, name, file, cls, func, params, ret, fin=None, methods=None, locals_=None, keep=None, loop=None,
                 upto_loop=None, emit=None, monadic=False, doc="", from_stmt=None, list_branch=None, funcs=None,
                 after_loop=None, res=False, whole=None):
        self.name, self.file, self.cls, self.func = name, file, cls, func
        self.params = params            # [(python name or None, lean name, type)]
        self.ret = ret                  # lean return type text
        self.fin = fin                  # what the function yields when the body falls off its end
        self.methods = methods or {}    # dotted-suffix method name -> (lean function, kind)   kind: mut | mutM | fun
        self.locals = locals_ or {}     # local name -> type of an empty container it is initialised with
        self.keep = keep                # (loop variable, lean text) the opaque filter test is replaced by
        self.loop = loop                # translate the body of this (nested) for loop only: list of iter source texts
        self.upto_loop = upto_loop      # translate the prefix of the function up to and including this for loop
        self.emit = emit                # in a loop-body piece: the call whose argument the piece yields (`some arg`)
        self.monadic = monadic          # Scn × Option Err style (state kept on raise)
        self.doc = doc
        self.list_branch = list_branch  # True: take the `if isinstance(x, list)` branch, False: the rest (x is one object)
        self.funcs = funcs or {}        # plain function calls -> lean
        self.after_loop = after_loop    # translate the statements after this for loop (the tail of the function)
        self.res = res                  # `Res` style: `return e` is `.ok e`, an adding loop that may raise is PyR.forR
        self.whole = whole              # (prefix piece, loop-body piece, tail piece): compose the whole cut-out from its pieces


class T10(Tr):
    """Typed translator: every expression comes with a type tag; mutated variables are re-bound."""

    def __init__(self, spec: Spec):
        self.s = spec
        self.env = {}
        self.in_loop = False

    # ------------------------------------------------------------------ helpers
    def v(self, name):
        return name + "_" if name in KEYWORDS else name

    def co(self, text, ty, want):
        if ty == want or {ty, want} <= {"Id", "Nat"}:
            return text
        if ty == "None" and want.startswith("Opt"):
            return "none"
        if want == "Opt" + ty:
            return f"(some {text})"
        if ty == "OptIdSet" and want == "IdSet":
            return f"({text}.getD [])"
        raise Unsupported(f"type {ty} where {want} is expected: {text}")

    def unparse(self, n):
        return ast.unparse(n)

    # ------------------------------------------------------------------ expressions
    def ex(self, n):
        if isinstance(n, ast.Constant):
            if n.value is None:
                return "none", "None"
            if isinstance(n.value, bool):
                return ("true" if n.value else "false"), "Bool"
            if isinstance(n.value, int) and n.value >= 0:
                return str(n.value), "Nat"
            raise Unsupported(f"constant {n.value!r}")
        if isinstance(n, ast.Name):
            if n.id in self.env:
                return self.v(n.id), self.env[n.id]
            raise Unsupported(f"name {n.id}")
        if isinstance(n, ast.Attribute):
            bt, bty = self.ex(n.value)
            return self.attr(bt, bty, n.attr)
        if isinstance(n, ast.UnaryOp) and isinstance(n.op, ast.Not):
            return f"(!{self.b(n.operand)})", "Bool"
        if isinstance(n, ast.BoolOp):
            op = " && " if isinstance(n.op, ast.And) else " || "
            return "(" + op.join(self.b(x) for x in n.values) + ")", "Bool"
        if isinstance(n, ast.BinOp):
            a, at = self.ex(n.left)
            b, bt = self.ex(n.right)
            if isinstance(n.op, ast.Add) and at == bt == "Nat":
                return f"({a} + {b})", "Nat"
            if isinstance(n.op, ast.Sub) and at == bt == "IdSet":
                return f"(CR.PyR.diff {a} {b})", "IdSet"
            if isinstance(n.op, ast.BitAnd) and at == bt == "IdSet":
                return f"(CR.PyR.inter {a} {b})", "IdSet"
            raise Unsupported(f"binary op {type(n.op).__name__} on {at}, {bt}")
        if isinstance(n, ast.Compare):
            parts, left = [], n.left
            for op, right in zip(n.ops, n.comparators):
                parts.append(self.cmp(op, left, right))
                left = right
            return (parts[0] if len(parts) == 1 else "(" + " && ".join(parts) + ")"), "Bool"
        if isinstance(n, ast.IfExp):
            a, at = self.ex(n.body)
            b, bt = self.ex(n.orelse)
            ty = at if at != "None" else bt
            if at != bt and "None" not in (at, bt):
                if bt == "Opt" + at:
                    ty = bt
                elif at == "Opt" + bt:
                    ty = at
                else:
                    raise Unsupported(f"conditional expression of types {at} / {bt}")
            if ty == "None":
                raise Unsupported("conditional expression None / None")
            if not ty.startswith("Opt") and "None" in (at, bt):
                ty = "Opt" + ty
            return f"(if {self.b(n.test)} then {self.co(a, at, ty)} else {self.co(b, bt, ty)})", ty
        if isinstance(n, ast.Call):
            return self.call(n)
        if isinstance(n, (ast.ListComp, ast.SetComp, ast.GeneratorExp)):
            if len(n.generators) != 1 or not isinstance(n.generators[0].target, ast.Name):
                raise Unsupported("comprehension shape")
            g = n.generators[0]
            it, ity = self.ex(g.iter)
            ety = self.elem(ity)
            x = g.target.id
            saved = dict(self.env)
            self.env[x] = ety
            src = it
            for c in g.ifs:
                src = f"({src}.filter (fun ({self.v(x)} : {lean_ty(ety)}) => {self.b(c)}))"
            e, et = self.ex(n.elt)
            self.env = saved
            if isinstance(n, ast.SetComp):
                if et != "Id":
                    raise Unsupported("set comprehension of non-ids")
                return f"(CR.PyR.setOfList ({src}.map (fun ({self.v(x)} : {lean_ty(ety)}) => {e})))", "IdSet"
            rty = "IdList" if et == "Id" else "List:" + et
            if isinstance(n.elt, ast.Name) and n.elt.id == x:
                return src, (ity if ity.startswith("List:") else rty)
            return f"({src}.map (fun ({self.v(x)} : {lean_ty(ety)}) => {e}))", rty
        raise Unsupported(f"expression {type(n).__name__}: {self.unparse(n)}")

    def b(self, n):
        """boolean reading of a test"""
        if self.s.keep and names_in(n) & OPAQUE:
            var, txt = self.s.keep
            if names_in(n) <= OPAQUE | {var, "len"}:
                return txt
            raise Unsupported("filter test mentions more than the lanelet and the filter arguments")
        t, ty = self.ex(n)
        if ty != "Bool":
            raise Unsupported(f"truth value of a {ty}: {self.unparse(n)}")
        return t

    def elem(self, ity):
        if ity.startswith("List:"):
            return ity[5:]
        if ity in ("IdSet", "IdList"):
            return "Id"
        raise Unsupported(f"iteration over a {ity}")

    def attr(self, bt, bty, a):
        if bty == "Net":
            if a in NET_FIELDS:
                f, ty = NET_FIELDS[a]
                return f"{bt}.{f}", ty
            raise Unsupported(f"LaneletNetwork.{a}")
        a = a.lstrip("_")
        if bty in FIELDS and a in FIELDS[bty]:
            f, ty = FIELDS[bty][a]
            return f"{bt}.{f}", ty
        if bty.startswith("Opt") and bty[3:] in FIELDS and a in FIELDS[bty[3:]]:
            f, ty = FIELDS[bty[3:]][a]
            if ty.startswith("Opt"):
                return f"({bt}.bind (·.{f}))", ty
            return f"({bt}.map (·.{f}))", "Opt" + ty
        raise Unsupported(f"attribute {a} of a {bty}")

    def cmp(self, op, left, right):
        if isinstance(op, (ast.Is, ast.IsNot)) and isinstance(right, ast.Constant) and right.value is None:
            t, ty = self.ex(left)
            if not ty.startswith("Opt"):
                raise Unsupported(f"`is None` on a {ty}")
            return f"{t}.isNone" if isinstance(op, ast.Is) else f"{t}.isSome"
        if isinstance(op, (ast.In, ast.NotIn)):
            a, at = self.ex(left)
            b, bt = self.ex(right)
            if bt.startswith("Dict:"):
                b, bt = self.keys(b), "IdSet"
            if bt not in ("IdSet", "IdList"):
                raise Unsupported(f"membership in a {bt}")
            if at in ("Id", "Nat"):
                r = f"(CR.PyR.mem {a} {b})"
            elif at == "OptId":
                r = f"(CR.PyR.optMem {a} {b})"
            else:
                raise Unsupported(f"membership of a {at}")
            return r if isinstance(op, ast.In) else f"(!{r})"
        a, at = self.ex(left)
        b, bt = self.ex(right)
        if not {at, bt} <= {"Nat", "Id"}:
            raise Unsupported(f"comparison of {at} and {bt}")
        sym = {ast.Lt: "<", ast.LtE: "≤", ast.Gt: ">", ast.GtE: "≥", ast.Eq: "=", ast.NotEq: "≠"}.get(type(op))
        if sym is None:
            raise Unsupported(f"comparison {type(op).__name__}")
        return f"decide ({a} {sym} {b})"

    def keys(self, dict_text):
        obj, f = dict_text.rsplit(".", 1)
        return f"{obj}.{DICT_KEYS[f][0]}"

    def call(self, n):
        f = n.func
        d = self.dotted(f)
        if d in ("set", "list") and not n.args:
            raise Unsupported("empty container outside an initialisation")
        if d == "set" and len(n.args) == 1:
            a, at = self.ex(n.args[0])
            if at.startswith("Dict:"):
                return self.keys(a), "IdSet"
            if at == "IdList":
                return f"(CR.PyR.setOfList {a})", "IdSet"
            if at == "IdSet":
                return a, "IdSet"
            raise Unsupported(f"set() of a {at}")
        if d == "list" and len(n.args) == 1:
            a, at = self.ex(n.args[0])
            if at == "IdSet":
                return f"(CR.PyR.listOfSet {a})", "IdList"
            if at == "IdList" or at.startswith("List:"):
                return a, at
            raise Unsupported(f"list() of a {at}")
        if d == "len" and len(n.args) == 1:
            a, at = self.ex(n.args[0])
            if at.startswith("Opt"):
                a, at = self.co(a, at, at[3:]), at[3:]
            if at in ("IdSet", "IdList") or at.startswith("List:"):
                return f"{a}.length", "Nat"
            raise Unsupported(f"len() of a {at}")
        if d == "copy.deepcopy" and len(n.args) == 1:
            return self.ex(n.args[0])
        if d == "cls" and not n.args:
            return "CR.PyR.emptyNet", "Net"
        if d in CTORS:
            ty, order = CTORS[d]
            vals = {}
            for k, a in zip(order, n.args):
                vals[k] = a
            for kw in n.keywords:
                vals[kw.arg] = kw.value
            fs = []
            for k in order:
                if k not in vals:
                    raise Unsupported(f"{d}: argument {k} missing")
                lf, lt = FIELDS[ty][k]
                t, tt = self.ex(vals[k])
                fs.append(f"{lf} := {self.co(t, tt, lt)}")
            return "{ " + ", ".join(fs) + f" : {lean_ty(ty)} }}", ty
        if isinstance(f, ast.Attribute):
            m = f.attr
            # set().union(*[...])
            if m == "union" and isinstance(f.value, ast.Call) and self.dotted(f.value.func) == "set" and not f.value.args \
                    and len(n.args) == 1 and isinstance(n.args[0], ast.Starred):
                a, at = self.ex(n.args[0].value)
                if at != "List:IdSet":
                    raise Unsupported(f"union of a {at}")
                return f"(CR.PyR.unionAll {a})", "IdSet"
            bt, bty = self.ex(f.value)
            if m == "keys" and bty.startswith("Dict:") and not n.args:
                return self.keys(bt), "IdSet"
            if m in ("intersection", "difference") and len(n.args) == 1:
                a, at = self.ex(n.args[0])
                if at.startswith("Dict:"):
                    a, at = self.keys(a), "IdSet"
                fn = "inter" if m == "intersection" else "diff"
                return f"(CR.PyR.{fn} {self.co(bt, bty, 'IdSet')} {self.co(a, at, 'IdSet')})", "IdSet"
            ent = self.method(n)
            if ent and ent[1] == "fun":
                fn, _, rty = ent
                args = " ".join(self.ex(a)[0] for a in n.args)
                return f"({fn} {bt} {args})", rty
        raise Unsupported(f"call {d}")

    # ------------------------------------------------------------------ statement analysis
    def is_skip_call(self, c):
        return isinstance(c, ast.Call) and self.dotted(c.func) in SKIP_CALLS

    def droppable(self, s):
        if isinstance(s, ast.Pass) or (isinstance(s, ast.Expr) and isinstance(s.value, ast.Constant)):
            return True
        if isinstance(s, ast.Expr) and self.is_skip_call(s.value):
            return True
        if isinstance(s, ast.Assert) and self.type_assert(s.test):
            return True
        if isinstance(s, ast.Assign) and all(isinstance(t, ast.Name) and t.id in OPAQUE for t in s.targets):
            return True
        if isinstance(s, ast.Delete) and all(isinstance(t, ast.Subscript) and isinstance(t.value, ast.Attribute)
                                             and t.value.attr in SKIP_ATTRS for t in s.targets):
            return True
        if isinstance(s, ast.If):
            return all(self.droppable(x) for x in s.body + s.orelse)
        if isinstance(s, ast.For):
            return all(self.droppable(x) for x in s.body) and not s.orelse
        return False

    def type_assert(self, t):
        if isinstance(t, ast.BoolOp) and isinstance(t.op, ast.And):
            return all(self.type_assert(x) for x in t.values)
        if isinstance(t, ast.Call) and self.dotted(t.func) == "isinstance":
            return True
        if isinstance(t, ast.Call) and self.dotted(t.func) == "all" and len(t.args) == 1 \
                and isinstance(t.args[0], ast.GeneratorExp) and self.type_assert(t.args[0].elt):
            return True
        return False

    def mut_kind(self, c):
        """(root variable, how) for a call statement that mutates something, else None"""
        if not (isinstance(c, ast.Call) and isinstance(c.func, ast.Attribute)):
            return None
        m = c.func.attr
        ent = self.method(c)
        if m in ("add", "append") or (ent and ent[1] in ("mut", "mutM")):
            return root(c.func.value)
        if m == "remove" and isinstance(c.func.value, ast.Attribute) and c.func.value.attr == "_id_set":
            return root(c.func.value)
        return None

    def assigned(self, stmts):
        out = set()
        for s in stmts:
            if self.droppable(s):
                continue
            if isinstance(s, (ast.Assign, ast.AugAssign)):
                for t in (s.targets if isinstance(s, ast.Assign) else [s.target]):
                    for x in (t.elts if isinstance(t, ast.Tuple) else [t]):
                        r = root(x)
                        if r is None:
                            raise Unsupported("assignment target")
                        out.add(r)
            elif isinstance(s, ast.Delete):
                for t in s.targets:
                    out.add(root(t))
            elif isinstance(s, ast.Expr):
                r = self.mut_kind(s.value)
                if r is not None:
                    out.add(r)
            elif isinstance(s, ast.If):
                out |= self.assigned(s.body) | self.assigned(s.orelse)
            elif isinstance(s, ast.For):
                inner = self.assigned(s.body)
                x = s.target.id if isinstance(s.target, ast.Name) else None
                if x in inner:
                    inner.discard(x)
                    out.add(root(s.iter))
                out |= inner
        return out

    def escapes(self, stmts):
        for s in stmts:
            if isinstance(s, (ast.Return, ast.Continue, ast.Raise, ast.Break)):
                return True
            if isinstance(s, ast.If) and (self.escapes(s.body) or self.escapes(s.orelse)):
                return True
            if isinstance(s, ast.If) and self.s.monadic and self.raises([s]):
                return True
            if isinstance(s, ast.Expr) and self.is_emit(s.value):
                return True
            if isinstance(s, ast.For):
                for x in ast.walk(s):
                    if isinstance(x, (ast.Return, ast.Raise)):
                        if not self.s.monadic:
                            raise Unsupported("return / raise inside a loop")
        return False

    def terminates(self, stmts):
        stmts = [s for s in stmts if not self.droppable(s)]
        if not stmts:
            return False
        s = stmts[-1]
        if isinstance(s, (ast.Return, ast.Continue, ast.Raise)):
            return True
        if isinstance(s, ast.Expr) and self.is_emit(s.value):
            return True
        if isinstance(s, ast.If):
            return self.terminates(s.body) and bool(s.orelse) and self.terminates(s.orelse)
        return False

    def method(self, c):
        """table entry of the method a call goes to: looked up with the receiver's source text first, then by name"""
        if not isinstance(c.func, ast.Attribute):
            return None
        return self.s.methods.get(self.unparse(c.func.value) + "." + c.func.attr) or self.s.methods.get(c.func.attr)

    def is_emit(self, c):
        return self.s.emit is not None and isinstance(c, ast.Call) and self.dotted(c.func) == self.s.emit

    def tup(self, vs):
        vs = [self.v(x) for x in vs]
        return vs[0] if len(vs) == 1 else "(" + ", ".join(vs) + ")"

    # ------------------------------------------------------------------ statements
    def block(self, stmts, fin, ind):
        """Lean term for: run `stmts`, then yield `fin` (the text of the final value in terms of the current variables)."""
        pad = "  " * ind
        stmts = list(stmts)
        while stmts and self.droppable(stmts[0]):
            stmts.pop(0)
        if not stmts:
            return pad + fin
        s, rest = stmts[0], stmts[1:]
        if isinstance(s, ast.Continue):
            if not self.in_loop:
                raise Unsupported("continue outside a loop")
            return pad + fin
        if isinstance(s, ast.Return):
            return self.ret(s, fin, pad)
        if isinstance(s, ast.Raise):
            return self.raise_(s, pad)
        if isinstance(s, ast.Expr) and self.is_emit(s.value):
            if [x for x in rest if not self.droppable(x)] or len(s.value.args) != 1:
                raise Unsupported("statements after the emitting call")
            t, _ = self.ex(s.value.args[0])
            return f"{pad}some {t}"
        if isinstance(s, ast.Assign) and len(s.targets) == 1:
            return self.assign(s.targets[0], s.value, pad) + self.block(rest, fin, ind)
        if isinstance(s, ast.Delete) and len(s.targets) == 1:
            return self.delete(s.targets[0], pad) + self.block(rest, fin, ind)
        if isinstance(s, ast.Expr) and isinstance(s.value, ast.Call):
            return self.call_stmt(s.value, rest, fin, ind)
        if isinstance(s, ast.If):
            return self.if_(s, rest, fin, ind)
        if isinstance(s, ast.For) and isinstance(s.target, ast.Name) and not s.orelse:
            return self.for_(s, rest, fin, ind)
        raise Unsupported(f"statement {type(s).__name__}: {self.unparse(s)[:60]}")

    def ret(self, s, fin, pad):
        if self.in_loop:
            raise Unsupported("return inside a loop")
        if s.value is None or (isinstance(s.value, ast.Constant) and s.value.value is None):
            if self.s.fin is None:
                raise Unsupported("bare return")
            return pad + self.final()
        t, ty = self.ex(s.value)
        if self.s.res:
            if ty != "Net":
                raise Unsupported(f"return of a {ty}")
            return f"{pad}.ok {t}"
        return pad + t

    # add_* calls of the cut-out tail: method -> (call-table entry, type of the looked-up object)
    ADDS = {"add_traffic_sign": ("CR.PyR.addSignR", "OptElem", 2), "add_traffic_light": ("CR.PyR.addLightR", "OptElem", 2),
            "add_lanelet": ("CR.PyR.addLaneletR", "OptLanelet", 1)}

    def add_loop(self, s, rest, fin, ind):
        """`for i in ids: net.add_X(copy.deepcopy(src.find_X_by_id(i)), set())`  (add_lanelet: `rtree=False`) — may raise"""
        pad = "  " * ind
        if len(s.body) != 1 or not (isinstance(s.body[0], ast.Expr) and isinstance(s.body[0].value, ast.Call)):
            return None
        c = s.body[0].value
        if not (isinstance(c.func, ast.Attribute) and c.func.attr in self.ADDS and isinstance(c.func.value, ast.Name)
                and self.env.get(c.func.value.id) == "Net"):
            return None
        fn, want, nargs = self.ADDS[c.func.attr]
        if len(c.args) != nargs:
            raise Unsupported(f"{c.func.attr}: {len(c.args)} arguments")
        if nargs == 2 and not (self.empty(c.args[1])):
            raise Unsupported(f"{c.func.attr}: lanelet ids given")
        kws = {k.arg: k.value for k in c.keywords}
        if c.func.attr == "add_lanelet":
            if set(kws) - {"rtree"} or ("rtree" in kws and not (isinstance(kws["rtree"], ast.Constant) and kws["rtree"].value is False)):
                raise Unsupported("add_lanelet keywords")
        elif kws:
            raise Unsupported(f"{c.func.attr} keywords")
        x = s.target.id
        it, ity = self.ex(s.iter)
        if ity != "IdSet":
            raise Unsupported(f"adding loop over a {ity}")
        saved = dict(self.env)
        self.env[x] = "Id"
        t, ty = self.ex(c.args[0])
        self.env = saved
        if ty != want:
            raise Unsupported(f"{c.func.attr} of a {ty}")
        r = self.v(c.func.value.id)
        k = self.block(rest, fin, ind + 1)
        return (f"{pad}CR.PyR.bindR (CR.PyR.forR (fun {r} ({self.v(x)} : CR.Refs.Id) => {fn} {r} {t}) {r} {it}) (fun {r} =>\n{k})")

    def whole(self, stmts):
        """the cut-out as the composition of its three translated pieces; checks that they are consecutive and exhaustive"""
        sp = self.s
        sel, inter, tail = sp.whole
        i = self.find_loop(stmts, "lanelet_network.lanelets")
        j = self.find_loop(stmts, "lanelet_network.intersections")
        if j != i + 1:
            raise Unsupported("statements between the lanelet loop and the intersection loop")
        for st in stmts[:i]:
            if isinstance(st, (ast.For, ast.While, ast.Return, ast.Raise, ast.Try, ast.With)):
                raise Unsupported("control flow before the first loop")
        # the network the pieces fill is `cls()`
        new = [st for st in stmts[:i] if isinstance(st, ast.Assign) and isinstance(st.value, ast.Call)
               and self.dotted(st.value.func) == "cls" and not st.value.args and not st.value.keywords]
        if len(new) != 1 or not (len(new[0].targets) == 1 and isinstance(new[0].targets[0], ast.Name)
                                 and new[0].targets[0].id == "new_lanelet_network"):
            raise Unsupported("new_lanelet_network = cls() not found")
        loop = stmts[j]
        if not (isinstance(loop.target, ast.Name) and loop.target.id == "old_intersection" and not loop.orelse):
            raise Unsupported("intersection loop variable")
        binders = " ".join(f"({ln} : {lean_ty(ty)})" for _, ln, ty in sp.params)
        doc = f"/-- {sp.file}: {sp.cls}.{sp.func} — {sp.doc} -/\n"
        return (f"{doc}def {sp.name} {binders} : {sp.ret} :=\n"
                f"  let sel := {sel} lanelet_network keep\n"
                f"  let new_lanelet_network := lanelet_network.inters.foldl (fun new_lanelet_network (old_intersection : CR.Refs.Intersection) =>\n"
                f"      CR.PyR.addInterO new_lanelet_network ({inter} sel.1 old_intersection)) CR.PyR.emptyNet\n"
                f"  {tail} lanelet_network new_lanelet_network sel.1 sel.2.1 sel.2.2 cleanup_ids\n")

    def final(self):
        return f"({self.s.fin}, none)" if self.s.monadic else self.s.fin

    def raise_(self, s, pad):
        if not self.s.monadic:
            raise Unsupported("raise in a pure target")
        exc = s.exc.func.id if isinstance(s.exc, ast.Call) and isinstance(s.exc.func, ast.Name) else None
        cls = {"KeyError": ".key", "ValueError": ".value", "AssertionError": ".assert"}.get(exc)
        if cls is None:
            raise Unsupported(f"raise {exc}")
        return f"{pad}({self.s.fin}, some {cls})"

    def assign(self, tg, value, pad):
        if isinstance(tg, ast.Name):
            if self.empty(value):
                if tg.id not in self.s.locals:
                    raise Unsupported(f"empty container {tg.id} of unknown element type")
                ty = self.s.locals[tg.id]
                self.env[tg.id] = ty
                return f"{pad}let {self.v(tg.id)} : {lean_ty(ty)} := []\n"
            t, ty = self.ex(value)
            if ty == "None":
                raise Unsupported("variable bound to None")
            self.env[tg.id] = ty
            return f"{pad}let {self.v(tg.id)} := {t}\n"
        if isinstance(tg, ast.Attribute):
            t, ty = self.ex(value)
            return self.set_attr(tg, t, ty, pad)
        raise Unsupported("assignment target")

    def set_attr(self, tg, t, ty, pad):
        """obj.attr = t   /   obj.opt.attr = t"""
        if isinstance(tg.value, ast.Name):
            obj = tg.value.id
            oty = self.env.get(obj)
            a = tg.attr.lstrip("_")
            if oty in FIELDS and a in FIELDS[oty] and oty != "Scn":
                f, fty = FIELDS[oty][a]
                return f"{pad}let {self.v(obj)} := {{ {self.v(obj)} with {f} := {self.co(t, ty, fty)} }}\n"
            raise Unsupported(f"assignment to {a} of a {oty}")
        if isinstance(tg.value, ast.Attribute) and isinstance(tg.value.value, ast.Name):
            obj = tg.value.value.id
            oty = self.env.get(obj)
            mid = tg.value.attr.lstrip("_")
            a = tg.attr.lstrip("_")
            if oty in FIELDS and mid in FIELDS[oty]:
                mf, mty = FIELDS[oty][mid]
                if mty.startswith("Opt") and mty[3:] in FIELDS and a in FIELDS[mty[3:]]:
                    f, fty = FIELDS[mty[3:]][a]
                    o = self.v(obj)
                    return (f"{pad}let {o} := {{ {o} with {mf} := {o}.{mf}.map (fun (st : CR.Refs.StopLine) => {{ st with {f} := "
                            f"{self.co(t, ty, fty)} }}) }}\n")
            raise Unsupported(f"assignment to {mid}.{a} of a {oty}")
        raise Unsupported("assignment target")

    def empty(self, v):
        if isinstance(v, (ast.List, ast.Dict)) and not (getattr(v, "elts", None) or getattr(v, "keys", None)):
            return True
        return isinstance(v, ast.Call) and self.dotted(v.func) in ("list", "set") and not v.args and not v.keywords

    def delete(self, tg, pad):
        """del obj._dict[k]"""
        if isinstance(tg, ast.Subscript) and isinstance(tg.value, ast.Attribute):
            d, dty = self.ex(tg.value)
            k, kty = self.ex(tg.slice)
            if dty.startswith("Dict:") and kty in ("Id", "Nat"):
                obj, f = d.rsplit(".", 1)
                if obj not in self.env:
                    raise Unsupported("del on a nested object")
                proj = DICT_KEYS[f][2]
                return f"{pad}let {obj} := {{ {obj} with {f} := {d}.filter (fun e => e.{proj} != {k}) }}\n"
        raise Unsupported(f"del {self.unparse(tg)}")

    def place(self, n):
        """(root variable, function wrapping a new value of the place into a new value of the root, current value text)"""
        if isinstance(n, ast.Name):
            return n.id, (lambda new: new), self.v(n.id)
        if isinstance(n, ast.Attribute) and isinstance(n.value, ast.Name):
            obj = n.value.id
            oty = self.env.get(obj)
            t, _ = self.ex(n)
            f = t.rsplit(".", 1)[1]
            if oty in ("Scn",):
                return obj, (lambda new: f"{{ {self.v(obj)} with {f} := {new} }}"), t
        raise Unsupported(f"mutated place {self.unparse(n)}")

    def call_stmt(self, c, rest, fin, ind):
        pad = "  " * ind
        if not isinstance(c.func, ast.Attribute):
            raise Unsupported(f"call statement {self.dotted(c.func)}")
        m = c.func.attr
        recv = c.func.value
        if m == "add" and isinstance(recv, ast.Name) and self.env.get(recv.id) == "IdSet" and len(c.args) == 1:
            t, ty = self.ex(c.args[0])
            x = self.v(recv.id)
            return f"{pad}let {x} := CR.PyR.add {x} {self.co(t, ty, 'Id')}\n" + self.block(rest, fin, ind)
        if m == "append" and isinstance(recv, ast.Name) and recv.id in self.env and len(c.args) == 1:
            t, ty = self.ex(c.args[0])
            lty = self.env[recv.id]
            want = "Id" if lty == "IdList" else lty[5:]
            x = self.v(recv.id)
            return f"{pad}let {x} := {x} ++ [{self.co(t, ty, want)}]\n" + self.block(rest, fin, ind)
        if m == "remove" and isinstance(recv, ast.Attribute) and recv.attr == "_id_set" and self.s.monadic \
                and isinstance(recv.value, ast.Name) and self.env.get(recv.value.id) == "Scn":
            t, ty = self.ex(c.args[0])
            x = self.v(recv.value.id)
            k = self.block(rest, fin, ind + 1)
            return f"{pad}CR.PyR.andThen (CR.PyR.idSetRemove {x} {self.co(t, ty, 'Id')}) (fun {x} =>\n{k})"
        ent = self.method(c)
        if ent:
            fn, kind = ent[0], ent[1]
            args = " ".join(self.arg(a) for a in c.args)
            if kind == "mut":
                var, wrap, cur = self.place(recv)
                return f"{pad}let {self.v(var)} := {wrap(f'({fn} {cur} {args})'.replace(' )', ')'))}\n" + self.block(rest, fin, ind)
            if kind == "mutM":
                if not self.s.monadic or not isinstance(recv, ast.Name):
                    raise Unsupported("raising callee in a pure target")
                x = self.v(recv.id)
                k = self.block(rest, fin, ind + 1)
                return f"{pad}CR.PyR.andThen ({fn} {x} {args}) (fun {x} =>\n{k})"
        raise Unsupported(f"call statement {self.dotted(c.func)}")

    def arg(self, a):
        t, _ = self.ex(a)
        return t

    def if_(self, s, rest, fin, ind):
        pad = "  " * ind
        test = self.b(s.test)
        if self.escapes([s]):
            saved = dict(self.env)
            then = self.block(list(s.body) + ([] if self.terminates(s.body) else rest), fin, ind + 1)
            self.env = dict(saved)
            els = self.block(list(s.orelse) + ([] if self.terminates(s.orelse) else rest), fin, ind + 1)
            self.env = saved
            return f"{pad}if {test} then\n{then}\n{pad}else\n{els}"
        vs = sorted(x for x in self.assigned(s.body) | self.assigned(s.orelse)
                    if x in self.env or (x in self.assigned(s.body) and x in self.assigned(s.orelse)))
        if not vs:
            return self.block(rest, fin, ind)
        saved = dict(self.env)
        then = self.block(s.body, self.tup(vs), ind + 2)
        env_then = self.env
        self.env = dict(saved)
        els = self.block(s.orelse, self.tup(vs), ind + 2)
        self.env = saved
        for x in vs:
            self.env[x] = env_then[x]
        return (f"{pad}let {self.tup(vs)} :=\n{pad}  if {test} then\n{then}\n{pad}  else\n{els}\n"
                + self.block(rest, fin, ind))

    def for_(self, s, rest, fin, ind):
        pad = "  " * ind
        if self.s.res:
            r = self.add_loop(s, rest, fin, ind)
            if r is not None:
                return r
        x = s.target.id
        it, ity = self.ex(s.iter)
        if ity.startswith("OptList:"):
            it, ity = f"({it}.getD [])", ity[3:]
        ety = self.elem(ity)
        mutated = self.assigned(s.body)
        saved = dict(self.env)
        was = self.in_loop
        self.in_loop = True
        self.env[x] = ety
        try:
            if mutated == {x}:
                # the loop edits the elements of a collection held by an object:  obj.coll := obj.coll.map (fun x => ...; x)
                if not (isinstance(s.iter, ast.Attribute) and isinstance(s.iter.value, ast.Name) and ity.startswith("List:")):
                    raise Unsupported("loop mutating the elements of a computed collection")
                obj = self.v(s.iter.value.id)
                f = it.rsplit(".", 1)[1]
                body = self.block(s.body, self.v(x), ind + 2)
                out = f"{pad}let {obj} := {{ {obj} with {f} := {it}.map (fun ({self.v(x)} : {lean_ty(ety)}) =>\n{body}) }}\n"
                vs = []
            elif x not in mutated:
                vs = sorted(v for v in mutated if v in saved)      # names first bound inside the body are local to it
                if not vs:
                    raise Unsupported("loop without effect on the variables in scope")
                if self.s.monadic and vs == ["self"] and self.raises(s.body):
                    body = self.block(s.body, self.final(), ind + 2)
                    self.env = saved
                    self.in_loop = was
                    k = self.block(rest, fin, ind + 1)
                    return (f"{pad}CR.PyR.andThen (CR.PyR.forEach (fun self ({self.v(x)} : {lean_ty(ety)}) =>\n{body}) self {it}) (fun self =>\n{k})")
                body = self.block(s.body, self.tup(vs), ind + 2)
                out = f"{pad}let {self.tup(vs)} := {it}.foldl (fun {self.tup(vs)} ({self.v(x)} : {lean_ty(ety)}) =>\n{body}) {self.tup(vs)}\n"
            else:
                raise Unsupported("loop mutating both its element and other variables")
        finally:
            self.in_loop = was
        env_after = self.env
        self.env = saved
        for v_ in vs:
            self.env[v_] = env_after[v_]
        return out + self.block(rest, fin, ind)

    def raises(self, stmts):
        for s in stmts:
            for x in ast.walk(s):
                if isinstance(x, ast.Raise):
                    return True
                if isinstance(x, ast.Call) and isinstance(x.func, ast.Attribute):
                    m = x.func.attr
                    ent = self.method(x)
                    if (ent and ent[1] == "mutM") or \
                            (m == "remove" and isinstance(x.func.value, ast.Attribute) and x.func.value.attr == "_id_set"):
                        return True
        return False

    # ------------------------------------------------------------------ whole function / piece
    def function(self, fn):
        sp = self.s
        stmts = list(fn.body)
        for p, ln, ty in sp.params:
            if p is not None:
                self.env[p] = ty
        if sp.list_branch is not None:
            stmts = self.pick_branch(stmts, sp.list_branch)
        if sp.whole is not None:
            return self.whole(stmts)
        if sp.upto_loop is not None:
            i = self.find_loop(stmts, sp.upto_loop)
            stmts = stmts[:i + 1]
        if sp.after_loop is not None:
            i = self.find_loop(stmts, sp.after_loop)
            stmts = stmts[i + 1:]
        if sp.loop is not None:
            for src in sp.loop:
                pre = stmts
                i = self.find_loop(pre, src)
                loop = pre[i]
                # locals defined before the loop keep their types (they are parameters of the piece)
                self.env[loop.target.id] = [t for p, _, t in sp.params if p == loop.target.id][0]
                stmts = list(loop.body)
            self.in_loop = True
        body = self.block(stmts, self.final() if sp.fin is not None else "none", 1)
        binders = " ".join(f"({ln} : {lean_ty(ty) if ty in LEAN_TY or ty[:5] in ('List:', 'Prod:') else ty})" for _, ln, ty in sp.params)
        doc = f"/-- {sp.file}: {sp.cls}.{sp.func}{(' — ' + sp.doc) if sp.doc else ''} -/\n"
        return f"{doc}def {sp.name} {binders} : {sp.ret} :=\n{body}\n"

    def find_loop(self, stmts, src):
        for i, s in enumerate(stmts):
            if isinstance(s, ast.For) and self.unparse(s.iter) == src:
                return i
        raise Unsupported(f"loop over {src} not found")

    def pick_branch(self, stmts, want_list):
        """`if isinstance(x, list): <loop>; return` followed by the single-object code."""
        out = []
        wrapped = False
        for i, s in enumerate(stmts):
            if isinstance(s, ast.If) and isinstance(s.test, ast.Call) and self.dotted(s.test.func) == "isinstance" \
                    and self.unparse(s.test.args[1]) == "list" and not s.orelse:
                if want_list:
                    return out + list(s.body)
                return out + stmts[i + 1:]
            if isinstance(s, ast.If) and isinstance(s.test, ast.UnaryOp) and isinstance(s.test.op, ast.Not) \
                    and isinstance(s.test.operand, ast.Call) and self.dotted(s.test.operand.func) == "isinstance" \
                    and self.unparse(s.test.operand.args[1]) == "list" and not s.orelse:
                # `if not isinstance(x, list): x = [x]` : the list form is what is translated
                if want_list:
                    wrapped = True
                    continue
                raise Unsupported("single-object form of a function that wraps its argument into a list")
            out.append(s)
        if wrapped:
            return out
        raise Unsupported("list / single-object dispatch not found")


# ---------------------------------------------------------------------------------------------------------------- targets
def specs():
    NET = [("self", "self", "Net")]
    cleanups = {"cleanup_lanelet_references": ("LaneletNetwork_cleanup_lanelet_references", "mut"),
                "cleanup_traffic_sign_references": ("LaneletNetwork_cleanup_traffic_sign_references", "mut"),
                "cleanup_traffic_light_references": ("LaneletNetwork_cleanup_traffic_light_references", "mut")}
    net_ret = "CR.Refs.Net"
    out = [
        Spec("LaneletNetwork_cleanup_lanelet_references", L, "LaneletNetwork", "cleanup_lanelet_references", NET, net_ret, fin="self"),
        Spec("LaneletNetwork_cleanup_traffic_sign_references", L, "LaneletNetwork", "cleanup_traffic_sign_references", NET, net_ret,
             fin="self"),
        Spec("LaneletNetwork_cleanup_traffic_light_references", L, "LaneletNetwork", "cleanup_traffic_light_references", NET, net_ret,
             fin="self"),
        Spec("LaneletNetwork_remove_lanelet", L, "LaneletNetwork", "remove_lanelet", NET + [("lanelet_id", "lanelet_id", "Id")],
             net_ret, fin="self", methods=cleanups, doc="the spatial index (`rtree`, `_buffered_polygons`) is not modelled"),
        Spec("LaneletNetwork_remove_traffic_sign", L, "LaneletNetwork", "remove_traffic_sign",
             NET + [("traffic_sign_id", "traffic_sign_id", "Id")], net_ret, fin="self", methods=cleanups),
        Spec("LaneletNetwork_remove_traffic_light", L, "LaneletNetwork", "remove_traffic_light",
             NET + [("traffic_light_id", "traffic_light_id", "Id")], net_ret, fin="self", methods=cleanups),
        Spec("LaneletNetwork_remove_intersection", L, "LaneletNetwork", "remove_intersection",
             NET + [("intersection_id", "intersection_id", "Id")], net_ret, fin="self", methods=cleanups),
        Spec("LaneletNetwork_create_from_lanelet_list", L, "LaneletNetwork", "create_from_lanelet_list",
             [("lanelets", "lanelets", "List:Lanelet"), ("cleanup_ids", "cleanup_ids", "Bool")], net_ret,
             methods={**cleanups, "add_lanelet": ("CR.PyR.addLanelet", "mut")},
             doc="`add_lanelet` is the fixed-table `PyR.addLanelet`; deepcopy is the identity on values"),
        Spec("LaneletNetwork_cut_select", L, "LaneletNetwork", "create_from_lanelet_network",
             [("lanelet_network", "lanelet_network", "Net"), (None, "keep", "Keep")],
             "(List CR.Refs.Id) × (List CR.Refs.Id) × (List CR.Refs.Id)",
             fin="(lanelet_ids, traffic_sign_ids, traffic_light_ids)", upto_loop="lanelet_network.lanelets",
             locals_={"traffic_sign_ids": "IdSet", "traffic_light_ids": "IdSet", "lanelet_ids": "IdSet"},
             keep=("la", "(!(keep la.id))"),
             doc="first loop: the ids of the kept lanelets and of the signs / lights they reference; the geometric / type test "
                 "is the parameter `keep`"),
        Spec("LaneletNetwork_cut_intersection", L, "LaneletNetwork", "create_from_lanelet_network",
             [("lanelet_ids", "lanelet_ids", "IdSet"), ("old_intersection", "old_intersection", "Inter")],
             "Option CR.Refs.Intersection", loop=["lanelet_network.intersections"], emit="new_lanelet_network.add_intersection",
             locals_={"new_incomings": "List:Inc", "new_crossings": "IdSet"},
             doc="body of the loop over the old intersections: `none` = continue, `some i` = add_intersection(i)"),
        Spec("LaneletNetwork_cut_assemble", L, "LaneletNetwork", "create_from_lanelet_network",
             [("lanelet_network", "lanelet_network", "Net"), ("new_lanelet_network", "new_lanelet_network", "Net"),
              ("lanelet_ids", "lanelet_ids", "IdSet"), ("traffic_sign_ids", "traffic_sign_ids", "IdSet"),
              ("traffic_light_ids", "traffic_light_ids", "IdSet"), ("cleanup_ids", "cleanup_ids", "Bool")],
             "CR.Res CR.Refs.Net", after_loop="lanelet_network.intersections", res=True,
             methods={**cleanups,
                      "find_traffic_sign_by_id": ("CR.PyR.findSign", "fun", "OptElem"),
                      "find_traffic_light_by_id": ("CR.PyR.findLight", "fun", "OptElem"),
                      "find_lanelet_by_id": ("CR.PyR.findLanelet", "fun", "OptLanelet")},
             doc="everything AFTER the loop over the old intersections: add_traffic_sign / add_traffic_light / add_lanelet of the "
                 "selected ids (call-table entries PyR.add*R: `None` = AssertionError), the `if cleanup_ids` call of "
                 "cleanup_lanelet_references, the return"),
        Spec("LaneletNetwork_create_from_lanelet_network", L, "LaneletNetwork", "create_from_lanelet_network",
             [("lanelet_network", "lanelet_network", "Net"), (None, "keep", "Keep"), ("cleanup_ids", "cleanup_ids", "Bool")],
             "CR.Res CR.Refs.Net", whole=("LaneletNetwork_cut_select", "LaneletNetwork_cut_intersection",
                                          "LaneletNetwork_cut_assemble"),
             doc="the whole function = prefix up to the first loop (cut_select), the loop over the old intersections (its body "
                 "is cut_intersection, `add_intersection` the call-table entry PyR.addInter), the tail (cut_assemble); the "
                 "translator checks that these three pieces are consecutive and exhaust the body"),
    ]
    SCN = [("self", "self", "Scn")]
    scn_ret = "CR.Refs.Scn × Option CR.Err"
    finds = {"find_traffic_sign_by_id": ("CR.PyR.findSign", "fun", "OptElem"),
             "find_traffic_light_by_id": ("CR.PyR.findLight", "fun", "OptElem"),
             "find_lanelet_by_id": ("CR.PyR.findLanelet", "fun", "OptLanelet"),
             "find_intersection_by_id": ("CR.PyR.findInter", "fun", "OptInter")}
    netm = {"self.lanelet_network.remove_traffic_sign": ("LaneletNetwork_remove_traffic_sign", "mut"),
            "self.lanelet_network.remove_traffic_light": ("LaneletNetwork_remove_traffic_light", "mut"),
            "self.lanelet_network.remove_lanelet": ("LaneletNetwork_remove_lanelet", "mut"),
            "self.lanelet_network.remove_intersection": ("LaneletNetwork_remove_intersection", "mut")}
    out += [
        Spec("Scenario_remove_traffic_sign_one", S, "Scenario", "remove_traffic_sign", SCN + [("traffic_sign", "traffic_sign", "Elem")],
             scn_ret, fin="self", monadic=True, list_branch=False, methods={**finds, **netm}, doc="argument is one TrafficSign"),
        Spec("Scenario_remove_traffic_sign_list", S, "Scenario", "remove_traffic_sign",
             SCN + [("traffic_sign", "traffic_sign", "List:Elem")], scn_ret, fin="self", monadic=True, list_branch=True,
             methods={"self.remove_traffic_sign": ("Scenario_remove_traffic_sign_one", "mutM")}, doc="argument is a list"),
        Spec("Scenario_remove_traffic_light_one", S, "Scenario", "remove_traffic_light", SCN + [("traffic_light", "traffic_light", "Elem")],
             scn_ret, fin="self", monadic=True, list_branch=False, methods={**finds, **netm}, doc="argument is one TrafficLight"),
        Spec("Scenario_remove_traffic_light_list", S, "Scenario", "remove_traffic_light",
             SCN + [("traffic_light", "traffic_light", "List:Elem")], scn_ret, fin="self", monadic=True, list_branch=True,
             methods={"self.remove_traffic_light": ("Scenario_remove_traffic_light_one", "mutM")}, doc="argument is a list"),
        Spec("Scenario_remove_intersection_one", S, "Scenario", "remove_intersection", SCN + [("intersection", "intersection", "Inter")],
             scn_ret, fin="self", monadic=True, list_branch=False, methods={**finds, **netm}, doc="argument is one Intersection"),
        Spec("Scenario_remove_intersection_list", S, "Scenario", "remove_intersection",
             SCN + [("intersection", "intersection", "List:Inter")], scn_ret, fin="self", monadic=True, list_branch=True,
             methods={"self.remove_intersection": ("Scenario_remove_intersection_one", "mutM")}, doc="argument is a list"),
        Spec("Scenario_hanging_members", S, "Scenario", "remove_hanging_lanelet_members",
             SCN + [("remove_lanelet", "remove_lanelet", "List:RmArg")], "(List CR.Refs.Id) × (List CR.Refs.Id)",
             fin="(remove_traffic_signs, remove_traffic_lights)", upto_loop="self.lanelet_network.traffic_lights",
             locals_={"remove_traffic_signs": "IdList", "remove_traffic_lights": "IdList"},
             methods={"find_traffic_sign_by_id": ("CR.PyR.idOfFound", "fun", "Id"),
                      "find_traffic_light_by_id": ("CR.PyR.idOfFound", "fun", "Id")},
             doc="everything before the two removal calls: the signs / lights handed to remove_traffic_sign / remove_traffic_light, "
                 "as ids (`find_*_by_id(t.id)` of an element `t` of the network is an element with that id)"),
        Spec("Scenario_remove_hanging_lanelet_members", S, "Scenario", "remove_hanging_lanelet_members",
             SCN + [("remove_lanelet", "remove_lanelet", "List:RmArg")], scn_ret, fin="self", monadic=True,
             locals_={"remove_traffic_signs": "List:Elem", "remove_traffic_lights": "List:Elem"},
             methods={"find_traffic_sign_by_id": ("CR.PyR.foundSign", "fun", "Elem"),
                      "find_traffic_light_by_id": ("CR.PyR.foundLight", "fun", "Elem"),
                      "self.remove_traffic_sign": ("Scenario_remove_traffic_sign_list", "mutM"),
                      "self.remove_traffic_light": ("Scenario_remove_traffic_light_list", "mutM")},
             doc="the WHOLE function, including the two final removal calls (list forms of remove_traffic_sign / "
                 "remove_traffic_light); `find_*_by_id(t.id)` of an element `t` of the network is the call-table entry PyR.found*"),
        Spec("Scenario_remove_lanelet_list", S, "Scenario", "remove_lanelet",
             SCN + [("lanelet", "lanelet", "List:RmArg"), ("referenced_elements", "referenced_elements", "Bool")],
             scn_ret, fin="self", monadic=True, list_branch=True,
             methods={**finds, **netm, "self.remove_hanging_lanelet_members": ("Scenario_remove_hanging_lanelet_members", "mutM")},
             doc="argument is a list of lanelets (a single lanelet is wrapped into a list); remove_hanging_lanelet_members is "
                 "the translated function above"),
    ]
    return out


def translate_spec(repo, sp: Spec) -> str:
    src = open(os.path.join(repo, sp.file), encoding="utf-8").read()
    tree = ast.parse(src)
    fn = find_func(tree, sp.cls, sp.func)
    return T10(sp).function(fn)


HEADER = """/-
  Gen.SrcC10 — GENERATED on every run by harness/translate/src_c10.py from the current source of the repository. Do not edit.
-/
import CRModel.PyExtC10
set_option linter.unusedVariables false
namespace Gen
open CR

"""

PREFIX = "C10_"


def regenerate(repo, gen_dir):
    os.makedirs(gen_dir, exist_ok=True)
    os.makedirs(LASTGOOD, exist_ok=True)
    status, chunks = {}, []
    for sp in specs():
        lg = os.path.join(LASTGOOD, PREFIX + sp.name + ".lean")
        try:
            txt = translate_spec(repo, sp)
            status[sp.name] = "ok"
        except (Unsupported, SyntaxError, KeyError, IndexError, AttributeError, OSError, TypeError, ValueError) as e:
            if os.path.exists(lg):
                txt = open(lg).read()
                status[sp.name] = f"lost ({type(e).__name__}: {e}); last good translation used"
            else:
                txt = f"-- {sp.name}: not translatable ({e})\n"
                status[sp.name] = f"lost ({type(e).__name__}: {e}); no fallback"
        chunks.append(txt)
    new = HEADER + "\n".join(chunks) + "\nend Gen\n"
    path = os.path.join(gen_dir, "SrcC10.lean")
    old = open(path).read() if os.path.exists(path) else None
    if old != new:
        with open(path, "w") as f:
            f.write(new)
    return status


def update_lastgood(repo):
    os.makedirs(LASTGOOD, exist_ok=True)
    for sp in specs():
        open(os.path.join(LASTGOOD, PREFIX + sp.name + ".lean"), "w").write(translate_spec(repo, sp))


if __name__ == "__main__":
    import sys
    repo = os.environ.get("VERIF_REPO", "/repo")
    if len(sys.argv) > 1 and sys.argv[1] == "--update-lastgood":
        update_lastgood(repo)
    st = regenerate(repo, os.path.join(os.path.dirname(os.path.dirname(HERE)), "lean", "Gen"))
    for k, v in st.items():
        print(k, v)
