"""py -> Lean translator for property C20 (lanelet arc length, interpolation, merge, successor / predecessor routes).

`regenerate(repo, gen_dir)` parses the CURRENT source of commonroad/scenario/lanelet.py with `ast` and writes
`<gen_dir>/SrcC20.lean` (module `Gen.SrcC20`, namespace `Gen`).  lean/CRProps/T20.lean proves every generated definition equal
to the hand model (CRModel/ArcLen.lean, CRModel/Route.lean).  A function the translator cannot handle any more is `lost`: the
last good translation (harness/translate/lastgood/C20_*.lean) is emitted, the correspondence tie decides.

Two statement translators on top of the expression translator of pysrc.py:
  * `Stm(monadic=False)` — state passing, pure: `for` loops become `List.foldl` over the tuple of variables the body assigns,
    `while` becomes `CR.PyC20.whileLoop` (fuel) over that tuple, `continue` ends the loop body with the current tuple,
    `x.append(v)` is `x ++ [v]`, an `if` without jump joins the assigned variables.
  * `Stm(monadic=True)` — the same inside `do` for `Res`, with `assert`, list indexing and float division as partial operations
    and `while` as `CR.PyC20.whileM`.
and one structural extraction (`vertex_writers`): which methods of `Lanelet` assign the vertex arrays and which of them reset
the cached cumulative distances afterwards.
"""
from __future__ import annotations

import ast
import os

from .pysrc import Target, Tr, Unsupported, find_func

HERE = os.path.dirname(os.path.abspath(__file__))
LASTGOOD = os.path.join(HERE, "lastgood")
FILE = "commonroad/scenario/lanelet.py"

BOOL_CALLS = {"np.greater_equal", "np.less_equal", "np.greater", "np.less", "is_real_number", "isinstance", "bool"}


class E(Tr):
    """expressions: pysrc.Tr plus lists, comprehensions, membership, slices, point arithmetic and the C20 call table"""

    def __init__(self, t, monadic):
        super().__init__(t)
        self.monadic = monadic
        self.opts = getattr(t, "opts", {})

    # -- helpers
    def is_pt(self, n):
        pl = self.opts.get("pt_lists", set())
        if isinstance(n, ast.Subscript) and not isinstance(n.slice, ast.Slice):
            v = n.value
            if isinstance(v, ast.Attribute) and (self.base_name(v.value), v.attr) in pl:
                return True
            if isinstance(v, ast.Attribute) and isinstance(v.value, ast.Name) and v.attr in self.opts.get("pt_fields", set()):
                return True
        if isinstance(n, ast.BinOp) and isinstance(n.op, ast.Mult):
            return self.is_pt(n.left) != self.is_pt(n.right)
        if isinstance(n, ast.BinOp) and isinstance(n.op, (ast.Add, ast.Sub)):
            return self.is_pt(n.left) and self.is_pt(n.right)
        return False

    def is_listy(self, n):
        return isinstance(n, (ast.List, ast.ListComp)) or (isinstance(n, ast.BinOp) and isinstance(n.op, ast.Add)
                                                           and (self.is_listy(n.left) or self.is_listy(n.right)))

    def truth(self, n):
        """Python truth value of an expression used as a condition"""
        if isinstance(n, (ast.Compare, ast.BoolOp)) or (isinstance(n, ast.UnaryOp) and isinstance(n.op, ast.Not)):
            return self.e(n)
        if isinstance(n, ast.Constant) and isinstance(n.value, bool):
            return self.e(n)
        if isinstance(n, ast.Call):
            d = self.dotted(n.func)
            if d in BOOL_CALLS or d.endswith(".all") or d.endswith(".any"):
                return self.e(n)
        return f"(CR.PyC20.truthy {self.e(n)})"

    def find_by_id(self, n):
        """`<net>.find_lanelet_by_id(x)` -> x"""
        if isinstance(n, ast.Call) and isinstance(n.func, ast.Attribute) and n.func.attr == "find_lanelet_by_id" \
                and self.dotted(n.func.value) in self.opts.get("nets", set()) and len(n.args) == 1 and not n.keywords:
            return n.args[0]
        return None

    # -- expressions
    def e(self, n) -> str:
        o = self.opts
        if isinstance(n, ast.List):
            return "[" + ", ".join(self.e(x) for x in n.elts) + "]"
        if isinstance(n, ast.ListComp):
            if len(n.generators) != 1 or n.generators[0].is_async:
                raise Unsupported("nested comprehension")
            g = n.generators[0]
            pat = self.pattern(g.target)
            if g.ifs:
                cond = " && ".join(self.truth(c) for c in g.ifs)
                return f"(({self.e(g.iter)}).filterMap (fun {pat} => if {cond} then some {self.e(n.elt)} else none))"
            return f"(({self.e(g.iter)}).map (fun {pat} => {self.e(n.elt)}))"
        if isinstance(n, ast.UnaryOp) and isinstance(n.op, ast.Not):
            return f"(!{self.truth(n.operand)})"
        if isinstance(n, ast.BoolOp):
            op = " && " if isinstance(n.op, ast.And) else " || "
            return "(" + op.join(self.truth(v) for v in n.values) + ")"
        if isinstance(n, ast.BinOp):
            if isinstance(n.op, ast.Add) and self.is_listy(n):
                return f"({self.e(n.left)} ++ {self.e(n.right)})"
            if isinstance(n.op, ast.Mult) and self.is_pt(n):
                s, p = (n.left, n.right) if self.is_pt(n.right) else (n.right, n.left)
                return f"(CR.PyC20.smul {self.e(s)} {self.e(p)})"
            if isinstance(n.op, ast.Add) and self.is_pt(n):
                return f"(CR.PyC20.vadd {self.e(n.left)} {self.e(n.right)})"
        if isinstance(n, ast.Attribute):
            # net.find_lanelet_by_id(x).successor / .predecessor
            x = self.find_by_id(n.value)
            if x is not None and n.attr in o.get("net_links", {}):
                f = o["net_links"][n.attr]
                if isinstance(x, ast.Subscript) and not isinstance(x.slice, ast.Slice):
                    return f"(CR.PyC20.nbrOpt {f} (CR.pyGet? {self.e(x.value)} {self.e(x.slice)}))"
                return f"({f} {self.e(x)})"
            if isinstance(n.value, ast.Name) and n.value.id not in ("self", "cls") and n.attr in o.get("fields", {}) \
                    and (n.value.id, n.attr) not in self.t.attrs:
                return f"{self.local(n.value.id)}.{o['fields'][n.attr]}"
        if isinstance(n, ast.Subscript):
            # net.find_lanelet_by_id(x).distance[-1]
            if isinstance(n.value, ast.Attribute) and n.value.attr == "distance" and self.find_by_id(n.value.value) is not None \
                    and "net_len" in o:
                if not (isinstance(n.slice, ast.UnaryOp) and isinstance(n.slice.op, ast.USub)
                        and isinstance(n.slice.operand, ast.Constant) and n.slice.operand.value == 1):
                    raise Unsupported("distance subscript other than [-1]")
                return f"({o['net_len']} {self.e(self.find_by_id(n.value.value))})"
            if isinstance(n.slice, ast.Slice):
                s = n.slice
                if s.upper is None and s.step is None and s.lower is not None:
                    return f"(CR.PyC20.sliceFrom {self.e(n.value)} {self.e(s.lower)})"
                raise Unsupported("slice shape")
            if isinstance(n.slice, ast.Tuple):
                raise Unsupported("tuple subscript")
            if not self.monadic:
                return f"(CR.PyC20.item {self.e(n.value)} {self.e(n.slice)})"
        return super().e(n)

    def pattern(self, tg):
        if isinstance(tg, ast.Name):
            return self.local(tg.id)
        if isinstance(tg, ast.Tuple) and all(isinstance(x, ast.Name) for x in tg.elts):
            return "(" + ", ".join(self.local(x.id) for x in tg.elts) + ")"
        raise Unsupported("loop target")

    def cmp(self, op, left, right):
        if isinstance(op, (ast.In, ast.NotIn)):
            txt = f"decide ({self.e(left)} ∈ {self.e(right)})"
            return txt if isinstance(op, ast.In) else f"(!{txt})"
        return super().cmp(op, left, right)

    def call(self, n):
        f = n.func
        d = self.dotted(f)
        o = self.opts
        if isinstance(f, ast.Attribute) and f.attr == "all" and not n.args and isinstance(f.value, ast.Call) \
                and self.dotted(f.value.func) == "np.isclose" and len(f.value.args) == 2 and not f.value.keywords:
            a, b = f.value.args
            return f"(CR.Arc.ptClose {self.e(a)} {self.e(b)})"      # np.isclose(p, q).all(), model: ArcLen.lean isClose
        kw = {k.arg: k.value for k in n.keywords}
        if d in o.get("kwcalls", {}):
            fn, monadic, order = o["kwcalls"][d]
            if len(n.args) > len(order) or any(k not in order[len(n.args):] for k in kw):
                raise Unsupported(f"arguments of {d}")
            vals = list(n.args) + [kw.get(k) for k in order[len(n.args):]]
            if any(v is None for v in vals):
                raise Unsupported(f"missing argument of {d}")
            return self.mcall((fn, monadic), [self.e(v) for v in vals])
        if d == "np.diff" and len(n.args) == 1 and set(kw) == {"axis"} and self.const(kw["axis"]) == 0:
            return f"(CR.PyC20.diff {self.e(n.args[0])})"
        if d == "np.sqrt" and len(n.args) == 1 and not kw and "norm" in o:
            # np.sqrt(np.square(x).sum(axis=1)): row norms
            s = n.args[0]
            if isinstance(s, ast.Call) and isinstance(s.func, ast.Attribute) and s.func.attr == "sum" and not s.args \
                    and {k.arg: self.const(k.value) for k in s.keywords} == {"axis": 1} and isinstance(s.func.value, ast.Call) \
                    and self.dotted(s.func.value.func) == "np.square" and len(s.func.value.args) == 1:
                return f"(CR.PyC20.rowNorms {o['norm']} {self.e(s.func.value.args[0])})"
            raise Unsupported("np.sqrt of something else than a row sum of squares")
        if d == "np.empty" and len(n.args) == 1 and not kw and isinstance(n.args[0], ast.Tuple) and len(n.args[0].elts) == 2:
            a, b = n.args[0].elts
            return f"(CR.PyC20.empty {self.e(a)} {self.e(b)})"
        if d == "np.append" and len(n.args) == 2 and not kw:
            return f"(CR.PyC20.append {self.e(n.args[0])} {self.e(n.args[1])})"
        if d == "np.cumsum" and len(n.args) == 1 and not kw:
            return f"(CR.PyC20.cumsum {self.e(n.args[0])})"
        if d in o.get("amin", set()) and len(n.args) == 1 and {k: self.const(v) for k, v in kw.items()} == {"axis": 1}:
            return f"(CR.PyC20.aminRows {self.e(n.args[0])})"
        if d == "np.searchsorted" and len(n.args) == 2 and not kw:
            return f"(CR.PyC20.searchsorted {self.e(n.args[0])} {self.e(n.args[1])})"
        if d in ("np.greater_equal", "np.less_equal", "np.greater", "np.less") and len(n.args) == 2 and not kw:
            sym = {"np.greater_equal": "≥", "np.less_equal": "≤", "np.greater": ">", "np.less": "<"}[d]
            return f"decide ({self.e(n.args[0])} {sym} {self.e(n.args[1])})"
        if d == "np.concatenate" and len(n.args) == 1 and not kw and isinstance(n.args[0], ast.Tuple) and len(n.args[0].elts) == 2:
            a, b = n.args[0].elts
            return f"({self.e(a)} ++ {self.e(b)})"
        if d == "int" and len(n.args) == 1 and isinstance(n.args[0], ast.BinOp) and isinstance(n.args[0].op, ast.Add):
            a, b = n.args[0].left, n.args[0].right
            if all(isinstance(x, ast.Call) and self.dotted(x.func) == "str" and len(x.args) == 1 for x in (a, b)):
                return f"(CR.Arc.concatId {self.e(a.args[0])} {self.e(b.args[0])})"    # int(str(a) + str(b))
            raise Unsupported("int(...) of something else than str + str")
        if d == "zip" and len(n.args) == 2:
            return f"(List.zip {self.e(n.args[0])} {self.e(n.args[1])})"
        if d == "enumerate" and len(n.args) == 1 and not kw:
            return f"(CR.PyC20.enumerate {self.e(n.args[0])})"
        if d in ("list", "set", "dict") and not n.args:
            return "[]"
        if n.keywords:
            if d in self.t.calls and len(self.t.calls[d]) > 2 and isinstance(self.t.calls[d][2], list):
                order = self.t.calls[d][2]
                vals = list(n.args) + [kw.get(k) for k in order[len(n.args):]]
                if any(v is None for v in vals) or any(k not in order for k in kw):
                    raise Unsupported(f"arguments of {d}")
                return self.mcall(self.t.calls[d][:2], [self.e(v) for v in vals])
            raise Unsupported(f"keyword arguments in call {d}")
        return super().call(n)

    def const(self, n):
        if isinstance(n, ast.Constant):
            return n.value
        raise Unsupported("non-constant keyword")


class Stm:
    """statements, state passing"""

    def __init__(self, t, monadic, ctx=None):
        self.t, self.monadic = t, monadic
        self.x = E(t, monadic)
        self.opts = getattr(t, "opts", {})
        self.ctx = ctx if ctx is not None else {"aux": [], "n": 0, "args": set()}

    def child(self, monadic):
        return Stm(self.t, monadic, self.ctx)

    def binders(self):
        return " ".join(f"({p})" for _, p in self.t.params)

    def param_names(self):
        return " ".join(p.split(":")[0].strip() for _, p in self.t.params)

    def captured(self, nodes, scope, exclude):
        """local variables (not function arguments) of the enclosing function that a lifted loop body reads"""
        used = []
        for nd in nodes:
            for y in ast.walk(nd):
                if isinstance(y, ast.Name) and y.id in scope and y.id not in self.ctx["args"] and y.id not in exclude \
                        and y.id not in used:
                    used.append(y.id)
                if isinstance(y, ast.Attribute) and (self.x.base_name(y.value), y.attr) in self.opts.get("attr_vars", {}):
                    v = self.opts["attr_vars"][(y.value.id, y.attr)][0]
                    if v in scope and v not in exclude and v not in used and v not in self.ctx["args"]:
                        used.append(v)
        used.sort(key=lambda v: self.ctx.get("order", {}).get(v, (10 ** 9, 0)))     # in order of first binding in the source
        return [self.x.local(v) for v in used]

    def lift(self, kind, caps, text):
        """emit an auxiliary definition (lambda lifting of a loop body / condition); returns the applied name"""
        name = f"{self.t.name}.{kind}"
        capb = " ".join(f"({c} : _)" for c in caps)
        self.ctx["aux"].append(f"@[simp] def {name} {self.binders()} {capb} :=\n{text}\n")
        return f"({name} {self.param_names()} {' '.join(caps)})".replace("  ", " ").replace(" )", ")")

    # which names does a statement list assign (in order of first assignment)
    def assigned(self, stmts):
        out = []

        def add(x):
            if x not in out:
                out.append(x)

        def tgt(tg):
            if isinstance(tg, ast.Name):
                add(tg.id)
            elif isinstance(tg, ast.Tuple):
                for y in tg.elts:
                    tgt(y)
            elif isinstance(tg, ast.Subscript) and isinstance(tg.value, ast.Name):
                add(tg.value.id)
            elif isinstance(tg, ast.Attribute) and (self.x.base_name(tg.value), tg.attr) in self.opts.get("attr_vars", {}):
                add(self.opts["attr_vars"][(tg.value.id, tg.attr)][0])

        def walk(ss):
            for s in ss:
                if isinstance(s, ast.Assign):
                    for tg in s.targets:
                        tgt(tg)
                elif isinstance(s, ast.AugAssign):
                    tgt(s.target)
                elif isinstance(s, ast.Expr) and isinstance(s.value, ast.Call) and isinstance(s.value.func, ast.Attribute) \
                        and s.value.func.attr in ("append", "add", "extend") and isinstance(s.value.func.value, ast.Name):
                    add(s.value.func.value.id)
                elif isinstance(s, ast.If):
                    walk(s.body)
                    walk(s.orelse)
                elif isinstance(s, (ast.For, ast.While)):
                    walk(s.body)
        walk(stmts)
        return out

    def jumps(self, stmts):
        if not stmts:
            return False
        s = stmts[-1]
        if isinstance(s, (ast.Return, ast.Continue)):
            return True
        if isinstance(s, ast.If):
            return self.jumps(s.body) and bool(s.orelse) and self.jumps(s.orelse)
        return False

    def has_jump(self, stmts):
        for s in stmts:
            for n in ast.walk(s):
                if isinstance(n, (ast.Return, ast.Continue, ast.Break)):
                    return True
        return False

    def tup(self, vars_):
        vs = [self.x.local(v) for v in vars_]
        if not vs:
            return "()"
        return vs[0] if len(vs) == 1 else "(" + ", ".join(vs) + ")"

    def ret(self, txt, pad):
        return f"{pad}return {txt}" if self.monadic else f"{pad}{txt}"

    def ignored(self, s):
        ig = self.opts.get("ignore", set())
        if isinstance(s, ast.Assign) and len(s.targets) == 1:
            tg = s.targets[0]
            if isinstance(tg, ast.Name) and tg.id in ig:
                return True
            if isinstance(tg, ast.Attribute) and tg.attr in ig:
                return True
        if isinstance(s, ast.Expr) and isinstance(s.value, ast.Constant) and isinstance(s.value.value, str):
            return True
        if isinstance(s, ast.Expr) and isinstance(s.value, ast.Call) and self.x.dotted(s.value.func) == "warnings.warn":
            return True
        return False

    def seq(self, stmts, scope, tail, ind, fn_tail=False):
        """stmts -> Lean text.  scope: names defined so far; tail: () -> text that ends the block when the statements fall through
        (None: falling through is an error); fn_tail: `return` is allowed here (not inside a loop body)."""
        pad = "  " * ind
        x = self.x
        if not stmts:
            if tail is None:
                raise Unsupported("path without return")
            return self.ret(tail(), pad)
        s, rest = stmts[0], list(stmts[1:])
        scope = set(scope)
        if self.ignored(s):
            return self.seq(rest, scope, tail, ind, fn_tail)
        if isinstance(s, ast.Return):
            if not fn_tail or s.value is None:
                raise Unsupported("return inside a loop")
            return self.ret(self.retval(s.value), pad)
        if isinstance(s, ast.Continue):
            if fn_tail or tail is None:
                raise Unsupported("continue outside a loop")
            return self.ret(tail(), pad)
        if isinstance(s, ast.Assert):
            if not self.monadic:
                raise Unsupported("assert in a pure target")
            return f"{pad}CR.Py.assert ({x.truth(s.test)})\n" + self.seq(rest, scope, tail, ind, fn_tail)
        if isinstance(s, ast.Assign) and len(s.targets) == 1:
            tg = s.targets[0]
            if isinstance(tg, ast.Name):
                ty = " : Int" if self.int_valued(s.value) else ""
                line = f"{pad}let {x.local(tg.id)}{ty} := {x.e(s.value)}\n"
                return line + self.seq(rest, scope | {tg.id}, tail, ind, fn_tail)
            if isinstance(tg, ast.Tuple) and all(isinstance(y, ast.Name) for y in tg.elts):
                line = f"{pad}let {x.pattern(tg)} := {x.e(s.value)}\n"
                return line + self.seq(rest, scope | {y.id for y in tg.elts}, tail, ind, fn_tail)
            if isinstance(tg, ast.Attribute) and (x.base_name(tg.value), tg.attr) in self.opts.get("attr_vars", {}):
                var, optionize = self.opts["attr_vars"][(tg.value.id, tg.attr)]
                v = x.e(s.value)
                if optionize:
                    v = "none" if (isinstance(s.value, ast.Constant) and s.value.value is None) else f"(some {v})"
                return f"{pad}let {var} := {v}\n" + self.seq(rest, scope | {var}, tail, ind, fn_tail)
            if isinstance(tg, ast.Subscript) and isinstance(tg.value, ast.Name) and isinstance(tg.slice, ast.Tuple) \
                    and len(tg.slice.elts) == 2 and isinstance(tg.slice.elts[0], ast.Slice) \
                    and tg.slice.elts[0].lower is None and tg.slice.elts[0].upper is None and tg.slice.elts[0].step is None:
                a = x.local(tg.value.id)      # a[:, i] = col
                line = f"{pad}let {a} := CR.PyC20.setCol {a} {x.e(tg.slice.elts[1])} {x.e(s.value)}\n"
                return line + self.seq(rest, scope, tail, ind, fn_tail)
            raise Unsupported("assignment target")
        if isinstance(s, ast.AugAssign) and isinstance(s.target, ast.Name):
            op = {ast.Add: "+", ast.Sub: "-", ast.Mult: "*"}.get(type(s.op))
            if op is None:
                raise Unsupported("augmented op")
            v = x.local(s.target.id)
            return f"{pad}let {v} := {v} {op} {x.e(s.value)}\n" + self.seq(rest, scope, tail, ind, fn_tail)
        if isinstance(s, ast.Expr) and isinstance(s.value, ast.Call) and isinstance(s.value.func, ast.Attribute) \
                and s.value.func.attr == "append" and isinstance(s.value.func.value, ast.Name) and len(s.value.args) == 1:
            v = x.local(s.value.func.value.id)
            return f"{pad}let {v} := {v} ++ [{x.e(s.value.args[0])}]\n" + self.seq(rest, scope, tail, ind, fn_tail)
        if isinstance(s, ast.If):
            test = x.truth(s.test)
            body, orelse = list(s.body), list(s.orelse)
            if test == "true":
                return self.seq(body + ([] if self.jumps(body) else rest), scope, tail, ind, fn_tail)
            if test == "false":
                return self.seq(orelse + ([] if self.jumps(orelse) else rest), scope, tail, ind, fn_tail)
            if self.has_jump(body) or self.has_jump(orelse):
                then = self.seq(body + ([] if self.jumps(body) else rest), scope, tail, ind + 1, fn_tail)
                els = self.seq(orelse + ([] if self.jumps(orelse) else rest), scope, tail, ind + 1, fn_tail)
                return f"{pad}if {test} then\n{then}\n{pad}else\n{els}"
            ab, ao = self.assigned(body), self.assigned(orelse)
            vars_ = [v for v in ab + [w for w in ao if w not in ab] if v in scope or (v in ab and v in ao)]
            pure = self.child(False)
            pure.x.monadic = self.monadic
            then = pure.seq(body, scope, lambda: self.tup(vars_), ind + 2)
            els = pure.seq(orelse, scope, lambda: self.tup(vars_), ind + 2)
            if pure.x.uses_bind:
                if not self.monadic:
                    raise Unsupported("partial operation in a pure branch")
                x.uses_bind = True      # a branch that can raise: no join, the rest is repeated in both branches
                then = self.seq(body + rest, scope, tail, ind + 1, fn_tail)
                els = self.seq(orelse + rest, scope, tail, ind + 1, fn_tail)
                return f"{pad}if {test} then\n{then}\n{pad}else\n{els}"
            line = f"{pad}let {self.tup(vars_)} := (\n{pad}  if {test} then\n{then}\n{pad}  else\n{els})\n"
            return line + self.seq(rest, scope | set(vars_), tail, ind, fn_tail)
        if isinstance(s, ast.For) and not s.orelse:
            vars_ = [v for v in self.assigned(s.body) if v in scope]
            if not vars_:
                raise Unsupported("loop without effect")
            tnames = {y.id for y in ast.walk(s.target) if isinstance(y, ast.Name)}
            self.ctx["n"] += 1
            k = self.ctx["n"]
            pure = self.child(False)
            body = pure.seq(list(s.body), scope | tnames, lambda: self.tup(vars_), 2)
            if pure.x.uses_bind:
                raise Unsupported("partial operation inside a for loop")
            st = self.tup(vars_)
            caps = self.captured(list(s.body), scope, set(vars_) | tnames)
            f = self.lift(f"for{k}", caps, f"  fun {st} {x.pattern(s.target)} =>\n{body}")
            line = f"{pad}let {st} := ({x.e(s.iter)}).foldl {f} {st}\n"
            return line + self.seq(rest, scope, tail, ind, fn_tail)
        if isinstance(s, ast.While) and not s.orelse:
            vars_ = [v for v in self.assigned(s.body) if v in scope]
            st = self.tup(vars_)
            self.ctx["n"] += 1
            k = self.ctx["n"]
            caps = self.captured(list(s.body) + [s.test], scope, set(vars_))
            if not self.monadic:
                pure = self.child(False)
                body = pure.seq(list(s.body), scope, lambda: st, 2)
                cond = pure.x.truth(s.test)
                if pure.x.uses_bind:
                    raise Unsupported("partial operation inside a pure while loop")
                w = self.lift(f"while{k}", caps, f"  CR.PyC20.mkLoop (fun {st} => {cond}) (fun {st} =>\n{body})")
                restt = self.seq(rest, scope, tail, ind + 1, fn_tail)
                return f"{pad}Option.bind (CR.PyC20.whileLoop {w}.1 {w}.2 fuel {st}) (fun {st} =>\n{restt})"
            m = self.child(True)
            body = m.seq(list(s.body), scope, lambda: st, 2)
            cond = m.x.truth(s.test)
            w = self.lift(f"while{k}", caps, f"  CR.PyC20.mkLoopM (fun {st} => do return {cond}) (fun {st} => do\n{body})")
            x.uses_bind = True
            line = f"{pad}let {st} ← CR.PyC20.whileM {w}.1 {w}.2 fuel {st}\n"
            return line + self.seq(rest, scope, tail, ind, fn_tail)
        raise Unsupported(f"statement {type(s).__name__}")

    def int_valued(self, n):
        if isinstance(n, ast.Constant):
            return type(n.value) is int
        if isinstance(n, ast.IfExp):
            return self.int_valued(n.body) and self.int_valued(n.orelse)
        return False

    def retval(self, v):
        x = self.x
        if isinstance(v, ast.Attribute) and (x.base_name(v.value), v.attr) in self.opts.get("attr_vars", {}):
            txt = self.opts["attr_vars"][(v.value.id, v.attr)][0]
        else:
            txt = x.e(v)
        if "while_option" in self.opts and not self.monadic:
            return f"some {txt}"
        return txt


class FT(Target):
    """a function target of this module: pysrc.Target plus `opts` (see E / Stm) and the statement style"""

    def __init__(self, name, func, params, ret, opts=None, monadic=False, scope=(), **kw):
        super().__init__(name, FILE, func, "Lanelet", params, ret, monadic=monadic, **kw)
        self.opts = opts or {}
        self.scope = set(scope)

    def render(self, repo):
        tree = ast.parse(open(os.path.join(repo, self.file), encoding="utf-8").read())
        fn = find_func(tree, self.cls, self.func, self.setter)
        # default values the translation relies on (e.g. `comparator=np.amin`)
        args = fn.args.args
        defaults = dict(zip([a.arg for a in args[len(args) - len(fn.args.defaults):]], fn.args.defaults))
        for k, want in self.opts.get("defaults", {}).items():
            if k not in defaults or E(self, False).dotted(defaults[k]) != want:
                raise Unsupported(f"default of {k} is not {want}")
        st = Stm(self, self.monadic)
        scope = {a.arg for a in fn.args.args} | self.scope
        st.ctx["args"] = set(scope)
        order = {}
        for y in ast.walk(fn):
            if isinstance(y, ast.Name) and isinstance(y.ctx, ast.Store):
                order.setdefault(y.id, (y.lineno, y.col_offset))
                order[y.id] = min(order[y.id], (y.lineno, y.col_offset))
        st.ctx["order"] = order
        body = st.seq(list(fn.body), scope, None, 1, fn_tail=True)
        aux = "".join(a + "\n" for a in st.ctx["aux"])
        binders = " ".join(f"({p})" for _, p in self.params)
        doc = f"/-- {self.file}: Lanelet.{self.func}{(' — ' + self.doc) if self.doc else ''} -/\n"
        if self.monadic:
            return aux + doc + f"def {self.name} {binders} : Res ({self.ret}) := do\n{body}\n"
        if st.x.uses_bind:
            raise Unsupported("partial operation in a pure target")
        return aux + doc + f"def {self.name} {binders} : {self.ret} :=\n{body}\n"


class WritersTable:
    """structural extraction: every method of `Lanelet` that assigns `self._center_vertices` / `_left_vertices` /
    `_right_vertices` (a value other than None), with whether the SAME method afterwards resets the cache of the cumulative
    distance that depends on it (`self._distance = None` for the centre line, `self._inner_distance = None` for the boundaries)."""
    name = "Lanelet_vertex_writers"

    def render(self, repo):
        tree = ast.parse(open(os.path.join(repo, FILE), encoding="utf-8").read())
        cls = [n for n in tree.body if isinstance(n, ast.ClassDef) and n.name == "Lanelet"]
        if not cls:
            raise Unsupported("class Lanelet not found")
        dep = {"_center_vertices": "_distance", "_left_vertices": "_inner_distance", "_right_vertices": "_inner_distance"}
        rows = []
        for fn in cls[0].body:
            if not isinstance(fn, ast.FunctionDef):
                continue
            setter = any(isinstance(d, ast.Attribute) and d.attr == "setter" for d in fn.decorator_list)
            events = []         # (line, kind, attr) in source order

            for n in ast.walk(fn):
                if isinstance(n, (ast.Assign, ast.AugAssign, ast.AnnAssign)):
                    tgs = n.targets if isinstance(n, ast.Assign) else [n.target]
                    for tg in tgs:
                        for y in ast.walk(tg):
                            if isinstance(y, ast.Attribute) and isinstance(y.value, ast.Name) and y.value.id == "self":
                                is_none = isinstance(n, ast.Assign) and isinstance(n.value, ast.Constant) and n.value.value is None
                                events.append((n.lineno, "none" if is_none else "write", y.attr))
            events.sort()
            for attr, cache in dep.items():
                writes = [ln for ln, k, a in events if a == attr and k == "write"]
                if not writes:
                    continue
                resets = [ln for ln, k, a in events if a == cache and k == "none"]
                ok = bool(resets) and max(resets) > max(writes)
                label = fn.name + (".setter" if setter else "")
                rows.append((label, attr, ok))
        rows.sort()
        body = ",\n".join(f'  ("{a}", "{b}", {"true" if c else "false"})' for a, b, c in rows)
        return ("/-- commonroad/scenario/lanelet.py, class Lanelet: (method, vertex attribute it assigns, does it reset the dependent\n"
                "    distance cache afterwards) — extracted from the syntax tree -/\n"
                f"def {self.name} : List (String × String × Bool) := [\n{body}]\n")


def targets():
    P = "CR.Arc.Pt"
    fields = {"lanelet_id": "id", "successor": "succ", "predecessor": "pred", "left_vertices": "left",
              "center_vertices": "center", "right_vertices": "right"}
    route_params = [(None, "succ pred : Nat → List Nat"), (None, "len : Nat → Rat"), (None, "selfId : Nat"), (None, "fuel : Nat"),
                    ("max_length", "max_length : Rat")]
    route_attrs = {("self", "successor"): "(succ selfId)", ("self", "predecessor"): "(pred selfId)", ("self", "lanelet_id"): "selfId"}
    route_opts = {"nets": {"lanelet_network"}, "net_links": {"successor": "succ", "predecessor": "pred"}, "net_len": "len",
                  "while_option": True}
    ts = [
        FT("Lanelet_compute_polyline_cumsum_dist", "_compute_polyline_cumsum_dist",
           [(None, f"norm : {P} → Rat"), ("polylines", f"polylines : List (List {P})")], "List Rat",
           opts={"norm": "norm", "amin": {"comparator"}, "defaults": {"comparator": "np.amin"}},
           doc="`norm` stands for the Euclidean norm of a difference vector; `comparator` is its default np.amin"),
        FT("Lanelet_distance", "distance",
           [(None, f"norm : {P} → Rat"), (None, "self__distance : Option (List Rat)"), (None, f"center : List {P}")],
           "Option (List Rat)", attrs={("self", "center_vertices"): "center"}, opt_attrs={("self", "_distance"): "self__distance"},
           opts={"attr_vars": {("self", "_distance"): ("self__distance", True)}},
           calls={"self._compute_polyline_cumsum_dist": ("Lanelet_compute_polyline_cumsum_dist norm", False)},
           scope={"self__distance"},
           doc="getter; the cache `self._distance` is the state: the result is the cache after the call (= the returned array)"),
        FT("Lanelet_inner_distance", "inner_distance",
           [(None, f"norm : {P} → Rat"), (None, "self__inner_distance : Option (List Rat)"), (None, f"left right : List {P}")],
           "Option (List Rat)", attrs={("self", "left_vertices"): "left", ("self", "right_vertices"): "right"},
           opt_attrs={("self", "_inner_distance"): "self__inner_distance"},
           opts={"attr_vars": {("self", "_inner_distance"): ("self__inner_distance", True)}},
           calls={"self._compute_polyline_cumsum_dist": ("Lanelet_compute_polyline_cumsum_dist norm", False)},
           scope={"self__inner_distance"}, doc="getter; the cache `self._inner_distance` is the state"),
        FT("Lanelet_interpolate_position", "interpolate_position",
           [(None, f"cv rv lv : List {P}"), (None, "dist : List Rat"), (None, "fuel : Nat"), ("distance", "distance : Rat")],
           f"{P} × {P} × {P} × Int", monadic=True,
           attrs={("self", "distance"): "dist", ("self", "_center_vertices"): "cv", ("self", "_right_vertices"): "rv",
                  ("self", "_left_vertices"): "lv", ("self", "center_vertices"): "cv", ("self", "right_vertices"): "rv",
                  ("self", "left_vertices"): "lv"},
           calls={"is_real_number": ("const:true", False)},
           opts={"pt_lists": {("self", "_center_vertices"), ("self", "_right_vertices"), ("self", "_left_vertices"),
                              ("self", "center_vertices"), ("self", "right_vertices"), ("self", "left_vertices")}},
           doc="`dist` is `self.distance`; float division by zero (NaN / inf coordinates in numpy) is the error zero-div"),
        FT("Lanelet_merge_lanelets", "merge_lanelets",
           [("lanelet1", "lanelet1 : CR.Arc.Lanelet"), ("lanelet2", "lanelet2 : CR.Arc.Lanelet")], "CR.Arc.Lanelet", monadic=True,
           types={"lanelet1": "Lanelet", "lanelet2": "Lanelet"},
           opts={"fields": fields, "pt_fields": set(fields), "ignore": {"static_obstacles_on_lanelet", "dynamic_obstacles_on_lanelet"},
                 "kwcalls": {"Lanelet": ("CR.PyC20.newLanelet", True, ["left_vertices", "center_vertices", "right_vertices",
                                                                       "lanelet_id", "predecessor", "successor"])}},
           doc="geometry and links; the obstacle registries of the merged lanelet are not part of the property"),
        FT("Lanelet_find_lanelet_successors_in_range", "find_lanelet_successors_in_range", route_params,
           "Option (List (List Nat))", attrs=dict(route_attrs), opts=dict(route_opts),
           doc="`succ` / `pred` / `len` stand for `lanelet_network.find_lanelet_by_id(i).successor` / `.predecessor` / "
               "`.distance[-1]`; `none` = the fuel of the while loop ran out"),
        FT("Lanelet_find_lanelet_predecessors_in_range", "find_lanelet_predecessors_in_range", route_params,
           "Option (List (List Nat))", attrs=dict(route_attrs), opts=dict(route_opts), doc="see the successor version"),
        WritersTable(),
    ]
    return ts


HEADER = """/-
  Gen.SrcC20 — GENERATED on every run by harness/translate/src_c20.py from the current source of
  commonroad/scenario/lanelet.py. Do not edit.
-/
import CRModel.PyExtC20
import CRModel.ArcLen
import CRModel.Route
set_option linter.unusedVariables false
namespace Gen
open CR

"""

ERRORS = (Unsupported, SyntaxError, KeyError, IndexError, AttributeError, OSError, TypeError, ValueError)


def lastgood_path(t):
    return os.path.join(LASTGOOD, "C20_" + t.name + ".lean")


def regenerate(repo, gen_dir):
    os.makedirs(gen_dir, exist_ok=True)
    status, chunks = {}, []
    for t in targets():
        lg = lastgood_path(t)
        try:
            txt = t.render(repo)
            status["C20." + t.name] = "ok"
        except ERRORS as e:
            if os.path.exists(lg):
                txt = open(lg).read()
                status["C20." + t.name] = f"lost ({type(e).__name__}: {e}); last good translation used"
            else:
                txt = f"-- {t.name}: not translatable ({e})\n"
                status["C20." + t.name] = f"lost ({type(e).__name__}: {e}); no fallback"
        chunks.append(txt)
    new = HEADER + "\n".join(chunks) + "\nend Gen\n"
    path = os.path.join(gen_dir, "SrcC20.lean")
    old = open(path).read() if os.path.exists(path) else None
    if old != new:
        with open(path, "w") as f:
            f.write(new)
    return status


def update_lastgood(repo):
    os.makedirs(LASTGOOD, exist_ok=True)
    for t in targets():
        open(lastgood_path(t), "w").write(t.render(repo))


if __name__ == "__main__":
    import sys
    repo = os.environ.get("VERIF_REPO", "/repo")
    if len(sys.argv) > 1 and sys.argv[1] == "--update-lastgood":
        update_lastgood(repo)
    for k, v in regenerate(repo, os.path.join(os.path.dirname(os.path.dirname(HERE)), "lean", "Gen")).items():
        print(k, v)
