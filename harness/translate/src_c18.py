"""C18 translator tie — structural extraction of WRITE SETS from the current source of commonroad-io.

Property C18 says that read-only operations change nothing observable.  What decides that on the code is not arithmetic but WHICH
objects a function writes.  This module computes, from the `ast` of the CURRENT working tree, for every read-only operation
(every public method / property that `harness/c18_dims.py` classifies as `op:` or `snapshot`, the dunder methods `__eq__`,
`__hash__`, `__str__`, `__repr__`, `__getstate__`, `__deepcopy__`, `__copy__`, `__contains__`, `__len__` … of those classes, every method of
every class of the two writer modules, the module-level functions of the table) the set of WRITES that can reach an object the
caller handed in (the receiver or an argument), transitively through every call / property read / operator it can resolve by
name inside the library:

  * attribute stores / deletes / augmented assignments  `x.a = v`, `del x.a`, `x.a += v`,   `setattr` / `delattr`
  * subscript stores / deletes  `x[i] = v`, `del x[i]`,   augmented assignment to a name that may alias such an object
  * in-place mutating calls (`append extend insert remove pop clear update add discard sort reverse setdefault popitem fill …`,
    `np.put / copyto / place / putmask / fill_diagonal`, `random.shuffle`, `heapq.*`, `bisect.insort`), `out=` keywords
  * `functools.cached_property` (stores its value in the instance)

where `x` is evaluated by a flow-sensitive MAY-ALIAS analysis: a local name holds a set of references
(kind, root parameter, access path); kind `o` = IS the object at that path, `s` = a fresh SHALLOW copy of it (`copy.copy`,
`x.copy()`, `x.__dict__.copy()`: writing the copy is harmless, writing what it holds is not), `c` = a fresh container / object that
HOLDS it (`list(x)`, comprehensions, `dict.values()`, constructor calls).  `np.asarray`, `reshape`, slices, `.T`, `dict.get` … return
views / elements; `copy.deepcopy`, arithmetic, unknown external calls return fresh values.  Assignments are strong updates,
branches are joined, loops iterated to a fixed point.  Every function of the library gets a summary (writes on its parameters,
which parameters its result may alias); summaries are iterated to a global fixed point, so the closure through helper
functions, properties, `draw` double dispatch, `==` / `hash` / `str` / `deepcopy` protocol methods is complete up to name resolution
(`x.m()` on an object of unknown type resolves to EVERY class of the library that defines `m`; annotated parameters and `self`
narrow it to the class, its bases and its subclasses).

Each write is classified where the statement stands: (owner class, attribute of the owner under which the written object hangs,
set | mut | deep).  The distinct classifications and the per-operation lists are emitted as Lean terms (`lean/Gen/SrcC18.lean`);
`lean/CRProps/T18.lean` proves by `decide` over the COMPLETE table that every one of them is a declared derived-data cache of the
model (CRModel/PyExtC18.lean: occupancy cache, spatial index, cumulative cycle table, lanelet polygon / distances …) or private
state of the renderer / writer the operation was called on — a finite table checked completely is a proof for that table.
Also emitted: the writes every writer entry point must perform before it fills its document (a dropped reset makes the second
export differ from the first).

Soundness limits (left to the correspondence and the oracle of harness/c18.py): dynamic dispatch outside name resolution
(`getattr` with computed names, callbacks stored in attributes), aliasing through objects of classes outside the library
(matplotlib artists, shapely geometries, lxml nodes, protobuf messages: treated as fresh), module-level state, C extensions, access
paths longer than PATHCAP (saturated: reported under the prefix), exceptions cutting a function short (ignored: may-analysis).
"""
from __future__ import annotations

import ast
import json
import os
import sys

HERE = os.path.dirname(os.path.abspath(__file__))
LASTGOOD = os.path.join(HERE, "lastgood")
sys.path.insert(0, os.path.dirname(HERE))

PATHCAP = 4
EXCLUDE_DIRS = ("generated_scripts",)

MUTATORS = {"append", "extend", "insert", "remove", "pop", "clear", "update", "add", "discard", "sort", "reverse", "setdefault",
            "popitem", "fill", "resize", "put", "itemset", "partition", "setflags", "intersection_update", "difference_update",
            "symmetric_difference_update", "appendleft", "popleft", "extendleft", "rotate", "__setitem__", "__delitem__", "__setattr__",
            "__delattr__", "__iadd__", "__isub__", "__imul__", "__ior__", "__iand__", "move_to_end", "byteswap", "setfield"}
ELEMENT_METHODS = {"get", "pop", "setdefault", "popitem", "__getitem__", "item"}           # return an element
HOLDER_METHODS = {"items", "values", "keys", "__iter__"}                                       # fresh iterable of the elements
VIEW_METHODS = {"reshape", "ravel", "squeeze", "transpose", "view", "swapaxes", "__enter__", "__iadd__", "__ior__", "__isub__", "__imul__"}
SHALLOW_METHODS = {"copy", "__copy__"}
NP_VIEWS = {"asarray", "asanyarray", "atleast_1d", "atleast_2d", "atleast_3d", "squeeze", "ravel", "reshape", "transpose",
            "ascontiguousarray", "asfortranarray", "asarray_chkfinite", "swapaxes", "moveaxis", "broadcast_to", "real", "imag"}
INPLACE_FUNCS = {"np.put", "np.copyto", "np.place", "np.putmask", "np.fill_diagonal", "np.put_along_axis", "random.shuffle",
                 "np.random.shuffle", "heapq.heappush", "heapq.heappop", "heapq.heapify", "heapq.heapreplace", "heapq.heappushpop",
                 "bisect.insort", "bisect.insort_left", "bisect.insort_right", "object.__setattr__", "object.__delattr__", "shuffle",
                 "numpy.put", "numpy.copyto", "numpy.place", "numpy.putmask", "numpy.fill_diagonal"}
HOLDER_BUILTINS = {"list", "tuple", "set", "frozenset", "sorted", "reversed", "enumerate", "iter", "zip", "dict", "filter", "map",
                   "deque", "OrderedDict", "defaultdict", "chain", "itertools.chain", "collections.deque", "collections.OrderedDict"}
ELEMENT_BUILTINS = {"min", "max", "next", "getattr"}
DUNDER_OF_BUILTIN = {"hash": "__hash__", "str": "__str__", "repr": "__repr__", "len": "__len__", "bool": "__bool__",
                     "format": "__format__"}
CMP_DUNDER = {ast.Eq: "__eq__", ast.NotEq: "__ne__", ast.Lt: "__lt__", ast.LtE: "__le__", ast.Gt: "__gt__", ast.GtE: "__ge__",
              ast.In: "__contains__", ast.NotIn: "__contains__"}
BIN_DUNDER = {ast.Add: ("__add__", "__radd__"), ast.Sub: ("__sub__", "__rsub__"), ast.Mult: ("__mul__", "__rmul__"),
              ast.Div: ("__truediv__", "__rtruediv__"), ast.BitOr: ("__or__", "__ror__"), ast.BitAnd: ("__and__", "__rand__")}
AUG_DUNDER = {ast.Add: "__iadd__", ast.Sub: "__isub__", ast.Mult: "__imul__", ast.Div: "__itruediv__", ast.BitOr: "__ior__",
              ast.BitAnd: "__iand__"}
PROTOCOL_OPS = ("__eq__", "__ne__", "__hash__", "__str__", "__repr__", "__getstate__", "__setstate__", "__deepcopy__", "__copy__", "__contains__",
                "__len__", "__lt__", "__gt__", "__le__", "__ge__", "__iter__", "__getitem__", "__reduce__", "__reduce_ex__", "__bool__")
WRITER_MODULES = ("commonroad/common/writer/file_writer_xml.py", "commonroad/common/writer/file_writer_protobuf.py",
                  "commonroad/common/writer/file_writer_interface.py", "commonroad/common/file_writer.py")
# what an entry point of a writer has to (re)initialise itself before it fills its document
REQUIRED = {
    "ProtobufFileWriter.write_to_file": [("ProtobufFileWriter", "_commonroad_msg", "set")],
    "ProtobufFileWriter.write_scenario_to_file": [("ProtobufFileWriter", "_commonroad_msg", "set")],
    "XMLFileWriter.write_to_file": [("XMLFileWriter", "_root_node", "set")],
    "XMLFileWriter.write_scenario_to_file": [("XMLFileWriter", "_root_node", "set")],
}


# statements the may-analysis cannot tell apart although they are harmless, with the reason (path-sensitive facts)
EXEMPT = {
    ("Trajectory.resample_continuous_time_state_list", "[].*:append"):
        "`values[i].append(v)` runs only when `multiple`, and then `values` holds the fresh lists made three lines above, never a state's value",
}


class Lost(Exception):
    pass


# ------------------------------------------------------------------------------------------------------------------- library index
class Func:
    __slots__ = ("node", "cls", "module", "qual", "params", "selfname", "static", "classm", "prop", "setter", "cached", "ann", "ret_ann",
                 "writes", "ret", "key")

    def __init__(self, node, cls, module):
        self.node, self.cls, self.module = node, cls, module
        self.qual = (cls + "." if cls else module.rsplit("/", 1)[-1][:-3] + ":") + node.name
        decs = [_dotted(d) for d in node.decorator_list]
        self.static = "staticmethod" in decs
        self.classm = "classmethod" in decs
        self.cached = any(d.endswith("cached_property") for d in decs)
        self.prop = self.cached or "property" in decs or any(d.endswith(".getter") for d in decs)
        self.setter = any(d.endswith(".setter") for d in decs)
        a = node.args
        self.params = [x.arg for x in a.posonlyargs + a.args] + ([a.vararg.arg] if a.vararg else []) + [x.arg for x in a.kwonlyargs] + \
                      ([a.kwarg.arg] if a.kwarg else [])
        self.selfname = self.params[0] if (cls and not self.static and self.params) else None
        self.ann = {x.arg: x.annotation for x in a.posonlyargs + a.args + a.kwonlyargs if x.annotation is not None}
        self.ret_ann = node.returns
        self.writes = set()
        self.ret = set()
        self.key = (module, cls, node.name, node.lineno)


def _dotted(n):
    if isinstance(n, ast.Name):
        return n.id
    if isinstance(n, ast.Attribute):
        return _dotted(n.value) + "." + n.attr
    if isinstance(n, ast.Call):
        return _dotted(n.func)
    return "?"


class Lib:
    def __init__(self, repo):
        self.repo = repo
        self.classes = {}        # name -> dict(bases, methods{name: [Func]}, module)
        self.funcs = {}          # bare module-level function name -> [Func]
        self.all = []
        self._any = {}
        self._look = {}
        self._ft = {}
        self._alias_busy = set()
        self.aliases = {}
        root = os.path.join(repo, "commonroad")
        for d, dirs, files in os.walk(root):
            dirs[:] = sorted(x for x in dirs if x not in EXCLUDE_DIRS and not x.startswith("."))
            for f in sorted(files):
                if f.endswith(".py"):
                    path = os.path.join(d, f)
                    rel = os.path.relpath(path, repo)
                    try:
                        tree = ast.parse(open(path, encoding="utf-8").read())
                    except SyntaxError as e:
                        raise Lost(f"syntax error in {rel}: {e}")
                    self.index(tree, rel)
        self.sub = {c: set() for c in self.classes}
        for c, info in self.classes.items():
            for b in self.mro(c)[1:]:
                self.sub.setdefault(b, set()).add(c)
        self.by_method = {}
        for c, info in self.classes.items():
            for m in info["methods"]:
                self.by_method.setdefault(m, set()).add(c)

    def index(self, tree, rel):
        for n in tree.body:
            if isinstance(n, ast.ClassDef):
                self.index_class(n, rel)
            elif isinstance(n, (ast.FunctionDef, ast.AsyncFunctionDef)):
                f = Func(n, None, rel)
                self.funcs.setdefault(n.name, []).append(f)
                self.all.append(f)
            elif isinstance(n, ast.Assign) and len(n.targets) == 1 and isinstance(n.targets[0], ast.Name) and \
                    isinstance(n.value, (ast.Subscript, ast.BinOp)):
                self.aliases[n.targets[0].id] = n.value
            elif isinstance(n, (ast.If, ast.Try)):
                self.index(ast.Module(body=[x for x in ast.iter_child_nodes(n) if isinstance(x, ast.stmt)], type_ignores=[]), rel)

    def index_class(self, n, rel):
        info = self.classes.setdefault(n.name, {"bases": [], "methods": {}, "module": rel})
        info["bases"] = [_dotted(b).split(".")[-1] for b in n.bases]
        info["module"] = rel
        info["node"] = n
        for m in n.body:
            if isinstance(m, (ast.FunctionDef, ast.AsyncFunctionDef)):
                f = Func(m, n.name, rel)
                info["methods"].setdefault(m.name, []).append(f)
                self.all.append(f)
            elif isinstance(m, ast.ClassDef):
                self.index_class(m, rel)

    def mro(self, c):
        out, todo = [], [c]
        while todo:
            x = todo.pop(0)
            if x in out or x not in self.classes:
                continue
            out.append(x)
            todo.extend(self.classes[x]["bases"])
        return out

    def lookup(self, c, m, kind="call"):
        """the definitions of member `m` an object of static class `c` may run: first hit in the MRO + every subclass override"""
        if (c, m) in self._look:
            return self._look[(c, m)]
        out = self._look[(c, m)] = []
        for b in self.mro(c):
            fs = self.classes[b]["methods"].get(m)
            if fs:
                out.extend(fs)
                break
        for s in self.sub.get(c, ()):
            out.extend(self.classes[s]["methods"].get(m, ()))
        return out

    def anywhere(self, m):
        if m in self._any:
            return self._any[m]
        out = self._any[m] = []
        for c in sorted(self.by_method.get(m, ())):
            out.extend(self.classes[c]["methods"][m])
        return out

    def field_type(self, c, attr):
        """library classes an instance attribute may hold, from annotated assignments / dataclass fields; None = unknown"""
        if (c, attr) in self._ft:
            return self._ft[(c, attr)]
        self._ft[(c, attr)] = None
        found, out, unknown = False, set(), False
        for b in self.mro(c):
            node = self.classes[b].get("node")
            if node is None:
                continue
            for m in node.body:
                if isinstance(m, ast.AnnAssign) and isinstance(m.target, ast.Name) and m.target.id == attr:
                    a = self.ann_classes(m.annotation)
                    found = True
                    if a is None:
                        unknown = True
                    else:
                        out |= a
                if not isinstance(m, (ast.FunctionDef, ast.AsyncFunctionDef)) or not m.args.args:
                    continue
                me = m.args.args[0].arg
                anns = {x.arg: x.annotation for x in m.args.args + m.args.kwonlyargs}
                for x in ast.walk(m):
                    tg, val, ann = None, None, None
                    if isinstance(x, ast.Assign) and len(x.targets) == 1:
                        tg, val = x.targets[0], x.value
                    elif isinstance(x, ast.AnnAssign):
                        tg, val, ann = x.target, x.value, x.annotation
                    if not (isinstance(tg, ast.Attribute) and isinstance(tg.value, ast.Name) and tg.value.id == me and tg.attr == attr):
                        continue
                    found = True
                    if ann is not None:
                        a = self.ann_classes(ann)
                    elif isinstance(val, ast.Name) and anns.get(val.id) is not None:
                        a = self.ann_classes(anns[val.id])
                    elif isinstance(val, ast.Constant) or (isinstance(val, (ast.List, ast.Dict, ast.Set, ast.Tuple)) and not ast.dump(val).count("elts=[<")
                                                          and not getattr(val, "elts", None) and not getattr(val, "keys", None)):
                        continue
                    elif isinstance(val, ast.Call) and isinstance(val.func, ast.Name) and val.func.id in self.classes:
                        a = frozenset([val.func.id])
                    elif isinstance(val, ast.Call) and _dotted(val.func) in ("list", "dict", "set", "defaultdict", "collections.defaultdict") and not val.args:
                        continue
                    else:
                        a = None
                    if a is None:
                        unknown = True
                    else:
                        out |= a
        res = None if (unknown or not found) else frozenset(out)
        self._ft[(c, attr)] = res
        return res

    def ann_classes(self, ann):
        """library classes named in an annotation; frozenset() = annotated with something outside the library; None = no annotation"""
        if ann is None:
            return None
        names = set()
        for x in ast.walk(ann):
            if isinstance(x, ast.Name):
                names.add(x.id)
            elif isinstance(x, ast.Attribute):
                names.add(x.attr)
            elif isinstance(x, ast.Constant) and isinstance(x.value, str):
                for tok in x.value.replace("[", " ").replace("]", " ").replace(",", " ").replace(".", " ").split():
                    names.add(tok)
        if names & {"Any", "object", "TypeVar", "T"}:
            return None
        out = set(n for n in names if n in self.classes)
        for n in names:
            if n in self.aliases and n not in self._alias_busy:
                self._alias_busy.add(n)
                a = self.ann_classes(self.aliases[n])
                self._alias_busy.discard(n)
                if a is None:
                    return None
                out |= a
        return frozenset(out)


# ------------------------------------------------------------------------------------------------------------------- references
def ext(path, a):
    return path if len(path) >= PATHCAP else path + (a,)


def step(r, a):
    """one access step (attribute / element) from what r refers to.  Kinds: "o" IS the object at the path, "s" a fresh shallow copy of
    it, "c" + kind a fresh holder (container / new library object) of something of that kind."""
    k, root, path = r
    if k[0] == "c":
        return (k[1:], root, path)
    return ("o", root, ext(path, a))


def hold(r):
    k, root, path = r
    return (("c" + k) if len(k) < 4 else k, root, path)


def shallow(r):
    k, root, path = r
    return ("s" if k == "o" else k, root, path)


def compose(arg, callee_ref):
    """the callee speaks of (kind, its parameter, path); `arg` is what the caller bound to that parameter"""
    k, _, path = callee_ref
    cur = arg
    for a in path:
        cur = step(cur, a)
    if k[-1] == "s":
        cur = shallow(cur)
    for _ in k[:-1]:
        cur = hold(cur)
    return cur


EMPTY = frozenset()


class Frame:
    """abstract interpretation of ONE function body"""

    def __init__(self, an, f: Func):
        self.an, self.lib, self.f = an, an.lib, f
        self.writes = set()
        self.ret = set()
        self.nested = {}
        self.active_nested = set()

    # -------------------------------------------------------------------------------------------------------------- environment
    def run(self):
        f = self.f
        env, tenv = {}, {}
        for p in f.params:
            env[p] = frozenset([("o", p, ())])
            tenv[p] = self.lib.ann_classes(f.ann.get(p))
        if f.selfname and not f.classm:
            tenv[f.selfname] = frozenset([f.cls])
        elif f.classm and f.params:
            env[f.params[0]] = EMPTY
        self.tenv = tenv
        self.narrow = {}
        self.block(f.node.body, env)
        if f.cached and f.selfname:
            self.record(f.selfname, (), f.node.name, "set", "cached_property")
        return self.writes, self.ret

    def merge(self, a, b):
        out = dict(a)
        for k, v in b.items():
            out[k] = out.get(k, EMPTY) | v
        return out

    def block(self, stmts, env):
        for s in stmts:
            env = self.stmt(s, env)
        return env

    def stmt(self, s, env):
        if isinstance(s, ast.Expr):
            self.ev(s.value, env)
        elif isinstance(s, ast.Assign):
            v = self.ev(s.value, env)
            t = self.ty(s.value, env)
            for tg in s.targets:
                env = self.assign(tg, v, t, env, s.value)
        elif isinstance(s, ast.AnnAssign):
            if s.value is not None:
                v = self.ev(s.value, env)
                t = self.lib.ann_classes(s.annotation)
                env = self.assign(s.target, v, t if t else self.ty(s.value, env), env, s.value)
        elif isinstance(s, ast.AugAssign):
            v = self.ev(s.value, env)
            tg = s.target
            if isinstance(tg, ast.Name):
                cur = env.get(tg.id, EMPTY)
                for r in cur:
                    self.mutate(r, "aug", tg, env)
                # x += y keeps the object (in-place types) or makes a fresh one (immutable types); a container takes up the elements
                if v:
                    env = dict(env)
                    env[tg.id] = cur | self.holder(frozenset(step(r, "[]") for r in v)) | (v if isinstance(s.op, (ast.BitOr, ast.BitAnd)) else EMPTY)
            elif isinstance(tg, ast.Attribute):
                base = self.ev(tg.value, env)
                for r in base:
                    self.setattr_(r, tg.attr, "set", tg.value, env)
                for r in base:
                    if r[0] in ("o", "s"):
                        self.mutate(step(r, tg.attr), "aug", tg, env)
            elif isinstance(tg, ast.Subscript):
                self.ev(tg.slice, env)
                for r in self.ev(tg.value, env):
                    self.mutate(r, "item", tg.value, env)
        elif isinstance(s, ast.Delete):
            for tg in s.targets:
                if isinstance(tg, ast.Attribute):
                    for r in self.ev(tg.value, env):
                        self.setattr_(r, tg.attr, "set", tg.value, env)
                elif isinstance(tg, ast.Subscript):
                    self.ev(tg.slice, env)
                    for r in self.ev(tg.value, env):
                        self.mutate(r, "item", tg.value, env)
                elif isinstance(tg, ast.Name):
                    env = dict(env)
                    env.pop(tg.id, None)
        elif isinstance(s, ast.Return):
            if s.value is not None:
                self.ret |= self.ev(s.value, env)
                if isinstance(s.value, ast.Name):
                    for k, v in env.items():
                        if k.startswith(s.value.id + "."):
                            self.ret |= self.holder(v)
        elif isinstance(s, ast.If):
            self.ev(s.test, env)
            saved = dict(self.narrow)
            self.narrow.update(self.isinstance_facts(s.test))
            a = self.block(s.body, dict(env))
            self.narrow = saved
            b = self.block(s.orelse, dict(env))
            env = self.merge(a, b)
        elif isinstance(s, (ast.For, ast.AsyncFor)):
            it = self.ev(s.iter, env)
            t = self.ty(s.iter, env)
            elems = frozenset(step(r, "[]") for r in it)
            cur = dict(env)
            for _ in range(6):
                e = self.assign(s.target, elems, t, dict(cur), None)
                e = self.block(s.body, e)
                new = self.merge(cur, e)
                if new == cur:
                    break
                cur = new
            env = self.block(s.orelse, cur) if s.orelse else cur
        elif isinstance(s, ast.While):
            cur = dict(env)
            for _ in range(6):
                self.ev(s.test, cur)
                e = self.block(s.body, dict(cur))
                new = self.merge(cur, e)
                if new == cur:
                    break
                cur = new
            env = self.block(s.orelse, cur) if s.orelse else cur
        elif isinstance(s, (ast.With, ast.AsyncWith)):
            for item in s.items:
                v = self.ev(item.context_expr, env)
                if item.optional_vars is not None:
                    env = self.assign(item.optional_vars, v, None, env, item.context_expr)
            env = self.block(s.body, env)
        elif isinstance(s, ast.Try) or s.__class__.__name__ == "TryStar":
            start = dict(env)
            after = self.block(s.body, dict(env))
            joined = self.merge(start, after)
            outs = [self.block(s.orelse, dict(after)) if s.orelse else after]
            for h in s.handlers:
                outs.append(self.block(h.body, dict(joined)))
            env = outs[0]
            for o in outs[1:]:
                env = self.merge(env, o)
            if s.finalbody:
                env = self.block(s.finalbody, env)
        elif isinstance(s, (ast.FunctionDef, ast.AsyncFunctionDef)):
            self.nested[s.name] = s
            self.call_nested(s, {}, env)          # a callback may be invoked by someone else: arguments unknown (fresh)
        elif isinstance(s, ast.ClassDef):
            pass
        elif isinstance(s, ast.Assert):
            self.ev(s.test, env)
        elif isinstance(s, ast.Raise):
            if s.exc is not None:
                self.ev(s.exc, env)
        elif isinstance(s, ast.Match) if hasattr(ast, "Match") else False:
            self.ev(s.subject, env)
            outs = [self.block(c.body, dict(env)) for c in s.cases]
            for o in outs:
                env = self.merge(env, o)
        # Pass, Break, Continue, Import, Global, Nonlocal: nothing to do
        return env

    def isinstance_facts(self, test):
        """`isinstance(E, T)` (possibly inside `and`) narrows the static class of the expression E in the branch"""
        out = {}
        tests = test.values if isinstance(test, ast.BoolOp) and isinstance(test.op, ast.And) else [test]
        for t in tests:
            if isinstance(t, ast.Call) and _dotted(t.func) == "isinstance" and len(t.args) == 2:
                key = _dotted(t.args[0])
                if "?" not in key:
                    a = self.lib.ann_classes(t.args[1])
                    if a is not None:
                        out[key] = a
        return out

    def assign(self, tg, v, t, env, value_node):
        if isinstance(tg, ast.Name):
            env = dict(env)
            env[tg.id] = frozenset(v)
            for k in [k for k in self.narrow if k == tg.id or k.startswith(tg.id + ".")]:
                del self.narrow[k]
            for k in [k for k in env if k.startswith(tg.id + ".")]:
                del env[k]
            self.tenv[tg.id] = t if tg.id not in self.tenv or self.tenv[tg.id] == t else self._tjoin(self.tenv[tg.id], t)
        elif isinstance(tg, (ast.Tuple, ast.List)):
            # unpacking: every target may receive any element
            elems = frozenset(step(r, "[]") for r in v)
            if isinstance(value_node, (ast.Tuple, ast.List)) and len(value_node.elts) == len(tg.elts):
                for x, y in zip(tg.elts, value_node.elts):
                    env = self.assign(x, self.ev(y, env), self.ty(y, env), env, y)
            else:
                for x in tg.elts:
                    env = self.assign(x.value if isinstance(x, ast.Starred) else x, elems, t, env, None)
        elif isinstance(tg, ast.Attribute):
            base = self.ev(tg.value, env)
            for r in base:
                self.setattr_(r, tg.attr, "set", tg.value, env)
            if isinstance(tg.value, ast.Name) and not any(r[0] in ("o", "s") for r in base):
                env = dict(env)           # a field of a fresh local object: tracked as a variable of its own, `name.attr`
                env[tg.value.id + "." + tg.attr] = frozenset(v)
        elif isinstance(tg, ast.Subscript):
            self.ev(tg.slice, env)
            for r in self.ev(tg.value, env):
                self.mutate(r, "item", tg.value, env)
            if isinstance(tg.value, ast.Name) and v:
                env = dict(env)
                env[tg.value.id] = env.get(tg.value.id, EMPTY) | self.holder(v)
        elif isinstance(tg, ast.Starred):
            env = self.assign(tg.value, v, t, env, None)
        return env

    @staticmethod
    def _tjoin(a, b):
        if a is None or b is None:
            return None
        return a | b

    # -------------------------------------------------------------------------------------------------------------- write records
    def owner_of_root(self, root):
        t = self.tenv.get(root)
        if self.f.selfname == root:
            return self.f.cls
        if t:
            return "|".join(sorted(t))
        ann = self.f.ann.get(root)
        if ann is not None and t is not None:
            return "ext:" + ast.unparse(ann).replace(" ", "")[:40]
        return "param:" + root

    def record(self, root, path, attr0, wk, detail):
        if root not in self.f.params or (self.f.qual, detail) in EXEMPT:
            return
        origin = (self.owner_of_root(root), attr0, wk)
        ex = self.an.sites.setdefault(origin, set())
        if len(ex) < 4:
            ex.add(self.f.qual + " " + detail)
        self.writes.add((root, bool(path), origin))

    def setattr_(self, r, attr, _wk, base_node, env):
        """`<object r>.attr = …` / del / setattr"""
        k, root, path = r
        if k != "o":
            return                      # attribute of a fresh (shallow copy / holder) object
        if path:
            self.record(root, path, path[0], "deep", ".".join(path) + "." + attr)
        else:
            self.record(root, path, attr, "set", attr)

    def mutate(self, r, how, node, env):
        """in-place change of the object r refers to"""
        k, root, path = r
        if k != "o":
            return
        if not path:
            self.record(root, path, "", "mut", how)
        elif len(path) == 1:
            self.record(root, path, path[0], "mut", path[0] + ":" + how)
        else:
            self.record(root, path, path[0], "deep", ".".join(path) + ":" + how)

    # -------------------------------------------------------------------------------------------------------------- types
    def ty(self, n, env):
        lib = self.lib
        if isinstance(n, ast.Name):
            if n.id in self.narrow:
                return self.narrow[n.id]
            if n.id in self.tenv:
                return self.tenv[n.id]
            return None
        if isinstance(n, ast.Attribute):
            key = _dotted(n)
            if key in self.narrow:
                return self.narrow[key]
            tv = self.ty(n.value, env)
            if tv:
                out, known = set(), True
                for c in tv:
                    fs = [f for f in lib.lookup(c, n.attr) if f.prop]
                    if not fs:
                        ft = lib.field_type(c, n.attr)
                        if ft is None:
                            known = False
                        else:
                            out |= ft
                    for f in fs:
                        a = lib.ann_classes(f.ret_ann)
                        if a is None:
                            known = False
                        else:
                            out |= a
                return frozenset(out) if known else None
            return None
        if isinstance(n, ast.Call):
            d = _dotted(n.func)
            if isinstance(n.func, ast.Name) and n.func.id in lib.classes:
                return frozenset([n.func.id])
            cands = self.resolve(n, env)[0]
            if cands:
                out = set()
                for f, _ in cands:
                    a = lib.ann_classes(f.ret_ann)
                    if a is None:
                        return None
                    out |= a
                return frozenset(out)
            if d in ("list", "sorted", "tuple", "set", "reversed") and n.args:
                return self.ty(n.args[0], env)
            return None
        if isinstance(n, ast.Subscript):
            return self.ty(n.value, env)
        if isinstance(n, ast.IfExp):
            return self._tjoin(self.ty(n.body, env), self.ty(n.orelse, env))
        if isinstance(n, ast.Constant):
            return EMPTY
        if isinstance(n, (ast.List, ast.Tuple, ast.Set, ast.Dict, ast.ListComp, ast.SetComp, ast.DictComp, ast.BinOp, ast.Compare,
                          ast.JoinedStr)):
            return EMPTY if not isinstance(n, (ast.ListComp, ast.List, ast.Tuple)) else None
        return None

    # -------------------------------------------------------------------------------------------------------------- expressions
    def ev(self, n, env):
        if n is None:
            return EMPTY
        m = getattr(self, "ev_" + n.__class__.__name__, None)
        if m is not None:
            return m(n, env)
        for c in ast.iter_child_nodes(n):
            if isinstance(c, ast.expr):
                self.ev(c, env)
        return EMPTY

    def ev_Constant(self, n, env):
        return EMPTY

    def ev_Name(self, n, env):
        return env.get(n.id, EMPTY)

    def ev_Attribute(self, n, env):
        base = self.ev(n.value, env)
        field = env.get(n.value.id + "." + n.attr, EMPTY) if isinstance(n.value, ast.Name) else EMPTY
        if not base:
            return field
        out = set(field)
        for r in base:
            out.add(step(r, n.attr))
        # a property of the library: its getter runs on the object
        objs = frozenset(r for r in base if r[0] == "o")
        if objs:
            tv = self.ty(n.value, env)
            props = [f for f in self.members(tv, n.attr) if f.prop]
            for f in props:
                out |= self.apply(f, {f.selfname: objs} if f.selfname else {})
        return frozenset(out)

    def members(self, tv, name):
        if tv is None:
            return self.lib.anywhere(name)
        out = []
        for c in tv:
            out.extend(self.lib.lookup(c, name))
        return out

    def ev_Subscript(self, n, env):
        base = self.ev(n.value, env)
        self.ev(n.slice, env)
        sl = n.slice
        is_slice = isinstance(sl, ast.Slice) or (isinstance(sl, ast.Tuple) and any(isinstance(x, ast.Slice) for x in sl.elts))
        if is_slice:
            return base | frozenset(hold(step(r, "[]")) for r in base if r[0] == "o")          # numpy view / list copy
        out = set(step(r, "[]") for r in base)
        objs = frozenset(r for r in base if r[0] == "o")
        if objs:
            tv = self.ty(n.value, env)
            if tv:
                for f in self.members(tv, "__getitem__"):
                    out |= self.apply(f, {f.selfname: objs})
        return frozenset(out)

    def ev_Starred(self, n, env):
        return frozenset(step(r, "[]") for r in self.ev(n.value, env))

    def holder(self, refs):
        return frozenset(hold(r) for r in refs)

    def ev_List(self, n, env):
        out = set()
        for e in n.elts:
            v = self.ev(e, env)
            out |= v if isinstance(e, ast.Starred) else v
        return self.holder(out)

    ev_Tuple = ev_List
    ev_Set = ev_List

    def ev_Dict(self, n, env):
        out = set()
        for k, v in zip(n.keys, n.values):
            if k is not None:
                self.ev(k, env)
                out |= self.ev(v, env)
            else:
                out |= frozenset(step(r, "[]") for r in self.ev(v, env))
        return self.holder(out)

    def comp(self, n, env, elts, visit=()):
        env = dict(env)
        for g in n.generators:
            it = self.ev(g.iter, env)
            env = self.assign(g.target, frozenset(step(r, "[]") for r in it), self.ty(g.iter, env), env, None)
            for c in g.ifs:
                self.ev(c, env)
        out = set()
        for e in visit:
            self.ev(e, env)
        for e in elts:
            out |= self.ev(e, env)
        return self.holder(out)

    def ev_ListComp(self, n, env):
        return self.comp(n, env, [n.elt])

    ev_SetComp = ev_ListComp
    ev_GeneratorExp = ev_ListComp

    def ev_DictComp(self, n, env):
        return self.comp(n, env, [n.value], [n.key])          # keys are hashable values: what a dict hands out are its values

    def ev_IfExp(self, n, env):
        self.ev(n.test, env)
        return self.ev(n.body, env) | self.ev(n.orelse, env)

    def ev_BoolOp(self, n, env):
        out = set()
        for v in n.values:
            out |= self.ev(v, env)
        return frozenset(out)

    def ev_NamedExpr(self, n, env):
        v = self.ev(n.value, env)
        if isinstance(n.target, ast.Name):
            env[n.target.id] = v            # (the caller's dict: a walrus binds in the enclosing scope)
        return v

    def ev_Lambda(self, n, env):
        e = dict(env)
        for a in n.args.args:
            e[a.arg] = EMPTY
        self.ev(n.body, e)
        return EMPTY

    def ev_Await(self, n, env):
        return self.ev(n.value, env)

    def ev_Yield(self, n, env):
        if n.value is not None:
            self.ret |= self.holder(self.ev(n.value, env))
        return EMPTY

    def ev_YieldFrom(self, n, env):
        self.ret |= self.ev(n.value, env)
        return EMPTY

    def ev_BinOp(self, n, env):
        a, b = self.ev(n.left, env), self.ev(n.right, env)
        self.dunder(BIN_DUNDER.get(type(n.op), (None, None))[0], n.left, a, [b], env)
        self.dunder(BIN_DUNDER.get(type(n.op), (None, None))[1], n.right, b, [a], env)
        if isinstance(n.op, (ast.Add, ast.Mult, ast.BitOr, ast.BitAnd, ast.Sub)):
            # list concatenation / set union: a fresh container of the same elements
            return frozenset(hold(step(r, "[]")) if r[0] in ("o", "s") else r for r in a | b)
        return EMPTY

    def ev_Compare(self, n, env):
        left, lrefs = n.left, self.ev(n.left, env)
        for op, right in zip(n.ops, n.comparators):
            rrefs = self.ev(right, env)
            d = CMP_DUNDER.get(type(op))
            if d == "__contains__":
                self.dunder(d, right, rrefs, [lrefs], env)
                # `x in list_of_objects` compares x with the elements
                elems = frozenset(step(r, "[]") for r in rrefs)
                self.dunder("__eq__", None, elems, [lrefs], env)
                self.dunder("__eq__", left, lrefs, [elems], env)
                self.dunder("__hash__", left, lrefs, [], env)
            elif d:
                self.dunder(d, left, lrefs, [rrefs], env)
                self.dunder(d, right, rrefs, [lrefs], env)
            left, lrefs = right, rrefs
        return EMPTY

    def dunder(self, name, node, refs, args, env):
        """an operator / protocol function runs `name` of the library on the objects `refs`"""
        if not name:
            return EMPTY
        objs = frozenset(r for r in refs if r[0] == "o")
        if not objs:
            return EMPTY
        tv = self.ty(node, env) if node is not None else None
        out = set()
        for f in self.members(tv, name):
            if f.selfname is None:
                continue
            bound = {f.selfname: objs}
            rest = [p for p in f.params if p != f.selfname]
            for p, a in zip(rest, args):
                bound[p] = a
            out |= self.apply(f, bound)
        return frozenset(out)

    # -------------------------------------------------------------------------------------------------------------- calls
    def apply(self, f: Func, bound):
        """use the summary of f under the binding parameter -> refs; returns what the result may alias"""
        self.an.deps.setdefault(f.key, set()).add(self.f.key)
        out = set()
        for (p, deep, origin) in f.writes:
            for a in bound.get(p, ()):
                # a fresh object (shallow copy / holder) is written harmlessly unless the write goes below it
                if (a[0] == "o" or (deep and a[0] in ("s", "co", "cs"))) and a[1] in self.f.params:
                    self.writes.add((a[1], deep or bool(a[2]), origin))
        for rr in f.ret:
            for a in bound.get(rr[1], ()):
                out.add(compose(a, rr))
        return out

    def bind(self, f: Func, recv, args, kwargs, skip_self):
        bound = {}
        params = list(f.params)
        if f.selfname and skip_self:
            bound[f.selfname] = recv
            params = params[1:]
        elif f.classm and params:
            params = params[1:]
        for p, a in zip(params, args):
            bound[p] = bound.get(p, EMPTY) | a
        va = f.node.args.vararg
        if va is not None and len(args) > len(params) - 1:
            extra = set()
            for a in args[max(0, len([x for x in params if x != va.arg]) - len(f.node.args.kwonlyargs) - (1 if f.node.args.kwarg else 0)):]:
                extra |= a
            bound[va.arg] = self.holder(extra)
        for k, a in kwargs.items():
            if k in f.params:
                bound[k] = bound.get(k, EMPTY) | a
            elif k is None and f.node.args.kwarg is not None:
                bound[f.node.args.kwarg.arg] = a
        return bound

    def resolve(self, n, env):
        """-> ([(Func, skip_self)], receiver node or None)"""
        fn, lib = n.func, self.lib
        if isinstance(fn, ast.Name):
            if fn.id in self.nested:
                return [], None
            if fn.id in lib.classes:
                return [(f, "ctor") for f in lib.lookup(fn.id, "__init__")[:1]], None
            if fn.id in lib.funcs:
                fs = lib.funcs[fn.id]
                same = [f for f in fs if f.module == self.f.module]
                return [(f, False) for f in (same or fs)], None
            return [], None
        if isinstance(fn, ast.Attribute):
            v = fn.value
            if isinstance(v, ast.Name) and v.id in lib.classes and v.id not in env:
                fs = lib.lookup(v.id, fn.attr)
                return [(f, "static") for f in fs], None
            if isinstance(v, ast.Call) and _dotted(v.func) == "super" and self.f.cls:
                fs = []
                for b in lib.mro(self.f.cls)[1:]:
                    if fn.attr in lib.classes[b]["methods"]:
                        fs = lib.classes[b]["methods"][fn.attr]
                        break
                return [(f, "super") for f in fs], None
            if isinstance(v, ast.Name) and v.id not in env and v.id not in self.tenv:
                # a module alias (np, math, copy, etree …) or a global: module-level functions of the library by name
                if fn.attr in lib.funcs and v.id not in ("np", "numpy", "math", "copy", "os", "warnings", "etree", "plt", "mpl"):
                    return [(f, False) for f in lib.funcs[fn.attr]], None
                return [], None
            tv = self.ty(v, env)
            return [(f, True) for f in self.members(tv, fn.attr) if not f.prop], v
        return [], None

    def call_nested(self, node, bound, env):
        if node.name in self.active_nested:
            return EMPTY
        self.active_nested.add(node.name)
        e = dict(env)
        a = node.args
        for p in [x.arg for x in a.posonlyargs + a.args + a.kwonlyargs] + ([a.vararg.arg] if a.vararg else []) + ([a.kwarg.arg] if a.kwarg else []):
            e[p] = bound.get(p, EMPTY)
            self.tenv.setdefault(p, None)
        saved, self.ret = self.ret, set()
        self.block(node.body, e)
        out, self.ret = frozenset(self.ret), saved
        self.active_nested.discard(node.name)
        return out

    def ev_Call(self, n, env):
        fn = n.func
        d = _dotted(fn)
        args = [self.ev(a, env) for a in n.args]
        kwargs = {}
        for k in n.keywords:
            v = self.ev(k.value, env)
            kwargs[k.arg] = (kwargs.get(k.arg, EMPTY) | v) if k.arg is not None else frozenset(step(r, "[]") for r in v)
        if "out" in kwargs:
            for r in kwargs["out"]:
                self.mutate(r, "out=", None, env)
        a0 = args[0] if args else EMPTY
        short = d.split(".")[-1]
        # ---- builtins and protocol functions
        if isinstance(fn, ast.Name) and fn.id not in env:
            if fn.id in self.nested:
                node = self.nested[fn.id]
                names = [x.arg for x in node.args.posonlyargs + node.args.args]
                bound = dict(zip(names, args))
                bound.update({k: v for k, v in kwargs.items() if k})
                return self.call_nested(node, bound, env)
            if fn.id == "setattr" and len(n.args) >= 2:
                name = n.args[1].value if isinstance(n.args[1], ast.Constant) else "*"
                for r in a0:
                    self.setattr_(r, str(name), "set", n.args[0], env)
                return EMPTY
            if fn.id == "delattr" and len(n.args) >= 2:
                name = n.args[1].value if isinstance(n.args[1], ast.Constant) else "*"
                for r in a0:
                    self.setattr_(r, str(name), "set", n.args[0], env)
                return EMPTY
            if fn.id == "getattr" and len(n.args) >= 2:
                if isinstance(n.args[1], ast.Constant) and isinstance(n.args[1].value, str):
                    fake = ast.Attribute(value=n.args[0], attr=n.args[1].value, ctx=ast.Load())
                    out = self.ev_Attribute(fake, env)
                else:
                    out = frozenset(step(r, "*") for r in a0)
                return out | (args[2] if len(args) > 2 else EMPTY)
            if fn.id in ("vars",):
                return frozenset(step(r, "__dict__") for r in a0)
            if fn.id in DUNDER_OF_BUILTIN and n.args:
                self.dunder(DUNDER_OF_BUILTIN[fn.id], n.args[0], a0, [], env)
                if fn.id in ("str", "repr", "format"):
                    self.dunder("__repr__" if fn.id == "str" else "__str__", n.args[0], a0, [], env)
                return EMPTY
            if fn.id in HOLDER_BUILTINS:
                out = set()
                for a in args:
                    out |= frozenset(step(r, "[]") for r in a)
                if fn.id in ("sorted", "set", "frozenset", "dict") and n.args:
                    elems = frozenset(step(r, "[]") for r in a0)
                    self.dunder("__lt__" if fn.id == "sorted" else "__hash__", None, elems, [elems] if fn.id == "sorted" else [], env)
                    if fn.id != "sorted":
                        self.dunder("__eq__", None, elems, [elems], env)
                return self.holder(out)
            if fn.id in ELEMENT_BUILTINS:
                out = set()
                if len(args) == 1 or fn.id == "next":
                    out |= frozenset(step(r, "[]") for r in a0)
                    for a in args[1:]:
                        out |= a
                else:
                    for a in args:
                        out |= a
                return frozenset(out)
            if fn.id in ("deepcopy",):
                self.dunder("__deepcopy__", n.args[0] if n.args else None, a0, [], env)
                self.dunder("__getstate__", n.args[0] if n.args else None, a0, [], env)
                return EMPTY
            if fn.id in ("copy",) and n.args:
                self.dunder("__copy__", n.args[0], a0, [], env)
                self.dunder("__getstate__", n.args[0], a0, [], env)
                return frozenset(shallow(r) for r in a0)
            if fn.id in ("id", "isinstance", "issubclass", "type", "hasattr", "callable", "print", "int", "float", "abs", "round", "sum", "any",
                         "all", "range", "ord", "chr", "divmod", "pow", "super", "open", "input", "bytes", "complex", "slice", "object"):
                return EMPTY
        if d in ("copy.deepcopy", "pickle.dumps", "pickle.dump"):
            self.dunder("__deepcopy__" if d == "copy.deepcopy" else "__reduce__", n.args[0] if n.args else None, a0, [], env)
            self.dunder("__getstate__", n.args[0] if n.args else None, a0, [], env)
            return EMPTY
        if d == "copy.copy" and n.args:
            self.dunder("__copy__", n.args[0], a0, [], env)
            self.dunder("__getstate__", n.args[0], a0, [], env)
            return frozenset(shallow(r) for r in a0)
        if d in INPLACE_FUNCS:
            for r in a0:
                self.mutate(r, d, None, env)
            return EMPTY
        if d.startswith(("np.", "numpy.")):
            if short in NP_VIEWS or (short == "array" and any(k.arg == "copy" and isinstance(k.value, ast.Constant) and not k.value.value
                                                                 for k in n.keywords)):
                return a0
            return EMPTY
        if d in HOLDER_BUILTINS:
            out = set()
            for a in args:
                out |= frozenset(step(r, "[]") for r in a)
            return self.holder(out)
        # ---- library functions / methods
        cands, recv_node = self.resolve(n, env)
        out = set()
        recv = self.ev(fn.value, env) if isinstance(fn, ast.Attribute) else EMPTY
        if isinstance(fn, ast.Attribute) and not cands and not recv and not isinstance(fn.value, ast.Name):
            pass
        for f, mode in cands:
            if mode == "ctor":
                bound = self.bind(f, EMPTY, args, kwargs, True)
                self.apply(f, bound)
            elif mode == "static":
                if f.static or f.classm:
                    bound = self.bind(f, EMPTY, args, kwargs, False)
                else:
                    bound = self.bind(f, EMPTY, args, kwargs, False)      # Class.method(obj, …): obj is the first positional argument
                out |= self.apply(f, bound)
            elif mode == "super":
                me = env.get(self.f.selfname, EMPTY) if self.f.selfname else EMPTY
                if f.node.name == "__init__" or not (f.static or f.classm):
                    bound = self.bind(f, me, args, kwargs, True)
                else:
                    bound = self.bind(f, EMPTY, args, kwargs, False)
                out |= self.apply(f, bound)
            elif mode is True:
                objs = frozenset(r for r in recv if r[0] == "o")
                if f.static:
                    bound = self.bind(f, EMPTY, args, kwargs, False)
                else:
                    bound = self.bind(f, objs, args, kwargs, True)
                out |= self.apply(f, bound)
            else:
                out |= self.apply(f, self.bind(f, EMPTY, args, kwargs, False))
        if cands and cands[0][1] == "ctor":
            # a new library object that holds its arguments
            held = set()
            for a in list(args) + [v for k, v in kwargs.items()]:
                held |= a
            return self.holder(held)
        key = _dotted(fn.value) if isinstance(fn, ast.Attribute) else "?"
        if isinstance(fn, ast.Attribute) and key in env and not cands:
            # a local container takes up what is put into it
            put = set()
            if fn.attr in ("append", "add", "insert", "appendleft", "setdefault", "__setitem__", "put"):
                for a in args:
                    put |= self.holder(a)
            elif fn.attr in ("extend", "update", "extendleft", "union", "__ior__", "__iadd__"):
                for a in list(args) + [v for k, v in kwargs.items()]:
                    put |= self.holder(frozenset(step(r, "[]") for r in a))
            if put:
                env[key] = env.get(key, EMPTY) | put
        if isinstance(fn, ast.Attribute) and recv:
            m = fn.attr
            typed_lib = bool(self.ty(fn.value, env))
            if m in MUTATORS and not (typed_lib and cands):
                for r in recv:
                    self.mutate(r, m, fn.value, env)
            if m in ELEMENT_METHODS:
                out |= frozenset(step(r, "[]") for r in recv)
                if m in ("get", "pop", "setdefault") and len(args) > 1:
                    out |= args[1]
            elif m in HOLDER_METHODS:
                out |= self.holder(frozenset(step(r, "[]") for r in recv))
            elif m in VIEW_METHODS:
                out |= recv
            elif m in SHALLOW_METHODS and not cands:
                out |= frozenset(shallow(r) for r in recv)
            elif m == "astype" and any(k.arg == "copy" and isinstance(k.value, ast.Constant) and not k.value.value for k in n.keywords):
                out |= recv
        return frozenset(out)


# ------------------------------------------------------------------------------------------------------------------- global fixed point
class Analysis:
    def __init__(self, repo):
        self.lib = Lib(repo)
        self.deps = {}
        self.sites = {}
        self.byk = {f.key: f for f in self.lib.all}

    def solve(self, max_rounds=40):
        todo = list(self.lib.all)
        rounds = 0
        while todo and rounds < max_rounds:
            rounds += 1
            nxt = set()
            for f in todo:
                w, r = Frame(self, f).run()
                if not (w <= f.writes and r <= f.ret):
                    f.writes |= w
                    f.ret |= r
                    nxt |= self.deps.get(f.key, set())
                    nxt.add(f.key)
            todo = [self.byk[k] for k in sorted(nxt, key=str)]
        self.rounds = rounds
        if todo:
            raise Lost(f"no fixed point after {max_rounds} rounds")


# ------------------------------------------------------------------------------------------------------------------- operations
def operations(lib: Lib):
    """[(op name, Func)] — the read-only operations; -> also the names the tables know but the source lacks"""
    import c18_dims
    ops, missing = [], []
    seen = set()

    def add(name, fs):
        for f in fs:
            if f.setter or f.key in seen:
                continue
            seen.add(f.key)
            ops.append((name, f))

    for cls, table in c18_dims.OPERATIONS.items():
        if cls == "CommonRoadFileReader":
            continue
        if cls not in lib.classes:
            missing.append(cls)
            continue
        for member, dec in table.items():
            if not (dec.startswith("op:") or dec.startswith("snapshot")) or "writes into its ARGUMENT" in dec:
                continue            # (State.convert_state_to_state fills the state it is given, by contract: not a read-only operation on it)
            fs = []
            for b in lib.mro(cls):
                fs = [f for f in lib.classes[b]["methods"].get(member, []) if not f.setter]
                if fs:
                    break
            if not fs:
                # plain instance attribute (no property): nothing runs
                continue
            add(f"{cls}.{member}", fs[:1])
        for d in PROTOCOL_OPS:
            if d == "__setstate__":
                continue
            for b in lib.mro(cls):
                fs = lib.classes[b]["methods"].get(d)
                if fs:
                    add(f"{cls}.{d}", fs[:1])
                    break
    for mod, table in c18_dims.FUNCTIONS.items():
        for fn, dec in table.items():
            if dec.startswith("op:"):
                add(f"{mod.split('.')[-1]}:{fn}", lib.funcs.get(fn, []))
    for c, info in sorted(lib.classes.items()):
        if info["module"] in WRITER_MODULES:
            for m, fs in sorted(info["methods"].items()):
                if m == "__init__" or any(f.setter for f in fs):
                    continue
                add(f"{c}.{m}", [f for f in fs if not f.setter][:1])
    # every __eq__ / __hash__ / __str__ / __repr__ of the library outside the visualisation and the readers
    for c, info in sorted(lib.classes.items()):
        if "/visualization/" in info["module"] or "/reader/" in info["module"] or "solution" in info["module"]:
            continue
        for d in ("__eq__", "__hash__", "__str__", "__repr__"):
            add(f"{c}.{d}", info["methods"].get(d, [])[:1])
    return ops, missing


def rows_of(f: Func):
    """the writes of one operation on its receiver / arguments: [(root, owner, attr, kind, site, detail)]"""
    out = set()
    for (root, deep, origin) in f.writes:
        owner, attr, wk = origin
        out.add((root, owner, attr, wk))
    return sorted(out)


def analyse(repo):
    an = Analysis(repo)
    if not an.lib.all:
        raise Lost(f"no source found under {repo}/commonroad")
    an.solve()
    ops, missing = operations(an.lib)
    table = {}
    for name, f in ops:
        table[name] = [list(r) for r in rows_of(f)]
    used = {(r[1], r[2], r[3]) for rows in table.values() for r in rows}
    table[SITES] = {"|".join(c): sorted(an.sites.get(c, []))[:4] for c in sorted(used)}
    return table, missing, an


# ------------------------------------------------------------------------------------------------------------------- Lean output
HEADER = """/-
  Gen.SrcC18 — GENERATED on every run by harness/translate/src_c18.py from the current source of commonroad-io. Do not edit.
  The write sets of the read-only operations (see the doc string of the generator for what is extracted and how).
-/
import CRModel.PyExtC18
set_option maxRecDepth 100000
namespace Gen
open CR.Frame.Tie

"""


SITES = "__sites__"      # pseudo-operation of the stored table: write class -> example statements (comments of the generated file)


def lean_str(s):
    return '"' + str(s).replace("\\", "\\\\").replace('"', '\\"') + '"'


def emit(table, lost_ops):
    table = dict(table)
    sites = table.pop(SITES, {})
    classes = sorted({(r[1], r[2], r[3]) for rows in table.values() for r in rows})
    idx = {c: i for i, c in enumerate(classes)}
    reach = {}
    for op in sorted(table):
        for r in table[op]:
            reach.setdefault((r[1], r[2], r[3]), []).append(f"{op}({r[0]})")

    def note(c):
        ops = reach.get(c, [])
        return ("  -- e.g. " + "; ".join(sites.get("|".join(c), [])[:3]) + "   reached by " + str(len(ops)) + " (operation, root) pairs, e.g. "
                + ", ".join(ops[:3])).replace("\n", " ")
    out = [HEADER]
    out.append("/-- every distinct (owner class, attribute, kind) some read-only operation writes through its receiver or an argument -/\n")
    out.append("def C18_writeClasses : List W := [\n" + ",\n".join(
        f"{note((o, a, k))}\n  ⟨{lean_str(o)}, {lean_str(a)}, .{k}⟩" for (o, a, k) in classes) + "]\n\n")
    out.append("/-- operation ↦ indices into `C18_writeClasses`; the comment says where the statement stands -/\n")
    lines = []
    for op in sorted(table):
        rows = table[op]
        ids = sorted({idx[(r[1], r[2], r[3])] for r in rows})
        lines.append(f"  ({lean_str(op)}, [{', '.join(map(str, ids))}])")
    out.append("def C18_opWrites : List (String × List Nat) := [\n" + ",\n".join(lines) + "]\n\n")
    out.append("/-- the resets a writer entry point must perform (class, attribute), and whether the current source performs them -/\n")
    req = []
    for op, needs in sorted(REQUIRED.items()):
        have = {(r[1], r[2], r[3]) for r in table.get(op, [])}
        for (o, a, k) in needs:
            req.append(f"  ({lean_str(op)}, ⟨{lean_str(o)}, {lean_str(a)}, .{k}⟩, {'true' if (o, a, k) in have else 'false'})")
    out.append("def C18_resets : List (String × W × Bool) := [\n" + ",\n".join(req) + "]\n\n")
    out.append("end Gen\n")
    return "".join(out)


def regenerate(repo, gen_dir):
    os.makedirs(gen_dir, exist_ok=True)
    os.makedirs(LASTGOOD, exist_ok=True)
    lg = os.path.join(LASTGOOD, "SrcC18.json")
    last = json.load(open(lg)) if os.path.exists(lg) else {}
    status = {}
    try:
        table, missing, an = analyse(repo)
        status["C18_write_sets"] = f"ok ({len(table) - 1} operations, {len(an.lib.all)} functions, {an.rounds} rounds)"
    except (Lost, SyntaxError, RecursionError, KeyError, IndexError, AttributeError, TypeError, ValueError, OSError, ImportError) as e:
        table, missing = dict(last), []
        status["C18_write_sets"] = f"lost ({type(e).__name__}: {e}); last good table used"
    lost_ops = []
    for op in sorted(last):
        if op == SITES:
            table.setdefault(SITES, {}).update({k: v for k, v in last[op].items() if k not in table.get(SITES, {})})
            continue
        if op not in table:
            table[op] = last[op]
            lost_ops.append(op)
    if lost_ops:
        status["C18_write_sets_ops"] = f"lost ({len(lost_ops)} operations not found any more, last good rows used: {', '.join(lost_ops[:6])})"
    new = emit(table, lost_ops)
    path = os.path.join(gen_dir, "SrcC18.lean")
    old = open(path).read() if os.path.exists(path) else None
    if old != new:
        with open(path, "w") as f:
            f.write(new)
    return status


def update_lastgood(repo):
    os.makedirs(LASTGOOD, exist_ok=True)
    table, _, _ = analyse(repo)
    with open(os.path.join(LASTGOOD, "SrcC18.json"), "w") as f:
        json.dump(table, f, indent=0, sort_keys=True)


if __name__ == "__main__":
    repo = os.environ.get("VERIF_REPO", "/repo")
    if len(sys.argv) > 1 and sys.argv[1] == "--update-lastgood":
        update_lastgood(repo)
    elif len(sys.argv) > 1 and sys.argv[1] == "--dump":
        table, missing, an = analyse(repo)
        for op in sorted(table):
            if op != SITES:
                for r in table[op]:
                    print(op, *r, sep="\t")
    else:
        st = regenerate(repo, os.path.join(os.path.dirname(os.path.dirname(HERE)), "lean", "Gen"))
        for k, v in st.items():
            print(k, v)
