"""py -> Lean translator for property C14 (commonroad/common/solution.py), the 'T' tie of DESIGN.md §2 for C14.

`regenerate(repo, gen_dir)` parses the CURRENT source with `ast` and writes `<gen_dir>/SrcC14.lean` (module `Gen.SrcC14`,
namespace `Gen`).  lean/CRProps/T14.lean proves every generated definition equal to the hand model CRModel/SolutionXml.lean.

Two styles:
  * structural extraction (tables): the member tables of the enums StateFields / XMLStateFields / StateType / TrajectoryType /
    VehicleModel / VehicleType / CostFunction / SupportedCostFunctions, the key -> class table of the reader's `state_types` dict
    and the dataclass field lists of the state classes it names (scenario/state.py, base classes first);
  * functional translation: the body of a Python function becomes a Lean `def` over the model's types, with the fixed call table
    lean/CRModel/PyExtC14.lean (namespace CR.PyS).

A unit that cannot be translated any more is reported `lost (...)` and its last good text (harness/translate/lastgood/C14_*.lean) is
emitted instead - never a verdict.  A number transformation the translator does not know on a value path (round, abs, np.float32,
arithmetic ...) is NOT lost: it is emitted as the uninterpreted `CR.PyS.unknownNum`, so the tie theorem of that function breaks.
"""
from __future__ import annotations

import ast
import os

try:
    from translate.pysrc import Target, Tr, Unsupported, find_func
except ImportError:  # run as a script
    import sys
    sys.path.insert(0, os.path.dirname(os.path.dirname(os.path.abspath(__file__))))
    from translate.pysrc import Target, Tr, Unsupported, find_func

HERE = os.path.dirname(os.path.abspath(__file__))
LASTGOOD = os.path.join(HERE, "lastgood")
SOL = "commonroad/common/solution.py"
STATE = "commonroad/scenario/state.py"

# numeric transformations that change a value: emitted as uninterpreted functions (the tie must break, not get lost)
NUM_TRANSFORMS = {"round", "abs", "np.round", "np.around", "np.float32", "np.float16", "np.single", "np.half", "math.floor",
                  "math.ceil", "math.trunc", "np.floor", "np.ceil", "np.trunc", "np.abs", "np.fabs", "np.rint", "np.clip",
                  "np.nan_to_num", "np.format_float_positional", "np.format_float_scientific", "format", "repr"}


def q(s: str) -> str:
    return '"' + s.replace("\\", "\\\\").replace('"', '\\"').replace("\n", "\\n") + '"'


# ---------------------------------------------------------------------------------------------------------- structural extraction

def class_def(tree, name):
    for n in tree.body:
        if isinstance(n, ast.ClassDef) and n.name == name:
            return n
    raise Unsupported(f"class {name} not found")


def enum_members(tree, cls):
    """[(member name, value node)] of `class cls(Enum)` in definition order."""
    out = []
    for n in class_def(tree, cls).body:
        if isinstance(n, ast.Assign) and len(n.targets) == 1 and isinstance(n.targets[0], ast.Name):
            out.append((n.targets[0].id, n.value))
    if not out:
        raise Unsupported(f"enum {cls} has no members")
    return out


def str_const(n):
    if isinstance(n, ast.Constant) and isinstance(n.value, str):
        return n.value
    raise Unsupported(f"not a string literal: {ast.dump(n)[:60]}")


def table_str_lists(tree, cls, lean):
    rows = []
    for name, v in enum_members(tree, cls):
        if not isinstance(v, ast.List):
            raise Unsupported(f"{cls}.{name} is not a list literal")
        rows.append(f"  ({q(name)}, [" + ", ".join(q(str_const(x)) for x in v.elts) + "])")
    return (f"/-- {SOL}: enum {cls} — (member name, value) in definition order -/\n"
            f"def {lean} : List (String × List String) := [\n" + ",\n".join(rows) + "]\n")


def table_xml_lists(tree, cls, lean):
    rows = []
    for name, v in enum_members(tree, cls):
        if not isinstance(v, ast.List):
            raise Unsupported(f"{cls}.{name} is not a list literal")
        ents = []
        for x in v.elts:
            if isinstance(x, ast.Tuple) and len(x.elts) == 2:
                ents.append(f".pair {q(str_const(x.elts[0]))} {q(str_const(x.elts[1]))}")
            else:
                ents.append(f".one {q(str_const(x))}")
        rows.append(f"  ({q(name)}, [" + ", ".join(ents) + "])")
    return (f"/-- {SOL}: enum {cls} — (member name, value); a tuple entry is `.pair`, a name `.one` -/\n"
            f"def {lean} : List (String × List CR.Sol.XName) := [\n" + ",\n".join(rows) + "]\n")


def table_str(tree, cls, lean):
    rows = [f"({q(n)}, {q(str_const(v))})" for n, v in enum_members(tree, cls)]
    return (f"/-- {SOL}: enum {cls} — (member name, value) in definition order -/\n"
            f"def {lean} : List (String × String) := [" + ", ".join(rows) + "]\n")


def table_int(tree, cls, lean):
    rows = []
    for n, v in enum_members(tree, cls):
        if not (isinstance(v, ast.Constant) and isinstance(v.value, int) and not isinstance(v.value, bool)):
            raise Unsupported(f"{cls}.{n} is not an int literal")
        rows.append(f"({q(n)}, {v.value})")
    return (f"/-- {SOL}: enum {cls} — (member name, value) in definition order -/\n"
            f"def {lean} : List (String × Int) := [" + ", ".join(rows) + "]\n")


def table_supported_costs(tree, lean):
    costs = [n for n, _ in enum_members(tree, "CostFunction")]
    rows = []
    for name, v in enum_members(tree, "SupportedCostFunctions"):
        if isinstance(v, ast.List):
            ms = []
            for x in v.elts:
                if isinstance(x, ast.Attribute) and isinstance(x.value, ast.Name) and x.value.id == "CostFunction" and x.attr in costs:
                    ms.append(q(x.attr))
                else:
                    raise Unsupported(f"SupportedCostFunctions.{name}: entry is not a CostFunction member")
            rows.append(f"  ({q(name)}, [" + ", ".join(ms) + "])")
        elif (isinstance(v, ast.ListComp) and len(v.generators) == 1 and not v.generators[0].ifs
              and isinstance(v.generators[0].iter, ast.Name) and v.generators[0].iter.id == "CostFunction"
              and isinstance(v.elt, ast.Name) and isinstance(v.generators[0].target, ast.Name)
              and v.elt.id == v.generators[0].target.id):
            rows.append(f"  ({q(name)}, CR.PyS.enumNames Sol_CostFunction)")      # [c for c in CostFunction]
        elif isinstance(v, ast.Call) and isinstance(v.func, ast.Name) and v.func.id == "list" and len(v.args) == 1 \
                and isinstance(v.args[0], ast.Name) and v.args[0].id == "CostFunction":
            rows.append(f"  ({q(name)}, CR.PyS.enumNames Sol_CostFunction)")      # list(CostFunction)
        else:
            raise Unsupported(f"SupportedCostFunctions.{name}: unsupported value")
    return (f"/-- {SOL}: enum SupportedCostFunctions — (vehicle model name, names of the admitted cost functions) -/\n"
            f"def {lean} : List (String × List String) := [\n" + ",\n".join(rows) + "]\n")


def reader_state_types(tree):
    """The dict literal `state_types = {StateType.X: Class, ...}` in CommonRoadSolutionReader._parse_state."""
    fn = find_func(tree, "CommonRoadSolutionReader", "_parse_state")
    for n in ast.walk(fn):
        if isinstance(n, ast.Assign) and len(n.targets) == 1 and isinstance(n.targets[0], ast.Name) \
                and n.targets[0].id == "state_types" and isinstance(n.value, ast.Dict):
            rows = []
            for k, v in zip(n.value.keys, n.value.values):
                if not (isinstance(k, ast.Attribute) and isinstance(k.value, ast.Name) and k.value.id == "StateType"
                        and isinstance(v, ast.Name)):
                    raise Unsupported("state_types entry is not `StateType.X: Class`")
                rows.append((k.attr, v.id))
            return rows
    raise Unsupported("state_types dict literal not found")


def table_reader_state_types(tree, lean):
    rows = reader_state_types(tree)
    return (f"/-- {SOL}: CommonRoadSolutionReader._parse_state — the dict `state_types`: (StateType member, state class) -/\n"
            f"def {lean} : List (String × String) := [" + ", ".join(f"({q(k)}, {q(v)})" for k, v in rows) + "]\n")


def dataclass_fields(stree, cls, seen=()):
    """Annotated fields of a dataclass in dataclasses.fields() order: base classes first (single inheritance chain)."""
    if cls in seen:
        raise Unsupported("cyclic bases")
    c = class_def(stree, cls)
    out = []
    for b in c.bases:
        if isinstance(b, ast.Name) and any(isinstance(n, ast.ClassDef) and n.name == b.id for n in stree.body):
            out += dataclass_fields(stree, b.id, seen + (cls,))
    for n in c.body:
        if isinstance(n, ast.AnnAssign) and isinstance(n.target, ast.Name):
            if n.target.id in out:
                continue
            out.append(n.target.id)
    return out


def table_state_classes(tree, stree, lean):
    rows = []
    for _, cls in reader_state_types(tree):
        rows.append(f"  ({q(cls)}, [" + ", ".join(q(f) for f in dataclass_fields(stree, cls)) + "])")
    return (f"/-- {STATE}: dataclass fields (base classes first) of the state classes the solution reader instantiates -/\n"
            f"def {lean} : List (String × List String) := [\n" + ",\n".join(rows) + "]\n")


# ---------------------------------------------------------------------------------------------------------- functional translation

class T14(Target):
    """Target with the extra maps of this module."""

    def __init__(self, *a, optexprs=None, optvars=(), listvars=(), enums=None, tenums=None, appends=None, elements=None,
                 strcalls=None, strwrap=None, tuplevars=(), valuevars=(), coerce=None, dictsets=None, kwdefaults=None,
                 raw_calls=None, comp_calls=(), **k):
        super().__init__(*a, **k)
        self.optexprs = optexprs or {}      # dotted python expr -> (lean Option expr, bound name)  for `X is (not) None`
        self.optvars = set(optvars)         # local names holding an Optional (tested with `is None`)
        self.listvars = set(listvars)       # local list variables (`+=` is `++`)
        self.enums = enums or {}            # enum class name -> (lean table, [member names])   value tables
        self.tenums = tenums or {}          # enum class name (or `cls`) -> lean table: members are denoted by TType
        self.appends = appends or {}        # var -> template of `var.append(v)`
        self.elements = elements or {}      # var -> template of `var = et.Element(x)`
        self.strcalls = strcalls or {}      # dotted arg -> template for str(arg)
        self.strwrap = strwrap or {}        # var -> template wrapping a string literal compared with var
        self.tuplevars = set(tuplevars)     # vars that are pairs: v[0] / v[1] are projections
        self.valuevars = set(valuevars)     # vars on the number value path (unknown transformations become uninterpreted)
        self.coerce = coerce or {}          # var -> lean text when used as a plain value
        self.dictsets = dictsets or {}      # var -> template of `var.set(k, v)`
        self.kwdefaults = kwdefaults or {}  # call -> {kw: default lean text} in positional order
        self.raw_calls = raw_calls or {}    # dotted call -> template over positional args {0} {1} ...
        self.comp_calls = set(comp_calls)


ERR = {"SolutionException": "CR.Err.other", "StateTypeException": "CR.Err.other", "SolutionReaderException": "CR.Err.other",
       "ValueError": "CR.Err.value", "KeyError": "CR.Err.key", "TypeError": "CR.Err.type", "IndexError": "CR.Err.index",
       "AttributeError": "CR.Err.attr", "AssertionError": "CR.Err.assert"}


class TrS(Tr):
    def __init__(self, t):
        super().__init__(t)
        self.bound = {}       # dotted optional expr -> name bound by the enclosing `match`

    # ------------------------------------------------------------------ expressions
    def e(self, n) -> str:
        t = self.t
        if isinstance(n, ast.Constant) and isinstance(n.value, str):
            return q(n.value)
        if isinstance(n, ast.List):
            return "[" + ", ".join(self.e(x) for x in n.elts) + "]"
        d = self.dotted(n) if isinstance(n, (ast.Name, ast.Attribute)) else None
        if d is not None and d in self.bound:
            return self.bound[d]
        if isinstance(n, ast.Name) and n.id in t.coerce:
            if "←" in t.coerce[n.id]:
                self.uses_bind = True
            return t.coerce[n.id]
        if isinstance(n, ast.Name) and n.id in t.tenums:
            return t.tenums[n.id]
        if isinstance(n, ast.Name) and n.id in t.enums:
            return t.enums[n.id][0]
        # Enum[expr].value  /  Enum[expr]  /  Enum.Member
        if isinstance(n, ast.Attribute) and n.attr == "value" and isinstance(n.value, ast.Subscript) \
                and isinstance(n.value.value, ast.Name) and n.value.value.id in t.enums:
            self.uses_bind = True
            return f"(← CR.PyS.enumGet {t.enums[n.value.value.id][0]} {self.e(n.value.slice)})"
        if isinstance(n, ast.Subscript) and isinstance(n.value, ast.Name) and n.value.id in t.tenums:
            self.uses_bind = True
            return f"(← CR.PyS.memberOf {t.tenums[n.value.id]} {self.e(n.slice)})"
        if isinstance(n, ast.Subscript) and isinstance(n.value, ast.Name) and n.value.id in t.enums:
            self.uses_bind = True
            return f"(← CR.PyS.enumMember {t.enums[n.value.id][0]} {self.e(n.slice)})"
        if isinstance(n, ast.Attribute) and isinstance(n.value, ast.Name) and n.value.id in t.enums and d not in t.names:
            tbl, members = t.enums[n.value.id]
            if n.attr not in members:
                raise Unsupported(f"{d}: no such member")
            self.uses_bind = True
            return f"(← CR.PyS.enumMember {tbl} {q(n.attr)})"
        if isinstance(n, ast.Subscript) and isinstance(n.value, ast.Name) and n.value.id in t.tuplevars \
                and isinstance(n.slice, ast.Constant) and n.slice.value in (0, 1):
            return f"{self.local(n.value.id)}.{n.slice.value + 1}"
        if isinstance(n, ast.Subscript) and isinstance(n.value, ast.Name) and n.value.id in t.valuevars:
            self.uses_bind = True
            i = n.slice
            if isinstance(i, ast.Constant) and isinstance(i.value, int) and i.value >= 0:
                return f"(← CR.PyS.index {self.local(n.value.id)} {i.value})"
            return f"(← CR.PyS.index {self.local(n.value.id)} {self.e(i)})"
        if isinstance(n, ast.Subscript) and isinstance(n.slice, ast.Constant) and isinstance(n.slice.value, int) and n.slice.value >= 0:
            self.uses_bind = True
            return f"(← CR.PyS.getItem {self.e(n.value)} {n.slice.value})"
        if isinstance(n, ast.UnaryOp) and isinstance(n.op, ast.Not):
            return f"(!{self.e(n.operand)})"
        if isinstance(n, ast.BinOp) and self.on_value_path(n):
            return self.unknown_num(n)
        if isinstance(n, ast.ListComp):
            return self.listcomp(n)
        if isinstance(n, ast.IfExp):
            # a conditional expression whose branches contain partial operations: only the chosen branch runs
            test = self.e(n.test)
            before = self.uses_bind
            self.uses_bind = False
            a, b = self.e(n.body), self.e(n.orelse)
            inner = self.uses_bind
            self.uses_bind = before or inner
            if inner:
                return f"(← (if {test} then do pure {a} else do pure {b}))"
            return f"(if {test} then {a} else {b})"
        if isinstance(n, ast.JoinedStr) or (isinstance(n, ast.BinOp) and isinstance(n.op, ast.Mod)):
            raise Unsupported("string formatting")
        return super().e(n)

    def on_value_path(self, n):
        return any(isinstance(x, ast.Name) and x.id in self.t.valuevars for x in ast.walk(n))

    def unknown_num(self, n):
        vs = [x.id for x in ast.walk(n) if isinstance(x, ast.Name) and x.id in self.t.valuevars]
        what = ast.unparse(n)
        return f"(CR.PyS.unknownNum {q(what)} {self.local(vs[0])})"

    def listcomp(self, n):
        if len(n.generators) != 1 or n.generators[0].ifs or not isinstance(n.generators[0].target, ast.Name):
            raise Unsupported("list comprehension shape")
        g = n.generators[0]
        var = self.local(g.target.id)
        # [m.value for m in Enum] / [m.name for m in Enum]
        if isinstance(g.iter, ast.Name) and (g.iter.id in self.t.enums or g.iter.id in self.t.tenums) \
                and isinstance(n.elt, ast.Attribute) and isinstance(n.elt.value, ast.Name) and n.elt.value.id == g.target.id:
            tbl = self.t.enums[g.iter.id][0] if g.iter.id in self.t.enums else self.t.tenums[g.iter.id]
            if n.elt.attr == "value":
                return f"(CR.PyS.enumValues {tbl})"
            if n.elt.attr == "name":
                return f"(CR.PyS.enumNames {tbl})"
        it = self.iter_expr(g.iter)
        before = self.uses_bind
        self.uses_bind = False
        body = self.e(n.elt)
        inner = self.uses_bind
        self.uses_bind = before
        if inner:
            self.uses_bind = True
            return f"(← ({it}).mapM (fun {var} => do return {body}))"
        return f"(({it}).map (fun {var} => {body}))"

    def iter_expr(self, n):
        """The list a `for` / comprehension iterates over."""
        t = self.t
        if isinstance(n, ast.Name) and n.id in t.coerce and n.id + "#iter" in t.coerce:
            return t.coerce[n.id + "#iter"]
        if isinstance(n, ast.Call) and self.dotted(n.func) == "list" and len(n.args) == 1:
            return self.iter_expr(n.args[0])
        if isinstance(n, ast.Call) and self.dotted(n.func) == "zip" and len(n.args) == 2:
            return f"(List.zip {self.e(n.args[0])} {self.e(n.args[1])})"
        if isinstance(n, ast.Call) and self.dotted(n.func) == "enumerate" and len(n.args) == 1:
            return f"(List.zipIdx {self.iter_expr(n.args[0])}).map (fun p => (p.2, p.1))"
        return self.e(n)

    def cmp(self, op, left, right):
        t = self.t
        if isinstance(op, (ast.In, ast.NotIn)):
            r = f"(CR.PyS.elem {self.e(left)} {self.e(right)})"
            return r if isinstance(op, ast.In) else f"(!{r})"
        if isinstance(op, (ast.Eq, ast.NotEq)):
            for a, b in ((left, right), (right, left)):
                if isinstance(b, ast.Constant) and isinstance(b.value, str):
                    da = self.dotted(a) if isinstance(a, (ast.Name, ast.Attribute)) else None
                    wrap = None
                    if isinstance(a, ast.Name) and a.id in t.strwrap:
                        x = self.local(a.id)
                        wrap = t.strwrap[a.id].format(s=q(b.value))
                    elif da in t.optexprs and da not in self.bound:
                        x = t.optexprs[da][0]
                        wrap = f"(some {q(b.value)})"
                    if wrap:
                        r = f"decide ({x} = {wrap})"
                        return r if isinstance(op, ast.Eq) else f"(!{r})"
        if isinstance(op, (ast.Is, ast.IsNot)) and isinstance(right, ast.Constant) and right.value is None:
            d = self.dotted(left)
            if d in t.optexprs and d not in self.bound:
                x = t.optexprs[d][0]
                return f"({x}).isNone" if isinstance(op, ast.Is) else f"({x}).isSome"
            if isinstance(left, ast.Name) and left.id in t.optvars:
                return f"({self.local(left.id)}).isNone" if isinstance(op, ast.Is) else f"({self.local(left.id)}).isSome"
            raise Unsupported(f"`is None` on {d}")
        return super().cmp(op, left, right)

    def call(self, n):
        t = self.t
        dotted = self.dotted(n.func)
        if dotted in ("any", "all") and len(n.args) == 1:
            a = n.args[0]
            if isinstance(a, ast.ListComp) or isinstance(a, ast.GeneratorExp):
                g = a.generators[0]
                if len(a.generators) == 1 and not g.ifs and isinstance(g.target, ast.Name):
                    return f"(({self.iter_expr(g.iter)}).{dotted} (fun {self.local(g.target.id)} => {self.e(a.elt)}))"
                raise Unsupported("comprehension shape")
            return f"(CR.PyS.{dotted} {self.e(a)})"
        if dotted == "len" and len(n.args) == 1:
            return f"({self.e(n.args[0])}).length"
        if dotted == "isinstance" and len(n.args) == 2:
            v, ty = self.dotted(n.args[0]), self.dotted(n.args[1])
            if (v, ty) in t.type_tests:
                return t.type_tests[(v, ty)]
            raise Unsupported(f"isinstance({v}, {ty})")
        if dotted == "str" and len(n.args) == 1:
            a = n.args[0]
            da = self.dotted(a) if isinstance(a, (ast.Name, ast.Attribute)) else None
            if da in t.strcalls:
                x = self.bound.get(da) or self.e(a)
                tm = t.strcalls[da]
                if "←" in tm:
                    self.uses_bind = True
                return tm.format(x=x)
            if isinstance(a, ast.Attribute) and a.attr == "name":
                return self.e(a)                     # str of a str
            if "str#value" in t.strcalls and (self.on_value_path(a)):
                self.uses_bind = True
                return t.strcalls["str#value"].format(x=self.e(a))
            raise Unsupported(f"str({ast.unparse(a)})")
        if dotted in NUM_TRANSFORMS and n.args and self.on_value_path(n):
            return self.unknown_num(n)
        if dotted in t.raw_calls:
            tm = t.raw_calls[dotted]
            args = [self.e(a) for a in n.args]
            kws = {k.arg: self.e(k.value) for k in n.keywords}
            for i, (kw, dflt) in enumerate(t.kwdefaults.get(dotted, [])):
                if len(args) <= i:
                    args.append(kws.pop(kw, dflt))
            if kws:
                raise Unsupported(f"keyword arguments {sorted(kws)} of {dotted}")
            try:
                txt = tm.format(*args)
            except IndexError:
                raise Unsupported(f"arity of {dotted}")
            if "←" in txt:
                self.uses_bind = True
            return txt
        if n.keywords:
            raise Unsupported(f"keyword arguments in call of {dotted}")
        return super().call(n)

    # ------------------------------------------------------------------ statements
    def assigned(self, stmts):
        """Names (re)bound by a statement list (assignments, appends, sets, dict stores)."""
        out = []

        def add(x):
            if x not in out:
                out.append(x)
        for s in stmts:
            for n in ast.walk(s):
                if isinstance(n, ast.Assign):
                    for tg in n.targets:
                        if isinstance(tg, ast.Name):
                            add(tg.id)
                        elif isinstance(tg, ast.Subscript) and isinstance(tg.value, ast.Name):
                            add(tg.value.id)
                        elif isinstance(tg, ast.Attribute) and isinstance(tg.value, ast.Name):
                            add(tg.value.id)
                elif isinstance(n, ast.AugAssign) and isinstance(n.target, ast.Name):
                    add(n.target.id)
                elif isinstance(n, ast.Call) and isinstance(n.func, ast.Attribute) and isinstance(n.func.value, ast.Name) \
                        and n.func.attr in ("append", "set"):
                    add(n.func.value.id)
        return out

    def has_return(self, stmts):
        return any(isinstance(n, (ast.Return, ast.Raise)) for s in stmts for n in ast.walk(s))

    def block(self, stmts, ind, tail=None, known=None) -> str:
        """Statement list as the lines of a `do` block.  `tail` = what to emit when control falls off the end (loop bodies and
        branches that are joined again); `known` = names already bound (to tell a mutation from a new local)."""
        t = self.t
        pad = "  " * ind
        known = set(known if known is not None else [p for p, _ in t.params if p])
        if not stmts:
            if tail is not None:
                return f"{pad}{tail}"
            raise Unsupported("path without return")
        s, rest = stmts[0], list(stmts[1:])

        def go(more_known=()):
            return self.block(rest, ind, tail, known | set(more_known))
        if isinstance(s, ast.Expr) and isinstance(s.value, ast.Constant) and isinstance(s.value.value, str):
            return go()
        if isinstance(s, ast.Pass):
            return go()
        if isinstance(s, ast.Raise):
            cls = self.dotted(s.exc.func) if isinstance(s.exc, ast.Call) else self.dotted(s.exc) if s.exc is not None else "?"
            if cls not in ERR:
                raise Unsupported(f"raise {cls}")
            self.uses_bind = True
            return f"{pad}throw {ERR[cls]}"
        if isinstance(s, ast.Return):
            if s.value is None:
                raise Unsupported("bare return")
            return f"{pad}return {self.e(s.value)}"
        if isinstance(s, ast.Expr) and isinstance(s.value, ast.Call):
            c = s.value
            f = c.func
            if isinstance(f, ast.Attribute) and isinstance(f.value, ast.Name):
                v = f.value.id
                if f.attr == "append" and v in t.appends and len(c.args) == 1:
                    line = f"{pad}let {self.local(v)} := " + t.appends[v].format(a=self.local(v), v=self.e(c.args[0])) + "\n"
                    return line + go()
                if f.attr == "set" and v in t.dictsets and len(c.args) == 2:
                    line = f"{pad}let {self.local(v)} := " + t.dictsets[v].format(a=self.local(v), k=self.e(c.args[0]),
                                                                                 v=self.e(c.args[1])) + "\n"
                    return line + go()
                if f.attr == "append" and v in t.listvars and len(c.args) == 1:
                    return f"{pad}let {self.local(v)} := {self.local(v)} ++ [{self.e(c.args[0])}]\n" + go()
            if self.dotted(f) in ERR:
                return go()          # an exception object that is built but not raised: no effect
            raise Unsupported(f"expression statement {ast.unparse(s)[:60]}")
        if isinstance(s, ast.Assign) and len(s.targets) == 1:
            tg = s.targets[0]
            if isinstance(tg, ast.Name):
                name = self.local(tg.id)
                if isinstance(s.value, ast.Call) and self.dotted(s.value.func) == "et.Element" and tg.id in t.elements \
                        and len(s.value.args) == 1:
                    return f"{pad}let {name} := " + t.elements[tg.id].format(x=self.e(s.value.args[0])) + "\n" + go([tg.id])
                if isinstance(s.value, ast.Dict) and not s.value.keys and tg.id in t.accs:
                    return f"{pad}let {name} : List ({t.accs[tg.id]}) := []\n" + go([tg.id])
                if isinstance(s.value, ast.List) and not s.value.elts and tg.id in t.accs:
                    return f"{pad}let {name} : List ({t.accs[tg.id]}) := []\n" + go([tg.id])
                if isinstance(s.value, ast.Dict) and tg.id in t.names:
                    return go()      # a dict literal extracted as a table of its own (structural extraction)
                return f"{pad}let {name} := {self.e(s.value)}\n" + go([tg.id])
            if isinstance(tg, ast.Subscript) and isinstance(tg.value, ast.Name) and tg.value.id in t.accs:
                a = self.local(tg.value.id)
                return f"{pad}let {a} := {a} ++ [({self.e(tg.slice)}, {self.e(s.value)})]\n" + go()
            if isinstance(tg, ast.Attribute) and (self.base_name(tg.value), tg.attr) in t.assign_attrs:
                var = self.base_name(tg.value)
                tmpl = t.assign_attrs[(var, tg.attr)][0]
                return f"{pad}let {self.local(var)} := {tmpl.format(v=self.e(s.value))}\n" + go()
            if isinstance(tg, ast.Tuple) and all(isinstance(x, ast.Name) for x in tg.elts):
                names = ", ".join(self.local(x.id) for x in tg.elts)
                return f"{pad}let ({names}) := {self.e(s.value)}\n" + go([x.id for x in tg.elts])
            raise Unsupported("assignment target")
        if isinstance(s, ast.AugAssign) and isinstance(s.target, ast.Name) and isinstance(s.op, ast.Add) \
                and s.target.id in t.listvars:
            x = self.local(s.target.id)
            return f"{pad}let {x} := {x} ++ {self.e(s.value)}\n" + go()
        if isinstance(s, ast.Try):
            return self.try_stmt(s, pad) + go()
        if isinstance(s, ast.If):
            return self.if_stmt(s, rest, ind, tail, known)
        if isinstance(s, ast.For) and not s.orelse:
            return self.for_stmt(s, rest, ind, tail, known)
        raise Unsupported(f"statement {type(s).__name__}")

    def try_stmt(self, s, pad):
        """try: x = datetime.strptime(x, F1) / except ValueError: x = datetime.strptime(x, F2)"""
        def strp(body):
            if len(body) == 1 and isinstance(body[0], ast.Assign) and isinstance(body[0].targets[0], ast.Name) \
                    and isinstance(body[0].value, ast.Call) and self.dotted(body[0].value.func) == "datetime.strptime" \
                    and len(body[0].value.args) == 2 and not body[0].value.keywords:
                return body[0].targets[0].id, body[0].value.args[0], str_const(body[0].value.args[1])
            raise Unsupported("try body")
        if len(s.handlers) != 1 or s.orelse or s.finalbody or self.dotted(s.handlers[0].type) != "ValueError":
            raise Unsupported("try shape")
        v1, a1, f1 = strp(s.body)
        v2, a2, f2 = strp(s.handlers[0].body)
        if v1 != v2 or ast.dump(a1) != ast.dump(a2):
            raise Unsupported("try/except assign different things")
        self.uses_bind = True
        return f"{pad}let {self.local(v1)} ← CR.PyS.strptime2 c {self.e(a1)} {q(f1)} {q(f2)}\n"

    def opt_test(self, test):
        """(`is not None`?, dotted, lean option expr, bound name) for `X is None` / `X is not None` on a declared optional."""
        if isinstance(test, ast.Compare) and len(test.ops) == 1 and isinstance(test.ops[0], (ast.Is, ast.IsNot)) \
                and isinstance(test.comparators[0], ast.Constant) and test.comparators[0].value is None:
            d = self.dotted(test.left)
            if d in self.bound:
                return None
            if d in self.t.optexprs:
                return isinstance(test.ops[0], ast.IsNot), d, self.t.optexprs[d][0], self.t.optexprs[d][1]
            if isinstance(test.left, ast.Name) and test.left.id in self.t.optvars:
                return isinstance(test.ops[0], ast.IsNot), d, self.local(d), self.local(d)
        return None

    def if_stmt(self, s, rest, ind, tail, known):
        pad = "  " * ind
        body, orelse = list(s.body), list(s.orelse)

        def noop(x):
            return isinstance(x, ast.Pass) or (isinstance(x, ast.Expr) and isinstance(x.value, ast.Call)
                                               and self.dotted(x.value.func) in ERR)
        if all(noop(x) for x in body + orelse) and not any(isinstance(x, ast.Call) for x in ast.walk(s.test)):
            return self.block(rest, ind, tail, known)      # e.g. an exception object that is built but never raised
        ot = self.opt_test(s.test)
        if ot and not ot[0]:
            body, orelse = orelse, body          # `is None`: the some-branch is the else part
        joins = not (self.has_return(body) or self.has_return(orelse))
        if joins:
            # no branch leaves the function: the branches rebind some known names and control joins again
            muts = [x for x in self.assigned(body + orelse) if x in known]
            if not muts:
                raise Unsupported("if without effect on bound names")
            tup = lambda xs: xs[0] if len(xs) == 1 else "(" + ", ".join(xs) + ")"    # noqa: E731
            names = [self.local(x) for x in muts]
            self.uses_bind = True
            if ot:
                _, d, opt, bv = ot
                retyped = isinstance(s.test.left, ast.Name) and s.test.left.id in muts     # the tested name itself is rebound
                some_tail = "pure " + tup([f"(some {x})" if (retyped and x == self.local(d)) else x for x in names])
                none_tail = "pure " + tup(["none" if (retyped and x == self.local(d)) else x for x in names])
                self.bound[d] = bv
                try:
                    a = self.block(body, ind + 2, some_tail, known)
                finally:
                    del self.bound[d]
                b = self.block(orelse, ind + 2, none_tail, known)
                head = f"{pad}let {tup(names)} ← (match {opt} with\n{pad}  | some {bv} => do\n{a}\n{pad}  | none => do\n{b})\n"
            else:
                a = self.block(body, ind + 2, "pure " + tup(names), known)
                b = self.block(orelse, ind + 2, "pure " + tup(names), known)
                head = f"{pad}let {tup(names)} ← (if {self.e(s.test)} then do\n{a}\n{pad}  else do\n{b})\n"
            return head + self.block(rest, ind, tail, known)
        # some branch returns / raises: continuation-passing (the rest follows every branch that falls through)
        then_rest = [] if self.returns2(body) else rest
        else_rest = [] if (orelse and self.returns2(orelse)) else rest
        if ot:
            _, d, opt, bv = ot
            self.bound[d] = bv
            try:
                a = self.block(body + then_rest, ind + 1, tail, known)
            finally:
                del self.bound[d]
            b = self.block(orelse + else_rest, ind + 1, tail, known)
            return f"{pad}match {opt} with\n{pad}| some {bv} =>\n{a}\n{pad}| none =>\n{b}"
        a = self.block(body + then_rest, ind + 1, tail, known)
        b = self.block(orelse + else_rest, ind + 1, tail, known)
        return f"{pad}if {self.e(s.test)} then\n{a}\n{pad}else\n{b}"

    def returns2(self, stmts):
        if not stmts:
            return False
        s = stmts[-1]
        if isinstance(s, (ast.Return, ast.Raise)):
            return True
        if isinstance(s, ast.If):
            return self.returns2(s.body) and bool(s.orelse) and self.returns2(s.orelse)
        return False

    def for_stmt(self, s, rest, ind, tail, known):
        pad = "  " * ind
        if isinstance(s.target, ast.Name):
            var, new = self.local(s.target.id), [s.target.id]
        elif isinstance(s.target, ast.Tuple) and all(isinstance(x, ast.Name) for x in s.target.elts):
            var, new = "(" + ", ".join(self.local(x.id) for x in s.target.elts) + ")", [x.id for x in s.target.elts]
        else:
            raise Unsupported("loop target")
        it = self.iter_expr(s.iter)
        body = list(s.body)
        # search loop:  for x in xs: [if not c: continue]* return v      ==>   match xs.find? (fun x => c && ..) with ...
        conds, i = [], 0
        while i < len(body) and isinstance(body[i], ast.If) and not body[i].orelse and len(body[i].body) == 1 \
                and isinstance(body[i].body[0], ast.Continue):
            conds.append(body[i].test)
            i += 1
        if i == len(body) - 1 and isinstance(body[i], ast.Return) and isinstance(s.target, ast.Name):
            before = self.uses_bind
            self.uses_bind = False
            cs = []
            for c in conds:
                cs.append(self.e(c.operand) if isinstance(c, ast.UnaryOp) and isinstance(c.op, ast.Not) else f"(!{self.e(c)})")
            if self.uses_bind:
                raise Unsupported("partial operation in a search-loop condition")
            self.uses_bind = before
            pred = " && ".join(cs) if cs else "true"
            found = self.block([body[i]], ind + 1, tail, known | set(new))
            after = self.block(rest, ind + 1, tail, known)
            return f"{pad}match ({it}).find? (fun {var} => {pred}) with\n{pad}| some {var} =>\n{found}\n{pad}| none =>\n{after}"
        if self.has_return(body) or any(isinstance(n, (ast.Continue, ast.Break)) for b in body for n in ast.walk(b)):
            raise Unsupported("loop with return / continue / break")
        muts = [x for x in self.assigned(body) if x in known]
        if len(muts) != 1:
            raise Unsupported(f"loop mutates {muts}")
        acc = self.local(muts[0])
        before = self.uses_bind
        self.uses_bind = False
        inner = self.block(body, ind + 2, f"pure {acc}", known | set(new))
        monadic = self.uses_bind
        self.uses_bind = before or monadic
        self.uses_bind = True
        return (f"{pad}let {acc} ← ({it}).foldlM (fun {acc} {var} => do\n{inner}) {acc}\n"
                + self.block(rest, ind, tail, known))

    def function(self, fn):
        t = self.t
        body = self.block(list(fn.body), 1)
        binders = " ".join(f"({p})" for _, p in t.params)
        if t.monadic:
            head = f"def {t.name} {binders} : Res ({t.ret}) := do\n{body}\n"
        else:
            if self.uses_bind:
                raise Unsupported("partial operation in a target declared pure")
            head = f"def {t.name} {binders} : {t.ret} := Id.run do\n{body}\n"
        doc = f"/-- {t.file}: {(t.cls + '.') if t.cls else ''}{t.func}{(' — ' + t.doc) if t.doc else ''} -/\n"
        return doc + head


# ---------------------------------------------------------------------------------------------------------- the units

TT = "CR.Sol.TType"


def func_targets(tree):
    vm = [n for n, _ in enum_members(tree, "VehicleModel")]
    sf = [n for n, _ in enum_members(tree, "StateFields")]
    vm_names = {f"VehicleModel.{m}": f"CR.Sol.VModel.{m}" for m in vm if m in ("PM", "ST", "KS", "MB", "KST")}
    enums = {"StateFields": ("Sol_StateFields", sf),
             "XMLStateFields": ("Sol_XMLStateFields", [n for n, _ in enum_members(tree, "XMLStateFields")]),
             "SupportedCostFunctions": ("Sol_SupportedCostFunctions", [n for n, _ in enum_members(tree, "SupportedCostFunctions")])}
    C = "c : CR.Sol.Codec"
    ts = [
        T14("Sol_StateType_fields", SOL, "fields", "StateType", [("self", f"self : {TT}")], "List String",
            attrs={("self", "name"): "self.name"}, enums=enums, monadic=True, doc="property; a member is denoted by the model's TType"),
        T14("Sol_StateType_xml_fields", SOL, "xml_fields", "StateType", [("self", f"self : {TT}")], "List CR.Sol.XName",
            attrs={("self", "name"): "self.name"}, enums=enums, monadic=True, doc="property"),
        T14("Sol_TrajectoryType_state_type", SOL, "state_type", "TrajectoryType", [("self", f"self : {TT}")], TT,
            attrs={("self", "name"): "self.name"}, tenums={"StateType": "Sol_StateType"}, monadic=True, doc="property"),
        T14("Sol_valid_vehicle_model", SOL, "valid_vehicle_model", "TrajectoryType",
            [("self", f"self : {TT}"), ("vehicle_model", "vehicle_model : CR.Sol.VModel")], "Bool",
            attrs={("self", "name"): "self.name", ("vehicle_model", "name"): "vehicle_model.name"}, names=vm_names),
        T14("Sol_check_cost_supported", SOL, "_check_cost_supported", "PlanningProblemSolution",
            [("vehicle_model", "vehicle_model : CR.Sol.VModel"), ("cost_function", "cost_function : CR.Sol.Cost")], "Bool",
            attrs={("vehicle_model", "name"): "vehicle_model.name"}, coerce={"cost_function": "cost_function.name"},
            enums=enums, monadic=True, doc="a CostFunction member is denoted by its name in the membership test"),
        T14("Sol_check_trajectory_supported", SOL, "_check_trajectory_supported", "PlanningProblemSolution",
            [("vehicle_model", "vehicle_model : CR.Sol.VModel"), ("trajectory_type", f"trajectory_type : {TT}")], "Bool",
            raw_calls={"trajectory_type.valid_vehicle_model": "(Sol_valid_vehicle_model trajectory_type {0})"}, monadic=True),
        T14("Sol_get_state_type", SOL, "get_state_type", "StateType",
            [("state", "state : CR.Sol.State"), ("desired_vehicle_model", "desired_vehicle_model : Option CR.Sol.VModel")], TT,
            names={"state.attributes": "(CR.Sol.attrsOf state)"},
            attrs={("desired_vehicle_model", "name"): "desired_vehicle_model.name", ("state_fields", "value"): "state_fields.2",
                   ("state_fields", "name"): "state_fields.1"},
            optvars=["desired_vehicle_model"], listvars=["state_fields_all", "state_fields_add"],
            accs={"state_fields_add": "String × List String"}, enums=enums, tenums={"cls": "Sol_StateType"}, monadic=True,
            doc="a StateFields member is its (name, value) row; the returned StateType member is denoted by the model's TType"),
        T14("Sol_create_sub_element", SOL, "_create_sub_element", "CommonRoadSolutionWriter",
            [(None, C), ("name", "name : String"), ("value", "value : CR.Sol.FVal")], "CR.Sol.Leaf",
            elements={"element": "(CR.Sol.Leaf.mk {x} \"\")"}, assign_attrs={("element", "text"): ("{{ element with text := {v} }}",)},
            valuevars=["value"], type_tests={("value", "float"): "(CR.PyS.isFloat value)"},
            raw_calls={"np.float64": "(CR.PyS.npFloat64 {0})"}, strcalls={"str#value": "(← CR.PyS.str c {x})"}, monadic=True),
        T14("Sol_create_state_node", SOL, "_create_state_node", "CommonRoadSolutionWriter",
            [(None, C), ("state_type", f"state_type : {TT}"), ("state", "state : CR.Sol.State")], "CR.Sol.StateNode",
            elements={"state_node": "(CR.Sol.StateNode.mk {x} [])"},
            appends={"state_node": "{{ {a} with leaves := {a}.leaves ++ [{v}] }}"},
            names={"state_type.value": "(← CR.PyS.enumGet Sol_StateType state_type.name)",
                   "state_type.xml_fields": "(← Sol_StateType_xml_fields state_type)",
                   "state_type.fields": "(← Sol_StateType_fields state_type)"},
            tuplevars=["mapping"], valuevars=["state_val"], type_tests={("xml_name", "tuple"): "(CR.PyS.isTuple xml_name)"},
            coerce={"xml_name": "(← CR.PyS.nameOf xml_name)", "xml_name#iter": "(CR.PyS.tupleNames xml_name)"},
            raw_calls={"getattr": "(← CR.PyS.getattr {0} {1})", "cls._create_sub_element": "(← Sol_create_sub_element c {0} {1})"},
            monadic=True),
        T14("Sol_create_root_node", SOL, "_create_root_node", "CommonRoadSolutionWriter",
            [(None, C), (None, "auto : Option String"), ("solution", "solution : CR.Sol.Solution")], "String × List (String × String)",
            elements={"root_node": "(({x} : String), ([] : List (String × String)))"},
            dictsets={"root_node": "({a}.1, CR.PyS.setAttr {a}.2 {k} {v})"},
            names={"solution.benchmark_id": "(CR.Sol.benchString (CR.Sol.benchOf solution))", "solution.processor_name": "solution.proc"},
            optexprs={"solution.computation_time": ("solution.ct", "computation_time_"), "solution.date": ("solution.date", "date_"),
                      "solution.processor_name": ("solution.proc", "processor_name_")},
            optvars=["processor_name"], strcalls={"solution.computation_time": "(c.fmtNum {x})"},
            raw_calls={"solution.date.strftime": "(CR.PyS.strftime c date_ {0})", "cls._get_processor_name": "auto"},
            monadic=True, doc="(tag, attribute dict in `set` order); `cls._get_processor_name()` is the parameter `auto`"),
        T14("Sol_parse_header", SOL, "_parse_header", "CommonRoadSolutionReader",
            [(None, C), ("root_node", "root_node : List (String × String)")],
            "Option String × Option CR.Sol.Date × Option CR.Sol.Tok × Option String",
            optvars=["date", "computation_time"],
            raw_calls={"root_node.get": "(CR.PyS.dictGet root_node {0})", "root_node.attrib.get": "(CR.PyS.dictGet root_node {0})",
                       "float": "(← CR.PyS.float c {0})"},
            kwdefaults={"root_node.attrib.get": [("key", "?"), ("default", "none")], "root_node.get": [("key", "?"), ("default", "none")]},
            monadic=True, doc="the root element is its attribute dict"),
        T14("Sol_parse_sub_element", SOL, "_parse_sub_element", "CommonRoadSolutionReader",
            [(None, C), ("state_node", "state_node : List CR.Sol.Leaf"), ("name", "name : String"), ("as_float", "as_float : Bool")],
            "CR.Sol.FVal", optvars=["elem"], attrs={("elem", "text"): "elem.text"},
            raw_calls={"state_node.find": "(CR.Sol.findLeaf {0} state_node)", "float": "(CR.Sol.FVal.num (← CR.PyS.float c {0}))",
                       "int": "(CR.Sol.FVal.time (← CR.PyS.int c {0}))"},
            monadic=True, doc="a state node is the list of its children; the float / int result is an FVal"),
        T14("Sol_parse_state", SOL, "_parse_state", "CommonRoadSolutionReader",
            [(None, C), ("state_type", f"state_type : {TT}"), ("state_node", "state_node : CR.Sol.StateNode")], "CR.Sol.State",
            attrs={("state_node", "tag"): "state_node.tag"},
            names={"state_type.value": "(← CR.PyS.enumGet Sol_StateType state_type.name)",
                   "state_type.xml_fields": "(← Sol_StateType_xml_fields state_type)",
                   "state_type.fields": "(← Sol_StateType_fields state_type)", "state_types": "Sol_reader_state_types"},
            tuplevars=["mapping"], accs={"state_vals": "String × CR.Sol.FVal"},
            type_tests={("xml_name", "tuple"): "(CR.PyS.isTuple xml_name)"},
            coerce={"xml_name": "(← CR.PyS.nameOf xml_name)", "xml_name#iter": "(CR.PyS.tupleNames xml_name)"},
            strwrap={"xml_name": "(CR.Sol.XName.one {s})"},
            raw_calls={"cls._parse_sub_element": "(← Sol_parse_sub_element c state_node.leaves {1} {2})",
                       "np.array": "(← CR.PyS.npArray2 {0})"},
            kwdefaults={"cls._parse_sub_element": [("state_node", "?"), ("name", "?"), ("as_float", "true")]},
            monadic=True, doc="`state_types[state_type](**state_vals)` is CR.PyS.construct over the extracted key table"),
    ]
    return ts


class TrParseState(TrS):
    """_parse_state ends in `return state_types[state_type](**state_vals)`."""

    def e(self, n):
        if isinstance(n, ast.Call) and isinstance(n.func, ast.Subscript) and self.dotted(n.func.value) == "state_types" \
                and not n.args and len(n.keywords) == 1 and n.keywords[0].arg is None:
            self.uses_bind = True
            return f"(← CR.PyS.construct Sol_reader_state_types {self.e(n.func.slice)} {self.e(n.keywords[0].value)})"
        return super().e(n)


def units(repo):
    """[(unit name, thunk -> lean text)] in emission order."""
    src = open(os.path.join(repo, SOL), encoding="utf-8").read()
    tree = ast.parse(src)
    us = [
        ("Sol_VehicleModel", lambda: table_int(tree, "VehicleModel", "Sol_VehicleModel")),
        ("Sol_VehicleType", lambda: table_int(tree, "VehicleType", "Sol_VehicleType")),
        ("Sol_CostFunction", lambda: table_int(tree, "CostFunction", "Sol_CostFunction")),
        ("Sol_StateFields", lambda: table_str_lists(tree, "StateFields", "Sol_StateFields")),
        ("Sol_XMLStateFields", lambda: table_xml_lists(tree, "XMLStateFields", "Sol_XMLStateFields")),
        ("Sol_StateType", lambda: table_str(tree, "StateType", "Sol_StateType")),
        ("Sol_TrajectoryType", lambda: table_str(tree, "TrajectoryType", "Sol_TrajectoryType")),
        ("Sol_SupportedCostFunctions", lambda: table_supported_costs(tree, "Sol_SupportedCostFunctions")),
        ("Sol_reader_state_types", lambda: table_reader_state_types(tree, "Sol_reader_state_types")),
    ]

    def state_classes():
        stree = ast.parse(open(os.path.join(repo, STATE), encoding="utf-8").read())
        return table_state_classes(tree, stree, "Sol_state_class_fields")
    us.append(("Sol_state_class_fields", state_classes))

    def mk(t):
        def run():
            fn = find_func(tree, t.cls, t.func, t.setter)
            if any(a.arg not in [p for p, _ in t.params if p] + ["self", "cls"] for a in fn.args.args):
                raise Unsupported("parameter list changed")
            tr = TrParseState(t) if t.name == "Sol_parse_state" else TrS(t)
            return tr.function(fn)
        return run
    try:
        fts = func_targets(tree)
    except Unsupported:
        fts = []
    for t in fts:
        us.append((t.name, mk(t)))
    return us


FUNC_NAMES = ["Sol_StateType_fields", "Sol_StateType_xml_fields", "Sol_TrajectoryType_state_type", "Sol_valid_vehicle_model",
              "Sol_check_cost_supported", "Sol_check_trajectory_supported", "Sol_get_state_type", "Sol_create_sub_element",
              "Sol_create_state_node", "Sol_create_root_node", "Sol_parse_header", "Sol_parse_sub_element", "Sol_parse_state"]

HEADER = """/-
  Gen.SrcC14 — GENERATED on every run by harness/translate/src_c14.py from the current source of
  commonroad/common/solution.py (and the state classes of commonroad/scenario/state.py). Do not edit.
-/
import CRModel.PyExtC14
set_option linter.unusedVariables false
namespace Gen
open CR

"""


def _lg(name):
    return os.path.join(LASTGOOD, "C14_" + name + ".lean")


def regenerate(repo, gen_dir):
    os.makedirs(gen_dir, exist_ok=True)
    os.makedirs(LASTGOOD, exist_ok=True)
    status, chunks = {}, []
    try:
        us = units(repo)
    except (Unsupported, SyntaxError, OSError) as e:
        us = []
        whole = f"{type(e).__name__}: {e}"
    else:
        whole = None
    got = {n: f for n, f in us}
    order = [n for n, _ in us] if us else None
    if order is None or any(n not in got for n in FUNC_NAMES):
        order = ["Sol_VehicleModel", "Sol_VehicleType", "Sol_CostFunction", "Sol_StateFields", "Sol_XMLStateFields", "Sol_StateType",
                 "Sol_TrajectoryType", "Sol_SupportedCostFunctions", "Sol_reader_state_types", "Sol_state_class_fields"] + FUNC_NAMES
    for name in order:
        key = "C14." + name
        try:
            if name not in got:
                raise Unsupported(whole or "unit not produced")
            txt = got[name]()
            status[key] = "ok"
        except (Unsupported, SyntaxError, KeyError, IndexError, AttributeError, OSError, TypeError, ValueError) as e:
            if os.path.exists(_lg(name)):
                txt = open(_lg(name)).read()
                status[key] = f"lost ({type(e).__name__}: {e}); last good translation used"
            else:
                txt = f"-- {name}: not translatable ({e})\n"
                status[key] = f"lost ({type(e).__name__}: {e}); no fallback"
        chunks.append(txt)
    new = HEADER + "\n".join(chunks) + "\nend Gen\n"
    path = os.path.join(gen_dir, "SrcC14.lean")
    old = open(path).read() if os.path.exists(path) else None
    if old != new:
        with open(path, "w") as f:
            f.write(new)
    return status


def update_lastgood(repo):
    os.makedirs(LASTGOOD, exist_ok=True)
    for name, f in units(repo):
        open(_lg(name), "w").write(f())


if __name__ == "__main__":
    import sys
    repo = os.environ.get("VERIF_REPO", "/repo")
    if len(sys.argv) > 1 and sys.argv[1] == "--update-lastgood":
        update_lastgood(repo)
    st = regenerate(repo, os.path.join(os.path.dirname(os.path.dirname(HERE)), "lean", "Gen"))
    for k, v in st.items():
        print(k, v)
