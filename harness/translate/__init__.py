"""Translators: regenerate lean/Gen/ from the working tree of commonroad-io (called by common.run_translators on every run).

Every sub-module `translate/<name>.py` that defines `regenerate(repo, gen_dir) -> dict` is run; the returned dicts
(name -> status string) are merged into the evidence (`coverage.translators`).  A translator that raises is reported as
`lost: ...` (never a verdict); it is expected to leave a usable file in gen_dir itself (committed fall-back copy)."""
from __future__ import annotations

import importlib
import os
import pkgutil


OWNER = {}      # status key -> translator module that produced it (filled by regenerate)


def regenerate(repo: str, gen_dir: str) -> dict:
    os.makedirs(gen_dir, exist_ok=True)
    status = {}
    OWNER.clear()
    here = os.path.dirname(os.path.abspath(__file__))
    for m in sorted(x.name for x in pkgutil.iter_modules([here])):
        mod = importlib.import_module(f"translate.{m}")
        f = getattr(mod, "regenerate", None)
        if f is None:
            continue
        try:
            st = f(repo, gen_dir)
        except Exception as e:  # noqa  -- a lost translator is never a verdict
            st = {m: f"lost: {type(e).__name__}: {e}"}
        for k in st:
            OWNER[k] = m
        status.update(st)
    return status
