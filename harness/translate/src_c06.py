"""py -> Lean translator for the functions property C06 rests on (translator tie T06, DESIGN.md §2 kind 'T').

`regenerate(repo, gen_dir)` parses the CURRENT source of commonroad/scenario/lanelet.py and commonroad/geometry/shape.py with
`ast` and writes one Lean definition per target function to `<gen_dir>/SrcC06.lean` (module `Gen.SrcC06`, namespace `Gen`).
lean/CRProps/T06.lean proves every generated definition equal to the hand model (CRModel/Geom.lean, CRModel/Index.lean), so
`lake build CRProps.T06` re-checks the tie against what the code says NOW, for all inputs.  A function that cannot be translated any
more is never a verdict: its last good translation (harness/translate/lastgood/C06_<name>.lean) is emitted, status `lost (...)`.

Beyond pysrc.Tr this translator handles: methods that change the object (`self.attr = v`, `self.d[k] = v`, `del self.d[k]`, calls of
other translated methods on `self` or on another network object) as state-passing functions; `for` loops as left folds over ALL the
variables the body assigns (monadic folds when the body can raise); `for ...: if c: return v` as `List.findSome?`; a loop whose
body ends in `break` as a fold with a `broken` flag; list / dict comprehensions with `if` and tuple targets; `in` / `not in`;
`x = a and obj.method()` (short circuit around a state change); nested helper functions; float literals as exact rationals.
GEOS / STRtree predicates stay parameters of the generated definitions, exactly as in the model.
"""
from __future__ import annotations

import ast
import os
from fractions import Fraction

from .pysrc import Target, Tr, Unsupported, find_func

HERE = os.path.dirname(os.path.abspath(__file__))
LASTGOOD = os.path.join(HERE, "lastgood")
PREFIX = "C06_"                     # last-good file prefix (keeps the names apart from pysrc's)

LAN = "commonroad/scenario/lanelet.py"
SHP = "commonroad/geometry/shape.py"


class T6(Target):
    def __init__(self, name, file, func, cls=None, params=(), ret=None, *, state=None, fields=None, dicts=None, ignore_attrs=(),
                 ignore_calls=(), scalls=None, tcalls=None, cls_types=None, nested=None, init_state=None, pts=(), ret_state=None,
                 local_types=None, env=None, whole=None, subs=None, closure=(), setters=None, epat=None,
                 sprops=None, **kw):
        super().__init__(name, file, func, cls, params, ret or "Unit", **kw)
        self.state = dict(state or {})          # python variable holding a mutable object -> lean type
        self.fields = dict(fields or {})        # (var, attr) -> lean structure field written by `var.attr = v`
        self.dicts = dict(dicts or {})          # (var, attr) or local name -> 'lan' | 'dict' | 'list' | 'dd'
        self.ignore_attrs = set(ignore_attrs)   # attributes whose assignment is outside the modelled state
        self.ignore_calls = set(ignore_calls)   # calls (as statements) without effect on the modelled state
        self.scalls = dict(scalls or {})        # 'var.method' -> dict(fn, ret(bool), monadic(bool), params[list of kw names])
        self.tcalls = dict(tcalls or {})        # dotted call (or '*.method') -> (lean template with {0} {1} {recv}, monadic)
        self.cls_types = dict(cls_types or {})  # python variable -> set of class names it can be an instance of
        self.nested = dict(nested or {})        # nested function name -> T6
        self.init_state = init_state            # lean text of the uninitialised object at the start of __init__
        self.pts = set(pts)                     # dotted expressions that are 2-vectors (x[0] -> .x, x[1] -> .y)
        self.ret_state = ret_state              # state variable returned together with the value (None: pure function)
        self.local_types = dict(local_types or {})  # local name -> lean type for `x = []` / `x = {}` / `x = defaultdict(list)`
        self.env0 = dict(env or {})
        self.whole = dict(whole or {})          # ast.dump-independent whole-statement patterns: unparse text -> lean statement
        self.ret_self = False
        for (v_, a_), fn_ in (sprops or {}).items():
            self.scalls[f"{v_}.{a_}"] = dict(fn=fn_, ret=True, monadic=False, params=[])
        self.subs = dict(subs or {})            # dotted expr -> (lean template with {i}, monadic) for `expr[i]`
        self.closure = list(closure)            # lean arguments a nested helper takes from the enclosing scope
        self.setters = dict(setters or {})      # (var, attr) -> lean function run by the property assignment `var.attr = v`
        self.epat = dict(epat or {})            # unparse text of an expression -> lean text (fixed idioms)
        self.sprops = dict(sprops or {})        # (var, attr) -> lean function: memoising property whose READ changes the object


class Tr6(Tr):
    def __init__(self, t: T6):
        super().__init__(t)
        self.env = dict(t.env0)     # python name -> lean text (comprehension / loop variables bound to projections)
        self.monadic_ctx = t.monadic
        self.nfresh = 0
        self.defined = {p for p, _ in t.params if p} | set(t.state)
        self.lifted = {}

    def fresh(self, base="e"):
        self.nfresh += 1
        return f"{base}{self.nfresh}_"

    # ---------------------------------------------------------------- expressions
    def e(self, n) -> str:
        t = self.t
        if t.epat and not isinstance(n, (ast.Constant, ast.Name)):
            try:
                u = ast.unparse(n)
            except AttributeError:
                u = None
            if u in t.epat:
                return t.epat[u]
        if isinstance(n, ast.Attribute) and (self.base_name(n.value), n.attr) in self.lifted:
            return self.lifted[(self.base_name(n.value), n.attr)]
        if isinstance(n, ast.Constant) and isinstance(n.value, float):
            f = Fraction(repr(n.value))
            return f"{f.numerator}" if f.denominator == 1 else f"({f.numerator} / {f.denominator} : Rat)"
        if isinstance(n, ast.Constant) and isinstance(n.value, str):
            raise Unsupported("string constant")
        if isinstance(n, ast.Name) and n.id in self.env:
            return self.env[n.id]
        if isinstance(n, ast.Attribute):
            d = self.dotted(n)
            if d in t.names:
                return t.names[d]
            base = self.base_name(n.value)
            if base in self.env and ("*", n.attr) in t.attrs:
                return t.attrs[("*", n.attr)].format(v=self.env[base])
            if base is not None and (base, n.attr) not in t.attrs and ("*", n.attr) in t.attrs and base not in t.state:
                return t.attrs[("*", n.attr)].format(v=self.e(n.value))
        if isinstance(n, ast.BinOp) and isinstance(n.op, ast.Sub) and self.dotted(n.left) in t.pts and self.dotted(n.right) in t.pts:
            return f"(CR.Py06.vsub {self.e(n.left)} {self.e(n.right)})"
        if isinstance(n, ast.UnaryOp) and isinstance(n.op, ast.UAdd):
            return self.e(n.operand)
        if isinstance(n, ast.UnaryOp) and isinstance(n.op, ast.Not):
            v = self.e(n.operand)
            return {"true": "false", "false": "true"}.get(v, f"(!{v})")
        if isinstance(n, ast.BinOp) and isinstance(n.op, ast.Div) and isinstance(n.right, ast.Constant) \
                and isinstance(n.right.value, (int, float)) and not isinstance(n.right.value, bool) and n.right.value != 0:
            return f"({self.e(n.left)} / {self.e(n.right)})"
        if isinstance(n, ast.BoolOp):
            vals = [self.e(v) for v in n.values]
            if isinstance(n.op, ast.And):
                if "false" in vals:
                    return "false"
                vals = [v for v in vals if v != "true"]
                return "true" if not vals else vals[0] if len(vals) == 1 else "(" + " && ".join(vals) + ")"
            if "true" in vals:
                return "true"
            vals = [v for v in vals if v != "false"]
            return "false" if not vals else vals[0] if len(vals) == 1 else "(" + " || ".join(vals) + ")"
        if isinstance(n, ast.Compare) and len(n.ops) == 1 and isinstance(n.ops[0], (ast.In, ast.NotIn)):
            r = n.comparators[0]
            if isinstance(r, ast.Call) and isinstance(r.func, ast.Attribute) and r.func.attr == "keys" and not r.args:
                r = r.value if False else r.func.value
            kind = self.kind_of(r)
            fn = {"lan": "CR.Py06.lanHas", "dict": "CR.Py06.dictHas", "list": "CR.Py06.listHas", "dd": "CR.Py06.dictHas"}.get(kind)
            if fn is None:
                raise Unsupported(f"membership test in {self.dotted(r)}")
            txt = f"({fn} {self.e(r)} {self.e(n.left)})"
            return txt if isinstance(n.ops[0], ast.In) else f"(!{txt})"
        if isinstance(n, ast.List):
            return "[" + ", ".join(self.e(x) for x in n.elts) + "]"
        if isinstance(n, ast.Dict) and not n.keys:
            return "[]"
        if isinstance(n, ast.Subscript):
            d = self.dotted(n.value)
            if d in t.pts and isinstance(n.slice, ast.Constant) and n.slice.value in (0, 1):
                return f"({self.e(n.value)}).{'xy'[n.slice.value]}"
            if d in t.subs:
                tmpl, monadic = t.subs[d]
                if monadic:
                    self.uses_bind = True
                return tmpl.format(i=self.e(n.slice))
            kind = self.kind_of(n.value)
            if kind == "dict":
                self.uses_bind = True
                return f"(← CR.Py06.dictIdx {self.e(n.value)} {self.e(n.slice)})"
            if kind == "dd":
                return f"(CR.Py06.ddGet {self.e(n.value)} {self.e(n.slice)})"
            if kind is not None:
                raise Unsupported(f"subscript of a {kind}")
        if isinstance(n, (ast.ListComp, ast.DictComp, ast.GeneratorExp)):
            return self.comprehension(n)
        return super().e(n)

    def kind_of(self, n):
        t = self.t
        if isinstance(n, ast.Attribute):
            return t.dicts.get((self.base_name(n.value), n.attr))
        if isinstance(n, ast.Name):
            return t.dicts.get(n.id)
        return None

    def bind_target(self, tg, var):
        """Bind a loop / comprehension target (a name or a flat tuple of names) to the lean variable `var`; returns the old env."""
        old = dict(self.env)
        if isinstance(tg, ast.Name):
            self.env[tg.id] = var
        elif isinstance(tg, ast.Tuple) and all(isinstance(x, ast.Name) for x in tg.elts):
            k = len(tg.elts)
            for i, x in enumerate(tg.elts):
                self.env[x.id] = f"{var}.{i + 1}" if k == 2 else (f"{var}" + ".2" * i + (".1" if i < k - 1 else ""))
        else:
            raise Unsupported("loop target")
        return old

    def comprehension(self, n):
        if len(n.generators) != 1:
            raise Unsupported("nested comprehension")
        g = n.generators[0]
        var = self.fresh()
        it = self.iter_expr(g.iter)
        old = self.bind_target(g.target, var)
        try:
            conds = [self.e(c) for c in g.ifs]
            conds = [c for c in conds if c != "true"]
            if isinstance(n, ast.DictComp):
                elt = f"({self.e(n.key)}, {self.e(n.value)})"
            else:
                elt = self.e(n.elt)
        finally:
            self.env = old
        src = f"({it})"
        if conds:
            src = f"(CR.Py06.lfilter {src} (fun {var} => {' && '.join(conds)}))"
        return f"(CR.Py06.lmap {src} (fun {var} => {elt}))"

    def iter_expr(self, n):
        """The list a `for` / comprehension runs over."""
        if isinstance(n, ast.Call) and isinstance(n.func, ast.Attribute) and n.func.attr == "items" and not n.args:
            if self.kind_of(n.func.value) in ("dict", "dd"):
                return self.e(n.func.value)
            raise Unsupported("items() of an unknown dict")
        if isinstance(n, ast.Call) and self.dotted(n.func) == "zip" and len(n.args) == 1 and isinstance(n.args[0], ast.Starred):
            return self.e(n.args[0].value)      # zip(*[[a0, a1, ..], [b0, b1, ..]]) : the list of pairs (the call table hands out pairs)
        return self.e(n)

    def static_isinstance(self, n):
        t = self.t
        v = self.dotted(n.args[0])
        if v in self.env and v in t.cls_types:
            pass
        if v not in t.cls_types:
            raise Unsupported(f"isinstance on untyped {v}")
        a = n.args[1]
        names = {self.dotted(x) for x in (a.elts if isinstance(a, ast.Tuple) else [a])}
        have = set(t.cls_types[v])
        if have <= names:
            return "true"
        if not (have & names):
            return "false"
        raise Unsupported(f"isinstance({v}, ...) is not decided by the declared type")

    def call(self, n):
        t = self.t
        dotted = self.dotted(n.func)
        if dotted == "isinstance" and len(n.args) == 2:
            return self.static_isinstance(n)
        if dotted == "all" and len(n.args) == 1 and isinstance(n.args[0], ast.GeneratorExp):
            g = n.args[0]
            if len(g.generators) == 1 and not g.generators[0].ifs:
                var = self.fresh()
                old = self.bind_target(g.generators[0].target, var)
                try:
                    elt = self.e(g.elt)
                finally:
                    self.env = old
                if elt == "true":
                    return "true"
                return f"(CR.Py06.lall ({self.iter_expr(g.generators[0].iter)}) (fun {var} => {elt}))"
        if dotted == "list" and len(n.args) == 1:
            return self.e(n.args[0])
        if dotted in ("list", "dict") and not n.args:
            return "[]"
        if dotted == "defaultdict" and len(n.args) == 1 and self.dotted(n.args[0]) == "list":
            return "[]"
        if dotted == "id" and len(n.args) == 1:
            return f"({self.e(n.args[0])}).addr"
        if dotted == "enumerate" and len(n.args) == 1:
            return f"(CR.Py06.enumerate {self.e(n.args[0])})"
        if dotted == "np.array" and len(n.args) == 1 and isinstance(n.args[0], ast.List) and n.args[0].elts \
                and all(isinstance(r, ast.List) and len(r.elts) == 2 for r in n.args[0].elts):
            return "[" + ", ".join(f"⟨{self.e(r.elts[0])}, {self.e(r.elts[1])}⟩" for r in n.args[0].elts) + "]"
        if isinstance(n.func, ast.Attribute) and n.func.attr == "values" and not n.args and self.kind_of(n.func.value) in ("dict",):
            return f"(CR.Py06.lmap ({self.e(n.func.value)}) (fun e_ => e_.2))"
        if isinstance(n.func, ast.Attribute) and n.func.attr == "keys" and not n.args and self.kind_of(n.func.value) in ("dict",):
            return f"(CR.Py06.lmap ({self.e(n.func.value)}) (fun e_ => e_.1))"
        spec = t.tcalls.get(dotted)
        recv = None
        if spec is None and isinstance(n.func, ast.Attribute) and ("*." + n.func.attr) in t.tcalls:
            spec = t.tcalls["*." + n.func.attr]
            recv = self.e(n.func.value)
        if spec is not None:
            tmpl, monadic = spec[0], spec[1]
            want_kw = spec[2] if len(spec) > 2 else {}
            for k in n.keywords:
                if k.arg not in want_kw or want_kw[k.arg] != ast.unparse(k.value):
                    raise Unsupported(f"keyword {k.arg}={ast.unparse(k.value)} of {dotted}")
            if set(want_kw) - {k.arg for k in n.keywords}:
                raise Unsupported(f"missing keyword of {dotted}")
            args = [self.e(a) for a in n.args]
            try:
                txt = tmpl.format(*args, recv=recv)
            except IndexError:
                raise Unsupported(f"arity of {dotted}")
            if tmpl.count("{") and tmpl.count("{") - (1 if "{recv}" in tmpl else 0) != len(args):
                raise Unsupported(f"arity of {dotted}")
            if monadic:
                self.uses_bind = True
                return f"(← {txt})"
            return txt if tmpl.startswith("const:") is False else tmpl[6:]
        if dotted in t.nested:
            return f"({t.name}.{dotted} " + " ".join(list(t.nested[dotted].closure) + [self.e(a) for a in n.args]) + ")"
        if dotted in t.scalls:
            raise Unsupported(f"state-changing call {dotted} inside an expression")
        return super().call(n)

    # ---------------------------------------------------------------- statements
    def scall_text(self, n):
        """`var.method(args)` for a translated state-changing method: (var, lean application, returns a value?, monadic?)."""
        spec = self.t.scalls[self.dotted(n.func)]
        var = self.dotted(n.func).split(".")[0]
        names = list(spec.get("params", []))
        args = [self.e(a) for a in n.args]
        kw = {k.arg: self.e(k.value) for k in n.keywords}
        for nm in names[len(args):]:
            if nm in kw:
                args.append(kw.pop(nm))
            elif nm in spec.get("defaults", {}):
                args.append(spec["defaults"][nm])
            else:
                raise Unsupported(f"argument {nm} of {self.dotted(n.func)}")
        if kw or len(args) != len(names):
            raise Unsupported(f"arguments of {self.dotted(n.func)}")
        pre = spec.get("pre", "")
        txt = f"{spec['fn']} {pre}{self.local(var)} " + " ".join(args)
        if spec.get("monadic"):
            self.uses_bind = True
            txt = f"(← {txt.strip()})"
        else:
            txt = f"({txt.strip()})"
        return var, txt, bool(spec.get("ret"))

    def is_scall(self, v):
        return isinstance(v, ast.Call) and self.dotted(v.func) in self.t.scalls

    def assigned(self, stmts):
        """Names (locals and state variables) a statement list may assign, in order of first appearance."""
        out = []

        def add(x):
            if x not in out:
                out.append(x)
        for s in stmts:
            for n in ast.walk(s):
                if isinstance(n, (ast.Assign, ast.AugAssign, ast.AnnAssign)):
                    tgs = n.targets if isinstance(n, ast.Assign) else [n.target]
                    for tg in tgs:
                        for m in ([tg] if not isinstance(tg, ast.Tuple) else tg.elts):
                            if isinstance(m, ast.Name):
                                add(m.id)
                            elif isinstance(m, ast.Attribute) and isinstance(m.value, ast.Name):
                                if m.attr not in self.t.ignore_attrs:
                                    add(m.value.id)
                            elif isinstance(m, ast.Subscript):
                                b = m.value
                                add(b.id if isinstance(b, ast.Name) else b.value.id if isinstance(b, ast.Attribute) and isinstance(b.value, ast.Name) else "?")
                if isinstance(n, ast.Delete):
                    for m in n.targets:
                        if isinstance(m, ast.Subscript):
                            b = m.value
                            add(b.id if isinstance(b, ast.Name) else b.value.id if isinstance(b, ast.Attribute) and isinstance(b.value, ast.Name) else "?")
                if isinstance(n, ast.Call) and isinstance(n.func, ast.Attribute):
                    d = self.dotted(n.func)
                    if d in self.t.scalls:
                        add(d.split(".")[0])
                    elif n.func.attr in ("append", "extend"):
                        b = n.func.value
                        if isinstance(b, ast.Name):
                            add(b.id)
                        elif isinstance(b, ast.Subscript) and isinstance(b.value, ast.Name):
                            add(b.value.id)
        return out

    def finish(self, ind):
        """Text for falling off the end of the function body."""
        pad = "  " * ind
        t = self.t
        if t.ret_state and t.ret == "Unit":
            return pad + self.ret_kw() + self.local(t.ret_state)
        raise Unsupported("path without return")

    def ret_kw(self):
        return "return " if self.monadic_ctx else ""

    def let(self, pad, name, val, rest):
        return f"{pad}let {name} := {val}\n{rest}"

    def note_defined(self, s):
        for n in self.assigned([s]):
            self.defined.add(n)

    def blk(self, stmts, ind, k) -> str:
        """Translate a statement list; `k(ind)` yields the text of whatever follows it."""
        pad = "  " * ind
        t = self.t
        if not stmts:
            return k(ind)
        s, rest = stmts[0], stmts[1:]
        if isinstance(s, ast.AnnAssign) and s.value is not None:
            s = ast.copy_location(ast.Assign(targets=[s.target], value=s.value), s)

        def nxt():
            if not isinstance(s, (ast.For, ast.If, ast.FunctionDef)):
                self.note_defined(s)
            return self.blk(rest, ind, k)
        if t.sprops and isinstance(s, (ast.Assign, ast.Return, ast.Expr, ast.If)):
            pre, s2 = self.lift_sprops(s)
            if pre:
                return self.blk(pre + [s2] + rest, ind, k)
        try:
            src = ast.unparse(s)
        except AttributeError:
            src = None
        if src in t.whole:
            return (f"{pad}{t.whole[src]}\n" if t.whole[src] else "") + nxt()
        if isinstance(s, ast.Expr) and isinstance(s.value, ast.Constant):
            return nxt()
        if isinstance(s, ast.Pass):
            return nxt()
        if isinstance(s, ast.FunctionDef):
            if s.name not in t.nested:
                raise Unsupported(f"nested function {s.name}")
            sub = Tr6(t.nested[s.name])
            self.aux.append(sub.function_text(s, f"{t.name}.{s.name}"))
            return nxt()
        if isinstance(s, ast.Expr) and isinstance(s.value, ast.Call):
            c = s.value
            d = self.dotted(c.func)
            if d == "warnings.warn" or d in t.ignore_calls:
                return nxt()
            if d in t.scalls:
                var, txt, ret = self.scall_text(c)
                return self.let(pad, self.local(var), txt + (".1" if ret else ""), nxt())
            if isinstance(c.func, ast.Attribute) and c.func.attr == "append" and len(c.args) == 1:
                b = c.func.value
                if isinstance(b, ast.Name) and self.kind_of(b) == "list":
                    return self.let(pad, b.id, f"{b.id} ++ [{self.e(c.args[0])}]", nxt())
                if isinstance(b, ast.Subscript) and isinstance(b.value, ast.Name) and self.kind_of(b.value) == "dd":
                    return self.let(pad, b.value.id, f"CR.Py06.ddAppend {b.value.id} {self.e(b.slice)} {self.e(c.args[0])}", nxt())
            if isinstance(c.func, ast.Attribute) and c.func.attr == "extend" and len(c.args) == 1:
                b = c.func.value
                if isinstance(b, ast.Name) and self.kind_of(b) == "list":
                    return self.let(pad, b.id, f"{b.id} ++ {self.e(c.args[0])}", nxt())
            raise Unsupported(f"call statement {d}")
        if isinstance(s, ast.Return):
            if s.value is None:
                raise Unsupported("bare return")
            v = self.e(s.value)
            if t.ret_state:
                v = f"({self.local(t.ret_state)}, {v})"
            return f"{pad}{self.ret_kw()}{v}"
        if isinstance(s, ast.Assert):
            c = self.e(s.test)
            if c == "true":
                return nxt()
            if not self.monadic_ctx:
                raise Unsupported("assert in a pure context")
            self.uses_bind = True
            return f"{pad}CR.Py.assert ({c})\n" + nxt()
        if isinstance(s, ast.AnnAssign) and s.value is not None:
            s = ast.Assign(targets=[s.target], value=s.value)
        if isinstance(s, ast.Assign) and len(s.targets) == 1:
            tg, val = s.targets[0], s.value
            # x = a and obj.method(..)   (short circuit around a state change)
            if isinstance(tg, ast.Name) and isinstance(val, ast.BoolOp) and isinstance(val.op, ast.And) and len(val.values) == 2 \
                    and self.is_scall(val.values[1]):
                new = ast.If(test=val.values[0], body=[ast.Assign(targets=[tg], value=val.values[1])],
                             orelse=[ast.Assign(targets=[tg], value=val.values[0])])
                ast.fix_missing_locations(ast.copy_location(new, s))
                return self.blk([new] + rest, ind, k)
            if isinstance(tg, ast.Name) and self.is_scall(val):
                var, txt, ret = self.scall_text(val)
                if not ret:
                    raise Unsupported("value of a procedure")
                r = self.fresh("r")
                return (f"{pad}let {r} := {txt}\n{pad}let {self.local(var)} := {r}.1\n"
                        + self.let(pad, self.local(tg.id), f"{r}.2", nxt()))
            if isinstance(tg, ast.Name):
                if tg.id in t.local_types and (self.empty_container(val) or (isinstance(val, ast.Call) and self.dotted(val.func) == "defaultdict")):
                    return f"{pad}let {self.local(tg.id)} : {t.local_types[tg.id]} := []\n" + nxt()
                return self.let(pad, self.local(tg.id), self.e(val), nxt())
            if isinstance(tg, ast.Attribute) and isinstance(tg.value, ast.Name):
                var, attr = tg.value.id, tg.attr
                if (var, attr) in t.setters:
                    return self.let(pad, self.local(var), f"{t.setters[(var, attr)]} {self.local(var)} {self.e(val)}", nxt())
                if (var, attr) in t.fields:
                    v = "none" if (isinstance(val, ast.Constant) and val.value is None) else self.e(val)
                    fld, wrap = t.fields[(var, attr)] if isinstance(t.fields[(var, attr)], tuple) else (t.fields[(var, attr)], "{v}")
                    if not (isinstance(val, ast.Constant) and val.value is None):
                        v = wrap.format(v=v)
                    return self.let(pad, self.local(var), f"{{ {self.local(var)} with {fld} := {v} }}", nxt())
                if attr in t.ignore_attrs:
                    return nxt()
                raise Unsupported(f"assignment to {var}.{attr}")
            if isinstance(tg, ast.Subscript) and isinstance(tg.value, ast.Attribute) and isinstance(tg.value.value, ast.Name):
                var, attr = tg.value.value.id, tg.value.attr
                kind = t.dicts.get((var, attr))
                fld = t.fields.get((var, attr))
                if kind == "lan" and fld:
                    if not (isinstance(tg.slice, ast.Attribute) and tg.slice.attr == "lanelet_id"
                            and ast.unparse(tg.slice.value) == ast.unparse(val)):
                        raise Unsupported("store into _lanelets under a key other than the value's lanelet_id")
                    return self.let(pad, self.local(var),
                                    f"{{ {self.local(var)} with {fld} := CR.Py06.lanSet {self.e(tg.value)} {self.e(val)} }}", nxt())
                if kind == "dict" and fld:
                    return self.let(pad, self.local(var),
                                    f"{{ {self.local(var)} with {fld} := CR.Index.dictSet {self.e(tg.value)} {self.e(tg.slice)} {self.e(val)} }}", nxt())
            if isinstance(tg, ast.Subscript) and isinstance(tg.value, ast.Name) and self.kind_of(tg.value) == "dict":
                d = tg.value.id
                return self.let(pad, d, f"CR.Index.dictSet {d} {self.e(tg.slice)} {self.e(val)}", nxt())
            if isinstance(tg, ast.Tuple) and all(isinstance(x, ast.Name) for x in tg.elts):
                names = ", ".join(self.local(x.id) for x in tg.elts)
                return f"{pad}let ({names}) := {self.e(val)}\n" + nxt()
            raise Unsupported("assignment target")
        if isinstance(s, ast.Delete) and len(s.targets) == 1 and isinstance(s.targets[0], ast.Subscript):
            tg = s.targets[0]
            if isinstance(tg.value, ast.Attribute) and isinstance(tg.value.value, ast.Name):
                var, attr = tg.value.value.id, tg.value.attr
                kind, fld = t.dicts.get((var, attr)), t.fields.get((var, attr))
                fn = {"lan": "CR.Py06.lanDel", "dict": "CR.Py06.dictDel"}.get(kind)
                if fn and fld:
                    if not self.monadic_ctx:
                        raise Unsupported("del in a pure context")
                    self.uses_bind = True
                    return self.let(pad, self.local(var),
                                    f"{{ {self.local(var)} with {fld} := (← {fn} {self.e(tg.value)} {self.e(tg.slice)}) }}", nxt())
            if isinstance(tg.value, ast.Name) and (tg.value.id, ast.unparse(tg.slice)) in t.fields:
                fld = t.fields[(tg.value.id, ast.unparse(tg.slice))]
                return self.let(pad, tg.value.id, f"{{ {tg.value.id} with {fld} := none }}", nxt())
            raise Unsupported("del target")
        if isinstance(s, ast.If) and isinstance(s.test, ast.UnaryOp) and isinstance(s.test.op, ast.Not) and s.orelse:
            # normal form: `if not c: A else: B`  ==>  `if c: B else: A`
            s = ast.copy_location(ast.If(test=s.test.operand, body=s.orelse, orelse=s.body), s)
        if isinstance(s, ast.If):
            test = self.e(s.test)
            body_k = (lambda i: self.blk(rest, i, k))
            if test == "true":
                return self.blk(list(s.body), ind, (lambda i: "") if self.returns(s.body) else body_k)
            if test == "false":
                return self.blk(list(s.orelse), ind, (lambda i: "") if s.orelse and self.returns(s.orelse) else body_k)
            then = self.blk(list(s.body), ind + 1, body_k)
            els = self.blk(list(s.orelse), ind + 1, body_k)
            return f"{pad}if {test} then\n{then}\n{pad}else\n{els}"
        if isinstance(s, ast.For) and not s.orelse:
            return self.loop(s, rest, ind, k)
        raise Unsupported(f"statement {type(s).__name__}")

    def lift_sprops(self, s):
        """Reads of memoising properties (`self.vertices`) change the object: hoist each into `tmp = self.vertices()` before `s`."""
        import copy as _copy
        t, me, pre = self.t, self, []

        class L(ast.NodeTransformer):
            def visit_Call(self, n):
                if isinstance(n.func, ast.Attribute) and isinstance(n.func.value, ast.Name) and (n.func.value.id, n.func.attr) in t.sprops \
                        and not n.args:
                    return n
                return self.generic_visit(n)

            def visit_Attribute(self, n):
                self.generic_visit(n)
                if isinstance(n.ctx, ast.Load) and isinstance(n.value, ast.Name) and (n.value.id, n.attr) in t.sprops:
                    tmp = me.fresh("p")
                    pre.append(ast.Assign(targets=[ast.Name(id=tmp, ctx=ast.Store())],
                                          value=ast.Call(func=ast.Attribute(value=ast.Name(id=n.value.id, ctx=ast.Load()), attr=n.attr,
                                                                            ctx=ast.Load()), args=[], keywords=[])))
                    return ast.Name(id=tmp, ctx=ast.Load())
                return n
        s2 = _copy.deepcopy(s)
        if isinstance(s2, ast.If):
            s2.test = L().visit(s2.test)
        else:
            s2.value = L().visit(s2.value) if s2.value is not None else None
        for x in pre + [s2]:
            ast.fix_missing_locations(ast.copy_location(x, s))
        return pre, s2

    def returns(self, stmts):
        return bool(stmts) and (isinstance(stmts[-1], ast.Return) or (
            isinstance(stmts[-1], ast.If) and self.returns(stmts[-1].body) and bool(stmts[-1].orelse) and self.returns(stmts[-1].orelse)))

    def in_ctx(self, monadic, f):
        old = self.monadic_ctx
        self.monadic_ctx = monadic
        try:
            return f()
        finally:
            self.monadic_ctx = old

    def loop(self, s, rest, ind, k):
        pad = "  " * ind
        body = list(s.body)
        nxt = lambda: self.blk(rest, ind, k)  # noqa: E731
        x = self.fresh("x")
        # (1) search loop:  for v in xs: if c: return r          ==>  match xs.findSome? (fun v => if c then some r else none)
        if len(body) == 1 and isinstance(body[0], ast.If) and not body[0].orelse and len(body[0].body) == 1 \
                and isinstance(body[0].body[0], ast.Return) and body[0].body[0].value is not None:
            it = self.iter_expr(s.iter)
            old = self.bind_target(s.target, x)
            before = self.uses_bind
            self.uses_bind = False
            try:
                c, r = self.e(body[0].test), self.e(body[0].body[0].value)
                if self.uses_bind:
                    raise Unsupported("partial operation in a search loop")
            finally:
                self.env = old
                self.uses_bind = before
            if self.t.ret_state:
                raise Unsupported("early return from a state-changing method")
            got = self.fresh("r")
            return (f"{pad}match CR.Py06.lfindSome ({it}) (fun {x} => if {c} then some {r} else none) with\n"
                    f"{pad}| some {got} => {self.ret_kw()}{got}\n{pad}| none =>\n" + self.blk(rest, ind + 1, k))
        accs = [a for a in self.assigned(body) if a != "?" and a in self.defined]
        accs = [a for a in self.t.state if a in accs] + sorted(a for a in accs if a not in self.t.state)   # canonical order
        if "?" in self.assigned(body) or not accs:
            raise Unsupported("loop without a recognisable accumulator")
        brk = False
        # (2) loop left by `break` as the last statement of an `if` that is the last statement of the body
        if isinstance(body[-1], ast.If) and not body[-1].orelse and isinstance(body[-1].body[-1], ast.Break):
            brk = True
            body = body[:-1] + [ast.If(test=body[-1].test, body=body[-1].body[:-1] + [ast.Assign(targets=[ast.Name(id="broken_")],
                                                                                               value=ast.Constant(value=True))], orelse=[])]
            accs = accs + ["broken_"]
        if any(isinstance(n, (ast.Break, ast.Continue, ast.Return)) for b in body for n in ast.walk(b)):
            raise Unsupported("break / continue / return inside a loop")
        accs_l = [self.local(a) for a in accs]
        tup = accs_l[0] if len(accs_l) == 1 else "(" + ", ".join(accs_l) + ")"
        a = self.fresh("a")
        it = self.iter_expr(s.iter)

        def unpack(p):
            if len(accs_l) == 1:
                return ""
            out = ""
            for i, nm in enumerate(accs_l):
                proj = f"{a}" + ".2" * i + (".1" if i < len(accs_l) - 1 else "")
                out += f"{p}let {nm} := {proj}\n"
            return out

        def gen(monadic):
            old = self.bind_target(s.target, x)
            self.uses_bind = False
            try:
                def run():
                    inner = self.blk(body, ind + 2, lambda i: "  " * i + self.ret_kw() + tup)
                    if brk:
                        p2 = "  " * (ind + 2)
                        inner = f"{p2}if broken_ then\n{p2}  {self.ret_kw()}{tup}\n{p2}else\n" + \
                            "\n".join("  " + ln for ln in inner.split("\n"))
                    return inner
                txt = self.in_ctx(monadic, run)
                return txt, self.uses_bind
            finally:
                self.env = old
        before = self.uses_bind
        txt, partial = gen(False)
        monadic = False
        if partial:
            if not self.monadic_ctx:
                raise Unsupported("partial operation inside a loop of a pure function")
            txt, _ = gen(True)
            monadic = True
        self.uses_bind = before or monadic
        arg = accs_l[0] if len(accs_l) == 1 else a
        pin = "  " * (ind + 2)
        head = f"fun {arg} {x} =>" + (" do" if monadic else "")
        init = tup
        pre = f"{pad}let broken_ := false\n" if brk else ""
        if monadic:
            bind = f"{pre}{pad}let {arg} ← CR.Py06.lfoldlM ({it}) {init} ({head}\n{unpack(pin)}{txt})\n"
        else:
            bind = f"{pre}{pad}let {arg} := CR.Py06.lfoldl ({it}) {init} ({head}\n{unpack(pin)}{txt})\n"
        return bind + unpack(pad) + nxt()

    # ---------------------------------------------------------------- whole function
    def function_text(self, fn: ast.FunctionDef, name=None) -> str:
        t = self.t
        name = name or t.name
        body = self.blk(list(fn.body), 1, self.finish)
        if t.init_state is not None:
            sv = t.ret_state
            body = f"  let {sv} : {t.state[sv]} := {t.init_state}\n" + body
        binders = " ".join(f"({p})" for _, p in t.params)
        ret = t.ret
        if t.ret_state:
            ret = t.state[t.ret_state] if t.ret == "Unit" else f"{t.state[t.ret_state]} × {t.ret}"
        if t.monadic:
            head = f"def {name} {binders} : Res ({ret}) := do\n{body}\n"
        else:
            if self.uses_bind:
                raise Unsupported("partial operation in a target declared pure")
            head = f"def {name} {binders} : {ret} :=\n{body}\n"
        doc = f"/-- {t.file}: {(t.cls + '.') if t.cls else ''}{t.func}{(' — ' + t.doc) if t.doc else ''} -/\n"
        return "".join(a + "\n" for a in self.aux) + doc + head


# ---------------------------------------------------------------------------------------------------- structural extraction

def polygon_sites(tree):
    """Every `self._polygon = <expr>` in class Lanelet: (enclosing function, expr)."""
    out = []
    for c in tree.body:
        if isinstance(c, ast.ClassDef) and c.name == "Lanelet":
            for f in c.body:
                if isinstance(f, ast.FunctionDef):
                    for n in ast.walk(f):
                        if isinstance(n, ast.Assign) and len(n.targets) == 1 and isinstance(n.targets[0], ast.Attribute) \
                                and n.targets[0].attr == "_polygon" and isinstance(n.targets[0].value, ast.Name) and n.targets[0].value.id == "self":
                            out.append((f.name, n.value))
    return out


def polygon_expr(n, names):
    """numpy expression building the lanelet polygon ring -> lean list expression."""
    if isinstance(n, ast.Call):
        f = ast.unparse(n.func)
        if f == "Polygon" and len(n.args) == 1 and not n.keywords:
            return polygon_expr(n.args[0], names)
        if f in ("np.concatenate", "np.vstack") and len(n.args) == 1 and isinstance(n.args[0], (ast.Tuple, ast.List)) and not n.keywords:
            return "(" + " ++ ".join(polygon_expr(x, names) for x in n.args[0].elts) + ")"
        if f == "np.flip" and len(n.args) == 2 and ast.unparse(n.args[1]) == "0" and not n.keywords:
            return f"({polygon_expr(n.args[0], names)}).reverse"
        if f == "np.flipud" and len(n.args) == 1:
            return f"({polygon_expr(n.args[0], names)}).reverse"
    if isinstance(n, ast.Subscript) and ast.unparse(n.slice) == "::-1":
        return f"({polygon_expr(n.value, names)}).reverse"
    src = ast.unparse(n)
    if src in names:
        return names[src]
    raise Unsupported(f"polygon expression {src}")


def lanelet_polygon_defs(repo):
    tree = ast.parse(open(os.path.join(repo, LAN), encoding="utf-8").read())
    names = {"self.right_vertices": "right", "self._right_vertices": "right", "self.left_vertices": "left", "self._left_vertices": "left",
             "right_vertices": "right", "left_vertices": "left"}
    sites = polygon_sites(tree)
    if not sites:
        raise Unsupported("no assignment to Lanelet._polygon found")
    exprs = [polygon_expr(v, names) for _, v in sites]
    rows = ", ".join(f"(\"{f}\", {x})" for (f, _), x in zip(sites, exprs))
    return ("/-- lanelet.py: every `self._polygon = ...` of class Lanelet (enclosing method, ring built from the two boundaries) — "
            "structural extraction -/\n"
            f"def Lanelet_polygon_sites (left right : List CR.Geom.Pt) : List (String × List CR.Geom.Pt) :=\n  [{rows}]\n")


# ---------------------------------------------------------------------------------------------------- targets

NET = "CR.Index.Net"
NET_ATTRS = {("self", "_lanelets"): "self.lanelets", ("self", "_buffered_polygons"): "self.buffered", ("self", "_strtee"): "self.tree",
             ("self", "_lanelet_id_index_by_id"): "self.idOf", ("self", "lanelets"): "self.lanelets"}
NET_FIELDS = {("self", "_lanelets"): "lanelets", ("self", "_buffered_polygons"): "buffered", ("self", "_strtee"): "tree",
              ("self", "_lanelet_id_index_by_id"): "idOf"}
NET_DICTS = {("self", "_lanelets"): "lan", ("self", "_buffered_polygons"): "dict", ("self", "_lanelet_id_index_by_id"): "dict"}
NET_IGNORE = ["_information", "_intersections", "_traffic_signs", "_traffic_lights", "_areas"]
LANELET_NAMES = {"lanelet.lanelet_id": "lanelet.id", "lanelet.polygon.shapely_object": "lanelet.poly",
                 "la.lanelet_id": "la.id", "la.polygon.shapely_object": "la.poly"}
CLEANUPS = ["self.cleanup_lanelet_references", "lanelet_network.cleanup_lanelet_references",
            "lanelet_network.cleanup_traffic_light_references", "lanelet_network.cleanup_traffic_sign_references"]


def net_scalls(var):
    return {
        f"{var}._create_strtree": dict(fn="LaneletNetwork_create_strtree", ret=False, monadic=False, params=[]),
        f"{var}.add_lanelet": dict(fn="LaneletNetwork_add_lanelet", ret=True, monadic=False, params=["lanelet", "rtree"],
                                   defaults={"rtree": "true"}),
        f"{var}.remove_lanelet": dict(fn="LaneletNetwork_remove_lanelet", ret=False, monadic=True, params=["lanelet_id", "rtree"],
                                      defaults={"rtree": "true"}),
    }


def net_target(name, func, params, ret=None, **kw):
    base = dict(state={"self": NET}, fields=NET_FIELDS, dicts=dict(NET_DICTS), attrs=dict(NET_ATTRS), ret_state="self",
                scalls=net_scalls("self"), ignore_calls=CLEANUPS, names=dict(LANELET_NAMES))
    for k, v in kw.items():
        if isinstance(v, dict) and isinstance(base.get(k), dict):
            base[k] = {**base[k], **v}
        else:
            base[k] = v
    return T6(name, LAN, func, "LaneletNetwork", params, ret, **base)


STRTREE = {"STRtree": ("(CR.Py06.strtree {0})", False)}
GEOM_SUBS = {"self._strtee.geometries": ("(← CR.Py06.treeGeom self.tree {i})", True)}
GEOM_Q = {
    "self._strtee.query": ("CR.Py06.strQuery env self.tree {0}", True),
    "*.intersects": ("(isects ({recv}).ring {0})", False),
    "self._get_lanelet_id_by_shapely_polygon": ("LaneletNetwork_get_lanelet_id_by_shapely_polygon self {0}", True),
}


def _all_targets():
    ts = []
    # ------------------------------------------------------------------ LaneletNetwork: index maintenance
    ts.append(net_target(
        "LaneletNetwork_create_strtree", "_create_strtree", [("self", f"self : {NET}")], tcalls=STRTREE,
        nested={"assert_shapely_polygon": T6("assert_shapely_polygon", LAN, "assert_shapely_polygon", None,
                                             [("lanelet_id", "lanelet_id : Int"), ("polygon", "polygon : CR.Index.PolyObj")], "Bool",
                                             cls_types={"polygon": {"ShapelyPolygon"}})},
        doc="every buffered value is a shapely polygon object (PolyObj): the validity filter is evaluated statically"))
    ts.append(net_target(
        "LaneletNetwork_init", "__init__", [], tcalls=STRTREE, ignore_attrs=NET_IGNORE, init_state="⟨[], [], none, []⟩",
        doc="the four attributes of the spatial index; the object starts without any attribute (tree = none)"))
    ts.append(net_target(
        "LaneletNetwork_add_lanelet", "add_lanelet",
        [("self", f"self : {NET}"), ("lanelet", "lanelet : CR.Index.Lanelet"), ("rtree", "rtree : Bool")], "Bool",
        cls_types={"lanelet": {"Lanelet"}}))
    ts.append(net_target(
        "LaneletNetwork_remove_lanelet", "remove_lanelet",
        [("self", f"self : {NET}"), ("lanelet_id", "lanelet_id : Int"), ("rtree", "rtree : Bool")], monadic=True,
        doc="cleanup_lanelet_references() edits references between lanelets only, not the index"))
    ts.append(net_target(
        "LaneletNetwork_add_lanelets_from_network", "add_lanelets_from_network",
        [("self", f"self : {NET}"), (None, "lanelets : List CR.Index.Lanelet")], "Bool",
        names={**LANELET_NAMES, "lanelet_network.lanelets": "lanelets"},
        doc="`lanelet_network.lanelets` is the parameter `lanelets`"))
    ts.append(net_target(
        "LaneletNetwork_setstate", "__setstate__", [(None, f"state : {NET}")],
        whole={"self.__dict__.update(state)": "let self := state"},
        doc="`self.__dict__.update(state)` on a fresh object: the object's attributes are those of `state`"))
    ts.append(T6(
        "LaneletNetwork_getstate", LAN, "__getstate__", "LaneletNetwork", [("self", f"self : {NET}")], NET,
        fields={("state", "'_strtee'"): "tree"}, names={}, whole={"state = self.__dict__.copy()": "let state := self"},
        doc="the pickled attribute dict: the object's attributes without `_strtee`"))
    ts.append(T6(
        "LaneletNetwork_deepcopy", LAN, "__deepcopy__", "LaneletNetwork",
        [(None, "f : Nat → Nat"), ("self", f"self : {NET}")], NET,
        state={"self": NET, "result": NET}, fields=dict(NET_FIELDS), ret_state="self",
        scalls={**net_scalls("self"), **net_scalls("result")},
        whole={"cls = self.__class__": "", "result = cls.__new__(cls)": "let result : CR.Index.Net := ⟨[], [], none, []⟩",
               "memo[id(self)] = result": "",
               "for k, v in self.__dict__.items():\n    setattr(result, k, copy.deepcopy(v, memo))":
                   "let result := CR.Py06.deepcopyAttrs f self result"},
        doc="returns (self afterwards, the copy); the attribute loop `setattr(result, k, copy.deepcopy(v, memo))` is "
            "CR.Py06.deepcopyAttrs (fresh objects named by f, sharing kept by the memo)"))
    ts.append(T6(
        "LaneletNetwork_create_from_lanelet_list", LAN, "create_from_lanelet_list", "LaneletNetwork",
        [(None, "f : Nat → Nat"), ("lanelets", "lanelets : List CR.Index.Lanelet"), ("cleanup_ids", "cleanup_ids : Bool")], NET,
        state={"lanelet_network": NET}, scalls=net_scalls("lanelet_network"), ignore_calls=CLEANUPS,
        cls_types={"lanelets": {"list"}, "la": {"Lanelet"}},
        tcalls={"cls": ("LaneletNetwork_init", False), "copy.deepcopy": ("(CR.Index.relabelL f {0})", False)},
        doc="`cls()` is LaneletNetwork(); `copy.deepcopy(la)` relabels the polygon object (f); the cleanup_* calls edit references only"))
    # ------------------------------------------------------------------ LaneletNetwork: lookups
    ts.append(net_target(
        "LaneletNetwork_get_lanelet_id_by_shapely_polygon", "_get_lanelet_id_by_shapely_polygon",
        [("self", f"self : {NET}"), ("polygon", "polygon : CR.Index.PolyObj")], "Int", monadic=True, ret_state=None))
    PQ = [(None, "env isects : List CR.Geom.Pt → CR.Geom.Prim → Bool"), ("self", f"self : {NET}")]
    ts.append(net_target(
        "LaneletNetwork_find_lanelet_by_shape_prim", "find_lanelet_by_shape", PQ + [("shape", "shape : CR.Geom.Prim")], "List Int",
        monadic=True, ret_state=None, cls_types={"shape": {"Circle", "Polygon", "Rectangle"}}, tcalls=GEOM_Q, subs=GEOM_SUBS,
        names={"shape.shapely_object": "shape"}, local_types={"res": "List Int"}, dicts={"res": "list"},
        doc="argument is a Circle / Polygon / Rectangle; `env` is the envelope test of STRtree.query, `isects ring shape` "
            "is `polygon.intersects(shape.shapely_object)`"))
    ts.append(net_target(
        "LaneletNetwork_find_lanelet_by_shape_group", "find_lanelet_by_shape", PQ + [(None, "shapes : List CR.Geom.Prim")], "List Int",
        monadic=True, ret_state=None, cls_types={"shape": {"ShapeGroup"}},
        tcalls={**GEOM_Q, "self.find_lanelet_by_shape": ("LaneletNetwork_find_lanelet_by_shape_prim env isects self {0}", True)},
        names={"shape.shapes": "shapes"}, local_types={"res": "List Int"}, dicts={"res": "list"},
        doc="argument is a ShapeGroup with the member list `shapes`; the recursive call sees a primitive shape"))
    ts.append(net_target(
        "LaneletNetwork_find_lanelet_by_position", "find_lanelet_by_position",
        [(None, "within : Rat → List CR.Geom.Pt → CR.Geom.Pt → Bool"), ("self", f"self : {NET}"), ("point_list", "point_list : List CR.Geom.Pt")],
        "List (List Int)", monadic=True, ret_state=None, cls_types={"point_list": {"ValidTypes.LISTS"}},
        tcalls={"ShapelyPoint": ("{0}", False),
                "self._strtee.query": ("CR.Py06.strQueryDwithin within self.tree {0} tolerance", True,
                                       {"predicate": "'dwithin'", "distance": "tolerance"}),
                "self._get_lanelet_id_by_shapely_polygon": ("LaneletNetwork_get_lanelet_id_by_shapely_polygon self {0}", True)},
        subs={"self._strtee.geometries": ("(← CR.Py06.treeGeom self.tree {i})", True)}, local_types={"lanelet_ids": "List (Int × List Int)"}, dicts={"lanelet_ids": "dd"},
        doc="`within tol ring p` is shapely's dwithin(polygon, point, tol); the pairs (input index, tree index) of STRtree.query are "
            "CR.Py06.strQueryDwithin"))
    # ------------------------------------------------------------------ shapes
    ts.append(T6(
        "Rectangle_compute_vertices", SHP, "_compute_vertices", "Rectangle",
        [(None, "length width : Rat"), (None, "center : CR.Geom.Pt"), (None, "orientation : Rat × Rat")], "List CR.Geom.Pt",
        attrs={("self", "_length"): "length", ("self", "_width"): "width", ("self", "_center"): "center", ("self", "_orientation"): "orientation"},
        tcalls={"rotate_translate": ("(CR.Py06.rotateTranslate {0} {1} {2})", False)},
        doc="`orientation` is the pair (cos θ, sin θ)"))
    ts.append(T6(
        "Circle_contains_point", SHP, "contains_point", "Circle",
        [(None, "norm : CR.Geom.Pt → Rat"), (None, "radius : Rat"), (None, "center : CR.Geom.Pt"), ("point", "point : CR.Geom.Pt")], "Bool",
        attrs={("self", "_radius"): "radius", ("self", "_center"): "center"},
        tcalls={"is_real_number_vector": ("true", False), "np.greater_equal": ("decide ({0} ≥ {1})", False),
                "np.linalg.norm": ("(norm {0})", False)},
        pts=["point", "self._center"], doc="`norm` is np.linalg.norm on 2-vectors (a parameter: the non-negative root)"))
    CIRC = "CR.ShapeObj.CircObj"
    CA = {("self", "_radius"): "self.radius", ("self", "_center"): "self.center", ("self", "_shapely_circle"): "self.shapely"}
    CF = {("self", "_radius"): "radius", ("self", "_center"): "center", ("self", "_shapely_circle"): ("shapely", "(some {v})")}
    CS = {"self._update_shapely_circle": dict(fn="Circle_update_shapely_circle", ret=False, monadic=False, params=[])}

    def circ(name, func, params, **kw):
        return T6(name, SHP, func, "Circle", params, None, state={"self": CIRC}, ret_state="self", attrs=dict(CA), fields=dict(CF),
                  scalls=dict(CS), pts=["self._center"], opt_attrs={("self", "_shapely_circle"): "self.shapely"},
                  tcalls={"shapely.geometry.Point": ("(⟨{0}, {1}⟩ : CR.Geom.Pt)", False), "*.buffer": ("({recv}, {0})", False)}, **kw)
    ts.append(circ("Circle_update_shapely_circle", "_update_shapely_circle", [("self", f"self : {CIRC}")],
                   doc="the exported geometry Point(c).buffer(ρ) as the pair (c, ρ): the disc of radius ρ around c"))
    ts.append(circ("Circle_set_radius", "radius", [("self", f"self : {CIRC}"), ("radius", "radius : Rat")], setter=True))
    ts.append(circ("Circle_set_center", "center", [("self", f"self : {CIRC}"), ("center", "center : CR.Geom.Pt")], setter=True))
    ts.append(circ("Circle_init", "__init__", [("radius", "radius : Rat"), ("center", "center : Option CR.Geom.Pt")],
                   init_state="⟨0, ⟨0, 0⟩, none⟩", setters={("self", "radius"): "Circle_set_radius", ("self", "center"): "Circle_set_center"},
                   epat={"center if center is not None else np.array([0.0, 0.0])": "(center.getD ⟨0, 0⟩)"},
                   doc="constructor: `_shapely_circle = None`, the two property setters, then the export is built"))
    RECT = "CR.ShapeObj.RectObj"
    RA = {("self", "_length"): "self.length", ("self", "_width"): "self.width", ("self", "_center"): "self.center",
          ("self", "_orientation"): "self.orientation", ("self", "_vertices"): "self.vertices", ("self", "__shapely_polygon"): "self.polygon"}
    RF = {("self", "_length"): "length", ("self", "_width"): "width", ("self", "_center"): "center", ("self", "_orientation"): "orientation",
          ("self", "_vertices"): ("vertices", "(some {v})"), ("self", "__shapely_polygon"): ("polygon", "(some {v})")}
    RS = {"self._invalidate_vertices": dict(fn="Rectangle_invalidate_vertices", ret=False, monadic=False, params=[])}
    RT = {"is_real_number_vector": ("true", False), "is_valid_orientation": ("true", False),
          "self._compute_vertices": ("(Rectangle_compute_vertices self.length self.width self.center self.orientation)", False),
          "shapely.geometry.Polygon": ("{0}", False), "shapely.geometry.Point": ("{0}", False)}

    def rect(name, func, params, ret=None, **kw):
        base = dict(state={"self": RECT}, ret_state="self", attrs=dict(RA), fields=dict(RF), scalls=dict(RS), tcalls=dict(RT),
                    opt_attrs={("self", "_vertices"): "self.vertices", ("self", "__shapely_polygon"): "self.polygon"})
        for k, v in kw.items():
            base[k] = {**base[k], **v} if isinstance(v, dict) and isinstance(base.get(k), dict) else v
        return T6(name, SHP, func, "Rectangle", params, ret, **base)
    ts.append(rect("Rectangle_invalidate_vertices", "_invalidate_vertices", [("self", f"self : {RECT}")]))
    for a, ty in (("length", "Rat"), ("width", "Rat"), ("center", "CR.Geom.Pt"), ("orientation", "Rat × Rat")):
        ts.append(rect(f"Rectangle_set_{a}", a, [("self", f"self : {RECT}"), (a, f"{a} : {ty}")], setter=True, monadic=False,
                       doc="the validity asserts on the argument are outside the model (well-typed arguments)"))
    ts.append(rect("Rectangle_init", "__init__",
                   [("length", "length : Rat"), ("width", "width : Rat"), ("center", "center : Option CR.Geom.Pt"), ("orientation", "orientation : Rat × Rat")],
                   init_state="⟨0, 0, ⟨0, 0⟩, (1, 0), none, none⟩",
                   setters={("self", a): f"Rectangle_set_{a}" for a in ("length", "width", "center", "orientation")},
                   epat={"center if center is not None else np.array([0.0, 0.0])": "(center.getD ⟨0, 0⟩)"}))
    ts.append(rect("Rectangle_vertices", "vertices", [("self", f"self : {RECT}")], "List CR.Geom.Pt",
                   attrs={("self", "_vertices"): "self.vertices"}, epat={"self._vertices": "(self.vertices.getD [])"},
                   doc="memoising property: returns (object afterwards, vertices); a `None` cache would read as the empty array"))
    ts.append(rect("Rectangle_shapely_polygon", "_shapely_polygon", [("self", f"self : {RECT}")], "List CR.Geom.Pt",
                   sprops={("self", "vertices"): "Rectangle_vertices"}, epat={"self.__shapely_polygon": "(self.polygon.getD [])"},
                   doc="memoising property `_shapely_polygon` (the ring of the shapely polygon): returns (object afterwards, ring)"))
    ts.append(rect("Rectangle_contains_point", "contains_point",
                   [(None, "ptIn : List CR.Geom.Pt → CR.Geom.Pt → Bool"), ("self", f"self : {RECT}"), ("point", "point : CR.Geom.Pt")], "Bool",
                   sprops={("self", "_shapely_polygon"): "Rectangle_shapely_polygon"}, tcalls={"*.intersects": ("(ptIn {recv} {0})", False)},
                   doc="`ptIn ring p` is shapely's polygon.intersects(Point(p)); returns (object afterwards, answer)"))
    ts.append(T6(
        "Polygon_set_vertices", SHP, "vertices", "Polygon", [("vertices", "vertices : List CR.Geom.Pt")], None,
        setter=True, state={"self": "CR.ShapeObj.PolyShape"}, ret_state="self", init_state="⟨⟨0, 0⟩, ⟨0, 0⟩, []⟩",
        fields={("self", "_min"): "min", ("self", "_max"): "max", ("self", "_shapely_polygon"): "ring"}, ignore_attrs=["_vertices"],
        tcalls={"np.min": ("(CR.ShapeObj.colMin {0})", False, {"axis": "0"}), "np.max": ("(CR.ShapeObj.colMax {0})", False, {"axis": "0"}),
                "shapely.geometry.Polygon": ("{0}", False)},
        doc="the vertices setter (run by the constructor): bounding box and shapely polygon; `_vertices` (the re-oriented export) "
            "is not read by the containment test"))
    ts.append(T6(
        "Polygon_contains_point", SHP, "contains_point", "Polygon",
        [(None, "ptIn : List CR.Geom.Pt → CR.Geom.Pt → Bool"), ("self", "self : CR.ShapeObj.PolyShape"), ("point", "point : CR.Geom.Pt")], "Bool",
        attrs={("self", "_min"): "self.min", ("self", "_max"): "self.max", ("self", "_shapely_polygon"): "self.ring"},
        tcalls={"is_real_number_vector": ("true", False), "np.less_equal": ("(CR.Py06.lessEqual {0} {1})", False),
                "np.less": ("(CR.Py06.less {0} {1})", False), "all": ("(CR.Py06.all {0})", False),
                "shapely.geometry.Point": ("{0}", False), "*.intersects": ("(ptIn {recv} {0})", False)},
        nested={"in_axis_aligned_bounding_box": T6(
            "in_axis_aligned_bounding_box", SHP, "in_axis_aligned_bounding_box", None,
            [(None, "self : CR.ShapeObj.PolyShape"), ("point", "point : CR.Geom.Pt")], "Bool", closure=["self"],
            attrs={("self", "_min"): "self.min", ("self", "_max"): "self.max"},
            tcalls={"np.less_equal": ("(CR.Py06.lessEqual {0} {1})", False), "np.less": ("(CR.Py06.less {0} {1})", False),
                    "all": ("(CR.Py06.all {0})", False)})},
        doc="`ptIn ring p` is shapely's polygon.intersects(Point(p))"))
    ts.append(T6(
        "ShapeGroup_contains_point", SHP, "contains_point", "ShapeGroup",
        [(None, "containsPt : CR.Geom.Prim → CR.Geom.Pt → Bool"), (None, "shapes : List CR.Geom.Prim"), ("point", "point : CR.Geom.Pt")], "Bool",
        attrs={("self", "_shapes"): "shapes"},
        tcalls={"is_real_number_vector": ("true", False), "*.contains_point": ("(containsPt {recv} {0})", False)},
        doc="`containsPt s p` is the member's own contains_point (dynamic dispatch)"))
    ts.append(T6(
        "Lanelet_contains_points", LAN, "contains_points", "Lanelet",
        [(None, "ptIn : List CR.Geom.Pt → CR.Geom.Pt → Bool"), ("self", "self : CR.Index.Lanelet"), ("point_list", "point_list : List CR.Geom.Pt")],
        "List Bool", monadic=True, cls_types={"point_list": {"ValidTypes.ARRAY"}},
        tcalls={"is_valid_polyline": ("(CR.Py06.isValidPolyline {0})", False),
                "self._polygon.contains_point": ("(Polygon_contains_point ptIn (Polygon_set_vertices self.poly.ring) {0})", False)},
        doc="`self._polygon` is the Polygon built from the lanelet ring (Polygon_set_vertices)"))
    return ts


# translated already, tie theorem not proved yet: not emitted (an untied definition proves nothing, and could only break the build)
PENDING = set()


def targets():
    return [t for t in _all_targets() if t.name not in PENDING]


def pending_targets():
    return [t for t in _all_targets() if t.name in PENDING]


def translate_target(repo, t: T6) -> str:
    src = open(os.path.join(repo, t.file), encoding="utf-8").read()
    tree = ast.parse(src)
    fn = find_func(tree, t.cls, t.func, t.setter)
    return Tr6(t).function_text(fn)


HEADER = """/-
  Gen.SrcC06 — GENERATED on every run by harness/translate/src_c06.py from the current source of commonroad-io. Do not edit.
-/
import CRModel.PyExtC06
set_option linter.unusedVariables false
namespace Gen
open CR

"""

EXTRA = {"Lanelet_polygon_sites": lanelet_polygon_defs}


def generate(repo, t):
    return translate_target(repo, t)


def all_items(repo):
    items = [(t.name, (lambda t=t: generate(repo, t))) for t in targets()]
    items += [(n, (lambda f=f: f(repo))) for n, f in EXTRA.items()]
    return items


def regenerate(repo, gen_dir):
    os.makedirs(gen_dir, exist_ok=True)
    os.makedirs(LASTGOOD, exist_ok=True)
    status, chunks = {}, []
    for name, make in all_items(repo):
        lg = os.path.join(LASTGOOD, PREFIX + name + ".lean")
        key = "C06:" + name
        try:
            txt = make()
            status[key] = "ok"
        except (Unsupported, SyntaxError, KeyError, IndexError, AttributeError, OSError, ValueError, TypeError) as e:
            if os.path.exists(lg):
                txt = open(lg).read()
                status[key] = f"lost ({type(e).__name__}: {e}); last good translation used"
            else:
                txt = f"-- {name}: not translatable ({e})\n"
                status[key] = f"lost ({type(e).__name__}: {e}); no fallback"
        chunks.append(txt)
    new = HEADER + "\n".join(chunks) + "\nend Gen\n"
    path = os.path.join(gen_dir, "SrcC06.lean")
    old = open(path).read() if os.path.exists(path) else None
    if old != new:
        with open(path, "w") as f:
            f.write(new)
    return status


def update_lastgood(repo):
    os.makedirs(LASTGOOD, exist_ok=True)
    for name, make in all_items(repo):
        open(os.path.join(LASTGOOD, PREFIX + name + ".lean"), "w").write(make())


if __name__ == "__main__":
    import sys
    repo = os.environ.get("VERIF_REPO", "/repo")
    if len(sys.argv) > 1 and sys.argv[1] == "--update-lastgood":
        update_lastgood(repo)
    st = regenerate(repo, os.path.join(os.path.dirname(os.path.dirname(HERE)), "lean", "Gen"))
    for k, v in st.items():
        print(k, v)
