"""py -> Lean translator for property C19 (translator tie T19): the SELECTION logic of the drawing functions of
commonroad/visualization/mp_renderer.py and the parameter-group mechanism of commonroad/visualization/draw_params.py.

`regenerate(repo, gen_dir)` parses the CURRENT source with `ast` and writes `<gen_dir>/SrcC19.lean` (module `Gen.SrcC19`);
lean/CRProps/T19.lean proves every generated definition equal to the hand model (CRModel/DrawSelect.lean, DrawParams.lean,
Params.lean).  Three styles:

 * effect translation (class `DrawTr`): a drawing function is an imperative procedure that appends patches to the renderer's
   buffers; it becomes a Lean `Id.run do` block with `let mut` locals that appends *items* (`CR.Draw.Item`: which occupancy /
   state is drawn) to `out`.  `for` loops become `flatMap`s of a nested block, early `return`s stay `return out`,
   `try/except AttributeError` around partial reads becomes a test of the read's precondition.  Values that only carry
   style (colours, z-orders, copies of parameter groups) are *opaque*: they may be passed to patch constructors but a use in a
   test, a loop bound or a time step makes the function untranslatable (`lost`), never silently wrong.  Calls that append to
   a buffer and are not in the emission table are untranslatable as well.
 * structural extraction: the tree of dataclasses of draw_params.py (`Gen.mpDrawParams : Grp`, the default `MPDrawParams()`),
   the shape of `BaseParam.__setattr__` (`Gen.setattrShape`), the lanelet id filter of `draw_lanelet_network`.
 * functional translation over the model's own primitives: `BaseParam.__post_init__`, `__getitem__`, `__setitem__`.

A function that cannot be translated any more is `lost (...)`: its last good text (harness/translate/lastgood/C19_<name>.lean)
is emitted and the correspondence tie decides alone.
"""
from __future__ import annotations

import ast
import json
import os

from .pysrc import Unsupported, find_func

HERE = os.path.dirname(os.path.abspath(__file__))
LASTGOOD = os.path.join(HERE, "lastgood")
MPR = "commonroad/visualization/mp_renderer.py"
DPR = "commonroad/visualization/draw_params.py"

# --------------------------------------------------------------------------------------------------------------------
# parameter groups as the selection model sees them: (group, attribute) -> (type, lean template over the group's term)
# A group of the `dynamic_obstacle` subtree is represented by the one `DynFlags` record, `static_obstacle` /
# `environment_obstacle` by their `time_begin`, the id-filter groups by their `draw_ids`.
GROUP_ATTRS = {
    ("Top", "dynamic_obstacle"): ("Grp:Dyn", "{x}.dyn"), ("Top", "phantom_obstacle"): ("Grp:Ph", "{x}.ph"),
    ("Top", "static_obstacle"): ("Grp:Static", "{x}.tbStatic"), ("Top", "environment_obstacle"): ("Grp:Env", "{x}.tbEnv"),
    ("Dyn", "time_begin"): ("Int", "{x}.tb"), ("Dyn", "time_end"): ("Int", "{x}.te"),
    ("Dyn", "draw_shape"): ("Bool", "{x}.drawShape"), ("Dyn", "draw_icon"): ("Bool", "{x}.drawIcon"),
    ("Dyn", "draw_direction"): ("Bool", "{x}.drawDirection"), ("Dyn", "draw_signals"): ("Bool", "{x}.drawSignals"),
    ("Dyn", "draw_initial_state"): ("Bool", "{x}.drawInitialState"), ("Dyn", "show_label"): ("Bool", "{x}.showLabel"),
    ("Dyn", "occupancy"): ("Grp:DynOcc", "{x}"), ("Dyn", "trajectory"): ("Grp:Traj", "{x}"),
    ("Dyn", "history"): ("Grp:DynHist", "{x}"), ("Dyn", "state"): ("Grp:DynState", "{x}"),
    ("DynOcc", "draw_occupancies"): ("Bool", "{x}.drawOccupancies"),
    ("Traj", "draw_trajectory"): ("Bool", "{x}.drawTrajectory"), ("Traj", "time_begin"): ("Int", "{x}.trajTb"),
    ("Traj", "time_end"): ("Int", "{x}.trajTe"), ("Traj", "draw_continuous"): ("Bool", "{x}.trajContinuous"),
    ("DynHist", "draw_history"): ("Bool", "{x}.drawHistory"), ("DynHist", "steps"): ("Int", "{x}.histSteps"),
    ("DynHist", "step_size"): ("Int", "{x}.histStepSize"),
    ("DynState", "draw_arrow"): ("Bool", "{x}.stateArrow"),
    ("Ph", "time_begin"): ("Int", "{x}.tb"), ("Ph", "time_end"): ("Int", "{x}.te"), ("Ph", "draw_shape"): ("Bool", "{x}.drawShape"),
    ("Ph", "occupancy"): ("Grp:PhOcc", "{x}"), ("PhOcc", "draw_occupancies"): ("Bool", "{x}.drawOccupancies"),
    ("Static", "time_begin"): ("Int", "{x}"), ("Env", "time_begin"): ("Int", "{x}"),
    ("PPS", "draw_ids"): ("IntList?", "{x}"), ("Net", "draw_ids"): ("IntList?", "{x}"),
}
# field order of the model's records (for the generated `Gen.flagsOf`)
DYN_FIELDS = ["tb", "te", "drawShape", "drawIcon", "drawDirection", "drawSignals", "drawOccupancies", "drawTrajectory", "drawHistory",
              "histSteps", "histStepSize", "drawInitialState", "showLabel", "stateArrow", "trajTb", "trajTe", "trajContinuous"]
PH_FIELDS = ["tb", "te", "drawShape", "drawOccupancies"]

LEAN_TY = {"Bool": "Bool", "Int": "Int", "StH": "CR.PyC19.StH", "StH?": "Option CR.PyC19.StH", "OccH": "CR.PyC19.OccH",
           "OccH?": "Option CR.PyC19.OccH", "Unit?": "Option Unit", "PosV": "CR.PyC19.PosV", "Mid": "CR.Draw.Mid",
           "IntList?": "Option (List Int)", "List:Int": "List Int", "List:StH": "List CR.PyC19.StH", "List:PosV": "List CR.PyC19.PosV",
           "List:Obst": "List CR.Draw.Obst"}
DEFAULT = {"Bool": "false", "Int": "0", "StH": "default", "StH?": "none", "OccH": "default", "OccH?": "none", "Unit?": "none",
           "PosV": "default", "Mid": "CR.Draw.Mid.exact", "IntList?": "none", "List:Int": "[]", "List:StH": "[]", "List:PosV": "[]",
           "List:Obst": "[]"}
ROLE = {"DynamicObstacle": "dynamic", "StaticObstacle": "static", "EnvironmentObstacle": "env", "PhantomObstacle": "phantom"}
DRAW_METHOD = {"DynamicObstacle": "draw_dynamic_obstacle", "StaticObstacle": "draw_static_obstacle",
               "EnvironmentObstacle": "draw_environment_obstacle", "PhantomObstacle": "draw_phantom_obstacle"}
# reads that raise AttributeError unless their precondition holds (only inside try/except AttributeError)
PARTIAL_READS = {"obstacle_shape.length": "{x}.hasLW", "obstacle_shape.width": "{x}.hasLW"}
# calls that append to buffers the selection model does not observe
NO_EFFECT = {"self.dynamic_collections.append", "obj.lanelet_network.draw", "warnings.warn"}
# attribute stores outside the modelled observation
SKIP_STORES = {"self.plot_center"}


class DTarget:
    def __init__(self, name, func, params, binders, ret="List Item", occ_item="Item.occ", unc_draw="CR.PyC19.drawUncOcc",
                 var_types=None, per_iteration=False, doc=""):
        self.name, self.func = name, func
        self.params = params            # python name -> type
        self.binders = binders          # lean binder text
        self.ret, self.occ_item, self.unc_draw = ret, occ_item, unc_draw
        self.var_types = var_types or {}
        self.per_iteration = per_iteration
        self.doc = doc


def dotted(n):
    if isinstance(n, ast.Name):
        return n.id
    if isinstance(n, ast.Attribute):
        return dotted(n.value) + "." + n.attr
    if isinstance(n, ast.Call):
        return dotted(n.func) + "()"
    return "?"


class Scope:
    def __init__(self):
        self.lines = []
        self.hoist = []         # (var, type) declared at the top of this do block
        self.declared = set()


class DrawTr:
    def __init__(self, t: DTarget):
        self.t = t
        self.env = dict(t.params)
        self.narrow = {}
        self.scopes = []
        self.loopkey = None

    # ------------------------------------------------------------------ expressions: (lean text, type)
    def ex(self, n):
        if isinstance(n, ast.Constant):
            if n.value is None:
                return "none", "None"
            if isinstance(n.value, bool):
                return ("true" if n.value else "false"), "Bool"
            if isinstance(n.value, int):
                return (f"{n.value}" if n.value >= 0 else f"({n.value})"), "Int"
            raise Unsupported(f"constant {n.value!r}")
        if isinstance(n, ast.Name):
            if n.id not in self.env:
                raise Unsupported(f"name {n.id}")
            ty = self.env[n.id]
            if ty == "Opaque":
                raise Unsupported(f"opaque value {n.id} used where the selection depends on it")
            return self.lname(n.id), ty
        if isinstance(n, ast.Attribute):
            return self.attr(n)
        if isinstance(n, ast.UnaryOp):
            if isinstance(n.op, ast.Not):
                return f"(!{self.boolean(n.operand)})", "Bool"
            if isinstance(n.op, ast.USub):
                a, ty = self.ex(n.operand)
                self.want(ty, "Int")
                return f"(-{a})", "Int"
            raise Unsupported("unary op")
        if isinstance(n, ast.BinOp):
            # 0.5 * (x.start + x.end): centre of an interval
            if isinstance(n.op, ast.Mult) and isinstance(n.left, ast.Constant) and n.left.value == 0.5 and isinstance(n.right, ast.BinOp) \
                    and isinstance(n.right.op, ast.Add) and all(isinstance(s, ast.Attribute) for s in (n.right.left, n.right.right)) \
                    and {n.right.left.attr, n.right.right.attr} == {"start", "end"} \
                    and dotted(n.right.left.value) == dotted(n.right.right.value):
                _, ty = self.ex(n.right.left.value)
                self.want(ty, "Mid")
                return "CR.Draw.Mid.mid", "Mid"
            a, ta = self.ex(n.left)
            b, tb = self.ex(n.right)
            self.want(ta, "Int"), self.want(tb, "Int")
            op = {ast.Add: "+", ast.Sub: "-", ast.Mult: "*"}.get(type(n.op))
            if op is None:
                raise Unsupported("binary op")
            return f"({a} {op} {b})", "Int"
        if isinstance(n, ast.BoolOp):
            op = " && " if isinstance(n.op, ast.And) else " || "
            return "(" + op.join(self.boolean(v) for v in n.values) + ")", "Bool"
        if isinstance(n, ast.Compare):
            parts, left = [], n.left
            for op, right in zip(n.ops, n.comparators):
                parts.append(self.cmp(op, left, right))
                left = right
            return (parts[0] if len(parts) == 1 else "(" + " && ".join(parts) + ")"), "Bool"
        if isinstance(n, ast.IfExp):
            c = self.boolean(n.test)
            a, ta = self.ex(n.body)
            b, tb = self.ex(n.orelse)
            if ta != tb:
                raise Unsupported("conditional expression with branches of different kinds")
            return f"(if {c} then {a} else {b})", ta
        if isinstance(n, ast.Call):
            return self.call(n)
        if isinstance(n, ast.ListComp):
            return self.listcomp(n)
        raise Unsupported(f"expression {type(n).__name__}")

    def lname(self, name):
        return {"end": "end_", "from": "from_", "type": "type_", "at": "at_", "open": "open_"}.get(name, name)

    def want(self, ty, expected):
        if ty != expected:
            raise Unsupported(f"{ty} where {expected} expected")

    def boolean(self, n):
        """An expression in a boolean context (Python truthiness of optionals and optional lists)."""
        a, ty = self.ex(n)
        if ty in ("StH?", "OccH?", "Unit?"):
            return f"{a}.isSome"
        if ty == "IntList?":
            return f"(!({a}.getD []).isEmpty)"
        if ty in ("StH", "OccH"):
            return "true"
        self.want(ty, "Bool")
        return a

    def unwrap(self, a, ty):
        if ty in ("StH?", "OccH?"):
            return f"({a}.getD default)", ty[:-1]
        return a, ty

    def attr(self, n):
        d = dotted(n)
        # obj.initial_state.time_step
        if n.attr == "time_step" and isinstance(n.value, ast.Attribute) and n.value.attr == "initial_state":
            x, ty = self.ex(n.value.value)
            self.want(ty, "Obst")
            return f"{x}.initTs", "Int"
        # state.position.center
        if n.attr == "center" and isinstance(n.value, ast.Attribute) and n.value.attr == "position":
            s, ty = self.unwrap(*self.ex(n.value.value))
            self.want(ty, "StH")
            return f"(CR.PyC19.PosV.centerOf {s})", "PosV"
        if isinstance(n.value, ast.Name) and n.value.id == "self":
            raise Unsupported(f"renderer attribute {d}")
        x, ty = self.unwrap(*self.ex(n.value))
        if ty.startswith("Grp:"):
            key = (ty[4:], n.attr)
            if key not in GROUP_ATTRS:
                raise Unsupported(f"parameter {d} is not part of the selection model")
            t2, tmpl = GROUP_ATTRS[key]
            return tmpl.format(x=x), t2
        table = {
            ("Obst", "initial_state"): ("StH", "(CR.PyC19.initialState {x})"), ("Obst", "prediction"): ("Pred", "{x}"),
            ("Scn", "obstacles"): ("List:Obst", "{x}"), ("Pred", "final_time_step"): ("Int", "{x}.pred.final"),
            ("Pred", "trajectory"): ("Trj", "{x}"), ("StH", "is_uncertain_position"): ("Bool", "{x}.info.uncPos"),
            ("StH", "is_uncertain_orientation"): ("Bool", "{x}.info.orientInt"),
            ("StH", "position"): ("PosV", "(CR.PyC19.PosV.ofState {x})"), ("StH", "orientation"): ("Mid", "CR.Draw.Mid.exact"),
            ("OccH", "shape"): ("Shape", "{x}"), ("PPSet", "planning_problem_dict"): ("PPDict", "{x}"),
        }
        if (ty, n.attr) in table:
            t2, tmpl = table[(ty, n.attr)]
            return tmpl.format(x=x), t2
        raise Unsupported(f"attribute {d}")

    def cmp(self, op, left, right):
        if isinstance(op, (ast.Is, ast.IsNot)) and isinstance(right, ast.Constant) and right.value is None:
            a, ty = self.ex(left)
            pos = isinstance(op, ast.Is)
            if ty in ("StH?", "OccH?", "Unit?", "IntList?"):
                return f"{a}.isNone" if pos else f"{a}.isSome"
            if ty == "Pred":
                return f"{a}.pred.isNone" if pos else f"(!{a}.pred.isNone)"
            if ty.startswith("Grp:") or ty in ("StH", "OccH", "Obst"):
                return "false" if pos else "true"
            raise Unsupported(f"`is None` on {ty}")
        if isinstance(op, (ast.Is, ast.IsNot)) and isinstance(right, ast.Constant) and isinstance(right.value, bool):
            a = self.boolean(left)
            same = f"{a}" if right.value else f"(!{a})"
            return same if isinstance(op, ast.Is) else f"(!{same})"
        if isinstance(op, (ast.In, ast.NotIn)):
            if isinstance(right, ast.Call) and dotted(right.func) == "supported_icons" and isinstance(left, ast.Attribute) \
                    and left.attr == "obstacle_type":
                x, ty = self.ex(left.value)
                self.want(ty, "Obst")
                r = f"{x}.iconType"
            else:
                a, ta = self.ex(left)
                b, tb = self.ex(right)
                self.want(ta, "Int"), self.want(tb, "IntList?")
                r = f"(CR.PyC19.optContains {b} {a})"
            return r if isinstance(op, ast.In) else f"(!{r})"
        a, ta = self.ex(left)
        b, tb = self.ex(right)
        self.want(ta, "Int"), self.want(tb, "Int")
        sym = {ast.Lt: "<", ast.LtE: "≤", ast.Gt: ">", ast.GtE: "≥", ast.Eq: "=", ast.NotEq: "≠"}.get(type(op))
        if sym is None:
            raise Unsupported("comparison")
        return f"decide ({a} {sym} {b})"

    def call(self, n):
        f = n.func
        d = dotted(f)
        if d == "isinstance" and len(n.args) == 2:
            cls = dotted(n.args[1]).split(".")[-1]
            x, ty = self.ex(n.args[0])
            if ty == "Obst" and cls in ROLE:
                return f"decide ({x}.role = CR.Draw.Role.{ROLE[cls]})", "Bool"
            if ty == "Pred" and cls in ("TrajectoryPrediction", "SetBasedPrediction"):
                return f"{x}.pred." + ("isTraj" if cls == "TrajectoryPrediction" else "isSet"), "Bool"
            if ty == "Shape" and cls == "Rectangle":
                return f"{x}.isRect", "Bool"
            if ty.startswith("Grp:") and cls == "MPDrawParams":
                return ("true" if ty == "Grp:Top" else "false"), "Bool"
            if ty == "IntList?" and cls == "list":
                return f"{x}.isSome", "Bool"
            raise Unsupported(f"isinstance({ty}, {cls})")
        if d == "range" and len(n.args) in (2, 3):
            a, ta = self.ex(n.args[0])
            b, tb = self.ex(n.args[1])
            self.want(ta, "Int"), self.want(tb, "Int")
            if len(n.args) == 3:
                s = n.args[2]
                if not (isinstance(s, ast.UnaryOp) and isinstance(s.op, ast.USub) and isinstance(s.operand, ast.Constant) and s.operand.value == 1):
                    raise Unsupported("range step other than -1")
                return f"(CR.PyC19.pyRangeDown {a} {b})", "List:Int"
            return f"(CR.Draw.pyRange {a} {b})", "List:Int"
        if d == "len" and len(n.args) == 1:
            a, ty = self.ex(n.args[0])
            if not ty.startswith("List:"):
                raise Unsupported("len of a non-list")
            return f"(({a}).length : Int)", "Int"
        if d in ("np.array", "deepcopy", "copy.deepcopy", "list") and len(n.args) == 1:
            return self.ex(n.args[0])
        if isinstance(f, ast.Attribute):
            if f.attr in ("occupancy_at_time", "signal_state_at_time_step") and len(n.args) == 1:
                x, ty = self.ex(f.value)
                self.want(ty, "Obst")
                a, ta = self.ex(n.args[0])
                self.want(ta, "Int")
                if f.attr == "occupancy_at_time":
                    return f"(CR.PyC19.occupancyAt {x} {a})", "OccH?"
                return f"(CR.PyC19.signalAt {x} {a})", "Unit?"
            if f.attr == "state_at_time_step" and len(n.args) == 1:
                x, ty = self.ex(f.value)
                self.want(ty, "Trj")
                a, ta = self.ex(n.args[0])
                self.want(ta, "Int")
                return f"(CR.PyC19.trajStateAt {x} {a})", "StH?"
        raise Unsupported(f"call {d}")

    def listcomp(self, n):
        if len(n.generators) != 1 or not isinstance(n.generators[0].target, ast.Name) or n.generators[0].is_async:
            raise Unsupported("list comprehension shape")
        g = n.generators[0]
        it, ty = self.ex(g.iter)
        if not ty.startswith("List:"):
            raise Unsupported("comprehension over a non-list")
        v = g.target.id
        saved = self.env.get(v)
        self.env[v] = ty[5:]
        try:
            lv = self.lname(v)
            # [f(t) for t in xs if f(t) is not None]  ==>  xs.filterMap f
            if len(g.ifs) == 1 and isinstance(g.ifs[0], ast.Compare) and len(g.ifs[0].ops) == 1 and isinstance(g.ifs[0].ops[0], ast.IsNot) \
                    and isinstance(g.ifs[0].comparators[0], ast.Constant) and g.ifs[0].comparators[0].value is None \
                    and ast.dump(g.ifs[0].left) == ast.dump(n.elt):
                e, te = self.ex(n.elt)
                if te.endswith("?"):
                    return f"(({it}).filterMap (fun {lv} => {e}))", "List:" + te[:-1]
            conds = [self.boolean(c) for c in g.ifs]
            e, te = self.ex(n.elt)
            src = it
            for c in conds:
                src = f"(({src}).filter (fun {lv} => {c}))"
            return f"(({src}).map (fun {lv} => {e}))", "List:" + te
        finally:
            if saved is None:
                self.env.pop(v, None)
            else:
                self.env[v] = saved

    # ------------------------------------------------------------------ statements
    # ------------------------------------------------------------------ statements (pure `let` style)
    # A statement list becomes a chain of `let`s; every branching statement binds the tuple (items it emitted, locals it
    # assigned) once, so the text does not duplicate the continuation.  `out` inside a branch / loop body is local to it.
    def emit(self, line, ind):
        self.lines[-1].append("  " * ind + line)

    def coerce(self, a, ty, to):
        if ty == to:
            return a
        if to.endswith("?") and ty == to[:-1]:
            return f"(some {a})"
        if to.endswith("?") and ty == "None":
            return "none"
        raise Unsupported(f"{ty} assigned where {to} expected")

    def assign_name(self, name, value, ind):
        try:
            a, ty = self.ex(value)
            if ty in ("Pred", "Trj", "Shape", "Scn", "PPDict", "PPSet", "Obst", "Lanelet") or ty.startswith("Grp:"):
                # an alias of an object of the model: substituted textually
                if len(self.lines) > 1:
                    raise Unsupported(f"alias {name} bound inside a branch")
                self.env[name] = ty
                self.aliases[name] = a
                return
        except Unsupported:
            if self.has_effect(value):
                raise
            if isinstance(value, ast.Constant) and value.value is None and name in self.t.var_types:
                a, ty = "none", "None"
            else:
                self.env[name] = "Opaque"
                self.assigned[-1].add(name)
                return
        cur = self.env.get(name)
        vt = self.t.var_types.get(name) or (cur if cur not in (None, "Opaque") and (ty == "None" or cur.rstrip("?") == ty.rstrip("?")) else ty)
        if vt == "None":
            raise Unsupported(f"{name} = None without a declared type")
        a = self.coerce(a, ty, vt)
        if vt not in LEAN_TY:
            raise Unsupported(f"local of kind {vt}")
        if cur not in (None, "Opaque") and cur != vt and len(self.lines) > 1:
            raise Unsupported(f"{name} changes its kind inside a branch")
        self.env[name] = vt
        self.assigned[-1].add(name)
        self.emit(f"let {self.lname(name)} : {LEAN_TY[vt]} := {a}", ind)

    def has_effect(self, value):
        for c in ast.walk(value):
            if isinstance(c, ast.Call):
                d = dotted(c.func)
                if d.startswith("self.") or d.split(".")[-1] in ("draw", "append", "extend", "add", "clear", "pop", "remove", "insert"):
                    return True
        return False

    def anchor_of(self, n):
        names = {s.value.id for s in ast.walk(n) if isinstance(s, ast.Subscript) and isinstance(s.value, ast.Name)
                 and self.env.get(s.value.id) == "PosV"}
        if len(names) != 1:
            raise Unsupported("patch position is not one position value")
        return f"{self.lname(next(iter(names)))}.anchor"

    def out(self, items, ind):
        self.assigned[-1].add("out")
        self.emit(f"let out := out ++ {items}", ind)

    def call_stmt(self, n, ind):
        d = dotted(n.func)
        if d in NO_EFFECT:
            return
        f = n.func
        if isinstance(f, ast.Attribute) and f.attr == "draw" and len(n.args) == 2 and dotted(n.args[0]) == "self":
            x, ty = self.ex(f.value)
            if ty in ("OccH", "OccH?"):
                x, _ = self.unwrap(x, ty)
                return self.out(f"[{self.t.occ_item} {x}.t]", ind)
            if ty == "PosV":
                return self.out(f"({self.t.unc_draw} {x})", ind)
            if ty in ("StH", "StH?"):
                x, _ = self.unwrap(x, ty)
                p, tp = self.ex(n.args[1])
                self.want(tp, "Grp:DynState")
                return self.out(f"[CR.Draw.stateItem {p} {x}.info]", ind)
            if ty == "Trj":
                p, tp = self.ex(n.args[1])
                self.want(tp, "Grp:Traj")
                return self.out(f"(Gen.draw_trajectory {p} {x})", ind)
            if ty == "Obst":
                cls = self.narrow.get(dotted(f.value), "PhantomObstacle")
                p, tp = self.ex(n.args[1])
                if not tp.startswith("Grp:"):
                    raise Unsupported("draw parameters of an obstacle")
                return self.out(f"(Gen.{DRAW_METHOD[cls]} {p} {x})", ind)
            raise Unsupported(f"draw of {ty}")
        if d == "self._draw_occupancy" and len(n.args) == 3:
            a, ta = self.ex(n.args[0])
            b, tb = self.ex(n.args[1])
            return self.out(f"(Gen._draw_occupancy {self.coerce(a, ta, 'OccH?')} {self.coerce(b, tb, 'StH?')})", ind)
        if d == "self._draw_history" and len(n.args) == 2:
            x, tx = self.ex(n.args[0])
            p, tp = self.ex(n.args[1])
            self.want(tx, "Obst"), self.want(tp, "Grp:Dyn")
            return self.out(f"(Gen._draw_history {p} {x})", ind)
        if d == "self._draw_signal_state" and len(n.args) == 3:
            _, t1 = self.ex(n.args[0])
            _, t2 = self.ex(n.args[1])
            if t1 not in ("Unit?",) or t2 not in ("OccH", "OccH?"):
                raise Unsupported("signal state arguments")
            return self.out("[Item.sig]", ind)
        if d == "self.draw_polygon" and len(n.args) == 2 and dotted(n.args[1]).endswith("vehicle_shape.direction"):
            return self.out("[Item.dir]", ind)
        if d == "self.draw_planning_problem" and self.loopkey:
            return self.out(f"[{self.loopkey}]", ind)
        if d == "self.obstacle_patches.extend" and len(n.args) == 1 and isinstance(n.args[0], ast.Call) \
                and dotted(n.args[0].func) == "get_obstacle_icon_patch" and len(n.args[0].args) >= 4:
            c = n.args[0]
            o, to = self.ex(c.args[3])
            self.want(to, "Mid")
            return self.out(f"[Item.icon {self.anchor_of(ast.Tuple(elts=[c.args[1], c.args[2]]))} {o}]", ind)
        if d == "self.obstacle_patches.append" and len(n.args) == 1 and isinstance(n.args[0], ast.Call) \
                and dotted(n.args[0].func).endswith("PathPatch"):
            return self.out("[Item.trajLine]", ind)
        if d == "self.dynamic_labels.append" and len(n.args) == 1 and isinstance(n.args[0], ast.Call) \
                and dotted(n.args[0].func).endswith("Text") and len(n.args[0].args) >= 2:
            c = n.args[0]
            return self.out(f"[Item.label {self.anchor_of(ast.Tuple(elts=[c.args[0], c.args[1]]))}]", ind)
        raise Unsupported(f"statement call {d}")

    def ends_in_return(self, stmts):
        return bool(stmts) and isinstance(stmts[-1], ast.Return)

    def has_return(self, stmts):
        return any(isinstance(x, ast.Return) for s in stmts for x in ast.walk(s))

    def term(self, stmts, ind, result, allow_return, out_ty="List Item"):
        """Lines of a Lean term: `out := []`, the statements, then the tuple `result`.  Returns (lines, assigned names)."""
        self.lines.append([])
        self.assigned.append(set())
        self.otys.append(out_ty)
        self.emit(f"let out : {out_ty} := []", ind)
        done = False
        for i, s in enumerate(stmts):
            if isinstance(s, ast.Return):
                if not allow_return or (s.value is not None and not (isinstance(s.value, ast.Constant) and s.value.value is None)):
                    raise Unsupported("return inside a branch or loop, or of a value")
                break
            if isinstance(s, ast.If) and self.has_return(s.body + s.orelse):
                # `if c: …; return` [elif …: return] at the level of the function: the rest of the function is the else part
                if not allow_return or not self.ends_in_return(s.body) or self.has_return(s.body[:-1]):
                    raise Unsupported("return inside a nested block")
                c = self.boolean(s.test)
                a, _ = self.term(s.body[:-1], ind + 1, ["out"], False, out_ty)
                b, _ = self.term(list(s.orelse) + list(stmts[i + 1:]), ind + 1, ["out"], True, out_ty)
                self.emit(f"out ++ (if {c} then", ind)
                self.lines[-1].extend(a)
                self.emit("else", ind + 1)
                self.lines[-1].extend(b + ["  " * (ind + 1) + ")"])
                done = True
                break
            self.stmt(s, ind)
        if not done:
            self.emit("(" + ", ".join(result) + ")" if len(result) > 1 else result[0], ind)
        self.otys.pop()
        return self.lines.pop(), self.assigned.pop()

    def stmt(self, s, ind):
        if isinstance(s, ast.Expr) and isinstance(s.value, ast.Constant):
            return
        if isinstance(s, ast.Pass):
            return
        if isinstance(s, ast.Expr) and isinstance(s.value, ast.Call):
            return self.call_stmt(s.value, ind)
        if isinstance(s, ast.Assign):
            # draw_params = draw_params or self.draw_params
            if len(s.targets) == 1 and isinstance(s.targets[0], ast.Name) and isinstance(s.value, ast.BoolOp) \
                    and isinstance(s.value.op, ast.Or) and isinstance(s.value.values[0], ast.Name) \
                    and s.value.values[0].id == s.targets[0].id and self.env.get(s.targets[0].id, "").startswith("Grp:"):
                return
            for tg in s.targets:
                if isinstance(tg, ast.Name):
                    self.assign_name(tg.id, s.value, ind)
                elif isinstance(tg, ast.Attribute):
                    base = dotted(tg.value)
                    if dotted(tg) in SKIP_STORES or self.env.get(base) == "Opaque":
                        continue
                    raise Unsupported(f"store to {dotted(tg)}")
                elif isinstance(tg, ast.Subscript) and isinstance(tg.value, ast.Name) and self.env.get(tg.value.id) == "Opaque":
                    continue
                else:
                    raise Unsupported("assignment target")
            return
        if isinstance(s, ast.AugAssign) and isinstance(s.target, ast.Name):
            op = {ast.Add: ast.Add(), ast.Sub: ast.Sub()}.get(type(s.op))
            if op is None:
                raise Unsupported("augmented op")
            return self.assign_name(s.target.id, ast.BinOp(left=ast.Name(id=s.target.id), op=op, right=s.value), ind)
        if isinstance(s, ast.If):
            try:
                test = self.boolean(s.test)
                why = None
            except Unsupported as e:
                test, why = None, e
            if test == "true":
                for x in s.body:
                    self.stmt(x, ind)
                return
            if test == "false":
                for x in s.orelse:
                    self.stmt(x, ind)
                return
            return self.branch(test, why, s.body, s.orelse, ind, self.narrowing(s.test))
        if isinstance(s, ast.For) and not s.orelse:
            return self.for_stmt(s, ind)
        if isinstance(s, ast.Try) and not s.orelse and not s.finalbody and len(s.handlers) == 1 \
                and dotted(s.handlers[0].type) == "AttributeError" and s.handlers[0].name is None:
            conds = []
            for b in s.body:
                if not (isinstance(b, ast.Assign) and len(b.targets) == 1 and isinstance(b.targets[0], ast.Name)
                        and isinstance(b.value, ast.Attribute) and isinstance(b.value.value, ast.Attribute)):
                    raise Unsupported("try body")
                key = b.value.value.attr + "." + b.value.attr
                if key not in PARTIAL_READS:
                    raise Unsupported(f"partial read {key}")
                x, ty = self.ex(b.value.value.value)
                self.want(ty, "Obst")
                c = PARTIAL_READS[key].format(x=x)
                if c not in conds:
                    conds.append(c)
                self.env[b.targets[0].id] = "Opaque"
            return self.branch(f"(!({' && '.join(conds)}))", None, s.handlers[0].body, [], ind, None)
        raise Unsupported(f"statement {type(s).__name__}")

    def narrowing(self, test):
        """`isinstance(o, Cls)` as the whole test: inside the body `o.draw` is Cls.draw."""
        if isinstance(test, ast.Call) and dotted(test.func) == "isinstance" and len(test.args) == 2:
            cls = dotted(test.args[1]).split(".")[-1]
            if cls in DRAW_METHOD:
                return dotted(test.args[0]), cls
        return None

    def branch(self, test, why, body, orelse, ind, nr):
        if self.has_return(list(body) + list(orelse)):
            raise Unsupported("return inside a nested block")
        before = dict(self.env)
        saved = dict(self.narrow)
        if nr:
            self.narrow[nr[0]] = nr[1]
        a, ma = self.term(body, ind + 2, ["?"], False, self.otys[-1])
        self.narrow = saved
        b, mb = self.term(orelse, ind + 2, ["?"], False, self.otys[-1])
        m = sorted(v for v in (ma | mb) - {"out"} if self.env.get(v) != "Opaque")
        for v in (ma | mb) - {"out"}:
            # a local that is opaque on one path is opaque afterwards
            if self.env.get(v) == "Opaque" or (v in before and before[v] == "Opaque" and not (v in ma and v in mb)):
                self.env[v] = "Opaque"
        m = [v for v in m if self.env.get(v) != "Opaque"]
        self.assigned[-1] |= (ma | mb)
        if "out" not in (ma | mb) and not m:
            return                      # nothing observable depends on this test
        if test is None:
            raise why
        for v in m:
            if v not in before or before[v] == "Opaque":
                self.emit(f"let {self.lname(v)} : {LEAN_TY[self.env[v]]} := {DEFAULT[self.env[v]]}", ind)
        tup = "(" + ", ".join(["out"] + [self.lname(v) for v in m]) + ")" if m else "out"
        a[-1] = "  " * (ind + 2) + tup
        b[-1] = "  " * (ind + 2) + tup
        self.nres += 1
        r = f"r{self.nres}"
        self.emit(f"let {r} := if {test} then", ind)
        self.lines[-1].extend(a)
        self.emit("else", ind + 1)
        self.lines[-1].extend(b)
        if not m:
            self.emit(f"let out := out ++ {r}", ind)
        else:
            self.emit(f"let out := out ++ {r}.1", ind)
            for i, v in enumerate(m):
                proj = ".2" * (i + 1) + (".1" if i < len(m) - 1 else "")
                self.emit(f"let {self.lname(v)} := {r}{proj}", ind)

    def for_stmt(self, s, ind):
        it = s.iter
        var = None
        if isinstance(it, ast.Call) and dotted(it.func) == "enumerate" and len(it.args) == 1 and isinstance(s.target, ast.Tuple) \
                and len(s.target.elts) == 2 and all(isinstance(e, ast.Name) for e in s.target.elts):
            self.env[s.target.elts[0].id] = "Opaque"
            var, it = s.target.elts[1].id, it.args[0]
        key_only = False
        if isinstance(it, ast.Call) and isinstance(it.func, ast.Attribute) and it.func.attr == "items" and not it.args \
                and isinstance(s.target, ast.Tuple) and len(s.target.elts) == 2 and all(isinstance(e, ast.Name) for e in s.target.elts):
            d, ty = self.ex(it.func.value)
            self.want(ty, "PPDict")
            src, ety = d, "Int"
            var = s.target.elts[0].id
            self.env[s.target.elts[1].id] = "Opaque"
            key_only = True
        else:
            if var is None:
                if not isinstance(s.target, ast.Name):
                    raise Unsupported("loop target")
                var = s.target.id
            src, ty = self.ex(it)
            if not ty.startswith("List:"):
                raise Unsupported(f"loop over {ty}")
            ety = ty[5:]
        if self.has_return(s.body) or any(isinstance(x, (ast.Break, ast.Continue)) for b in s.body for x in ast.walk(b)):
            raise Unsupported("return / break / continue inside a loop")
        saved_key = self.loopkey
        if key_only:
            self.loopkey = self.lname(var)
        outer_env = dict(self.env)
        self.env[var] = ety
        per = self.t.per_iteration and len(self.lines) == 1
        try:
            inner, touched = self.term(s.body, ind + 2, ["out"], False, "List Item" if per else self.otys[-1])
        finally:
            self.loopkey = saved_key
        # locals bound inside the loop are stale afterwards (a read before a new assignment is untranslatable)
        touched = (touched - {"out"}) | {var}
        self.env = outer_env
        for v in touched:
            self.env[v] = "Opaque"
        comb = "map" if per else "flatMap"
        self.assigned[-1].add("out")
        self.emit(f"let out := out ++ ({src}).{comb} (fun {self.lname(var)} =>", ind)
        inner[-1] = inner[-1] + ")"
        self.lines[-1].extend(inner)

    # ------------------------------------------------------------------ whole function
    def function(self, fn):
        self.aliases = {}
        self.lines, self.assigned, self.nres = [[]], [set()], 0
        self.out_ty = {"List (List Item)": "List (List Item)", "List Int": "List Int"}.get(self.t.ret, "List Item")
        orig_lname = self.lname

        def lname(name):
            return self.aliases.get(name, orig_lname(name))
        self.lname = lname
        self.lines, self.assigned, self.otys = [], [], []
        body, _ = self.term(fn.body, 1, ["out"], True, self.out_ty)
        doc = f"/-- {MPR}: MPRenderer.{self.t.func}{(' — ' + self.t.doc) if self.t.doc else ''} -/\n"
        return doc + f"def {self.t.name} {self.t.binders} : {self.t.ret} :=\n" + "\n".join(body) + "\n"


def draw_targets():
    D = "(draw_params : CR.Draw.DynFlags) (obj : CR.Draw.Obst)"
    return [
        DTarget("_draw_occupancy", "_draw_occupancy", {"occ": "OccH?", "state": "StH?", "draw_params": "Grp:Other"},
                "(occ : Option CR.PyC19.OccH) (state : Option CR.PyC19.StH)",
                doc="the parameter group only carries style"),
        DTarget("_draw_history", "_draw_history", {"dyn_obs": "Obst", "draw_params": "Grp:Dyn"},
                "(draw_params : CR.Draw.DynFlags) (dyn_obs : CR.Draw.Obst)", occ_item="Item.hist",
                doc="an occupancy drawn with the faded copy of the parameters is a `hist` item"),
        DTarget("draw_trajectory", "draw_trajectory", {"obj": "Trj", "draw_params": "Grp:Traj"}, D, unc_draw="CR.PyC19.drawUncTraj",
                doc="`obj` is the trajectory of the obstacle; `draw_params` its `trajectory` group (fields trajTb/trajTe/…)"),
        DTarget("draw_static_obstacle", "draw_static_obstacle", {"obj": "Obst", "draw_params": "Grp:Static"},
                "(draw_params : Int) (obj : CR.Draw.Obst)", doc="the group is represented by its `time_begin`"),
        DTarget("draw_environment_obstacle", "draw_environment_obstacle", {"obj": "Obst", "draw_params": "Grp:Env"},
                "(draw_params : Int) (obj : CR.Draw.Obst)", doc="the group is represented by its `time_begin`"),
        DTarget("draw_phantom_obstacle", "draw_phantom_obstacle", {"obj": "Obst", "draw_params": "Grp:Ph"},
                "(draw_params : CR.Draw.PhFlags) (obj : CR.Draw.Obst)"),
        DTarget("draw_dynamic_obstacle", "draw_dynamic_obstacle", {"obj": "Obst", "draw_params": "Grp:Dyn"}, D,
                var_types={"state": "StH?", "inital_state": "StH?", "initial_state": "StH?"}),
        DTarget("draw_scenario", "draw_scenario", {"obj": "Scn", "draw_params": "Grp:Top"},
                "(draw_params : CR.Draw.Flags) (obj : List CR.Draw.Obst)", ret="List (List Item)", per_iteration=True,
                doc="one list of items per obstacle, in the order of `Scenario.obstacles`"),
        DTarget("draw_planning_problem_set", "draw_planning_problem_set", {"obj": "PPSet", "draw_params": "Grp:PPS"},
                "(draw_params : Option (List Int)) (obj : List Int)", ret="List Int",
                doc="`obj` = the keys of `planning_problem_dict` in order, the group = its `draw_ids`; emits the ids drawn"),
    ]


def translate_draw(tree, t: DTarget) -> str:
    fn = find_func(tree, "MPRenderer", t.func)
    tr = DrawTr(t)
    return tr.function(fn)


# --------------------------------------------------------------------------------------------------------------------
# structural extraction: the lanelet id filter of draw_lanelet_network

def translate_lanelet_filter(tree) -> str:
    fn = find_func(tree, "MPRenderer", "draw_lanelet_network")
    # resolve `draw_lanlet_ids = draw_params.draw_ids`-style aliases of the id list
    alias = {}
    loop = None
    for s in fn.body:
        if isinstance(s, ast.Assign) and len(s.targets) == 1 and isinstance(s.targets[0], ast.Name) \
                and dotted(s.value) == "draw_params.draw_ids":
            alias[s.targets[0].id] = "IntList?"
        if isinstance(s, ast.For) and isinstance(s.iter, ast.Call) and dotted(s.iter.func) == "enumerate" \
                and dotted(s.iter.args[0]) == "lanelets":
            if loop is not None:
                raise Unsupported("more than one loop over the lanelets")
            loop = s
    if loop is None:
        raise Unsupported("loop over enumerate(lanelets) not found")
    lv = loop.target.elts[1].id
    first = loop.body[0]
    # every `continue` / `break` directly in the loop (outside nested function definitions and inner loops) must be the filter
    def jumps(stmts):
        n = 0
        for x in stmts:
            if isinstance(x, (ast.Continue, ast.Break)):
                n += 1
            elif isinstance(x, (ast.If,)):
                n += jumps(x.body) + jumps(x.orelse)
            elif isinstance(x, (ast.Try, ast.With)):
                n += jumps(getattr(x, "body", [])) + jumps(getattr(x, "orelse", [])) + jumps(getattr(x, "finalbody", []))
                for h in getattr(x, "handlers", []):
                    n += jumps(h.body)
        return n
    if not (isinstance(first, ast.If) and len(first.body) == 1 and isinstance(first.body[0], ast.Continue) and not first.orelse):
        raise Unsupported("the loop over the lanelets does not start with the id filter")
    if jumps(loop.body) != 1:
        raise Unsupported("further continue/break in the loop over the lanelets")
    t = DTarget("lanelet_skipped", "draw_lanelet_network", {}, "")
    tr = DrawTr(t)
    tr.aliases = {}
    for a in alias:
        tr.env[a] = "IntList?"
    tr.env["draw_params"] = "Grp:Net"
    tr.env[lv] = "Lanelet"

    orig_attr = tr.attr

    def attr(n):
        if n.attr == "lanelet_id" and isinstance(n.value, ast.Name) and n.value.id == lv:
            return "lanelet_id", "Int"
        return orig_attr(n)
    tr.attr = attr
    names = {a: "draw_ids" for a in alias}
    tr.lname = lambda name: names.get(name, name)
    test = tr.boolean(first.test)
    test = test.replace("draw_params", "draw_ids")
    return (f"/-- {MPR}: MPRenderer.draw_lanelet_network — the test of the `continue` that opens the loop over the lanelets "
            f"(the only jump of that loop) -/\n"
            f"def lanelet_skipped (draw_ids : Option (List Int)) (lanelet_id : Int) : Bool :=\n  {test}\n\n"
            f"/-- the lanelets that enter the loop body -/\n"
            f"def lanelets_drawn (ids : List Int) (draw_ids : Option (List Int)) : List Int :=\n"
            f"  ids.filter (fun lanelet_id => !lanelet_skipped draw_ids lanelet_id)\n")


# --------------------------------------------------------------------------------------------------------------------
# draw_params.py: the tree of dataclasses

def dataclasses_of(tree):
    out = {}
    for n in tree.body:
        if isinstance(n, ast.ClassDef) and any(dotted(d) in ("dataclass", "dataclasses.dataclass") or
                                                (isinstance(d, ast.Call) and dotted(d.func) in ("dataclass", "dataclasses.dataclass"))
                                                for d in n.decorator_list):
            fields = []
            for s in n.body:
                if isinstance(s, ast.AnnAssign) and isinstance(s.target, ast.Name):
                    fields.append((s.target.id, s.annotation, s.value))
            out[n.name] = ([dotted(b) for b in n.bases], fields)
    return out


def atom_text(node):
    return json.dumps(ast.literal_eval(node))


def build_group(classes, cls, overrides, depth=0):
    """Default instance of dataclass `cls` with keyword `overrides` (name -> ast node), as a Lean `Grp` term."""
    if depth > 12:
        raise Unsupported("parameter classes nest too deep")
    if cls not in classes:
        raise Unsupported(f"class {cls} is not a dataclass of draw_params.py")
    chain, c = [], cls
    while c in classes:
        chain.append(c)
        bases = classes[c][0]
        if len(bases) > 1:
            raise Unsupported("multiple inheritance")
        c = bases[0] if bases else None
    if chain[-1] != "BaseParam":
        raise Unsupported(f"{cls} is not a BaseParam")
    fields = []
    for c in reversed(chain):
        for name, ann, value in classes[c][1]:
            if name.startswith("__"):
                continue                                   # `__initialized` is the group's init flag
            fields = [f for f in fields if f[0] != name] + [(name, ann, value)]
    unknown = set(overrides) - {f[0] for f in fields}
    if unknown:
        raise Unsupported(f"{cls}({sorted(unknown)}=…): no such field")
    if {"time_begin", "time_end", "antialiased"} & set(overrides):
        raise Unsupported("a default factory overrides a propagated base field")
    items = []
    for name, ann, value in fields:
        items.append((name, field_value(classes, name, value, overrides.get(name), depth)))
    txt = ".nil"
    for name, (kind, v) in reversed(items):
        txt = f'.{kind} "{name}" {v} ({txt})' if kind == "grp" else f'.atom "{name}" {json.dumps(v)} ({txt})'
    return f"(.mk true ({txt}))"


def instance_of(classes, node, depth):
    """`Cls(k=v, …)`, `Cls` (as a factory) -> group term"""
    if isinstance(node, ast.Name) and node.id in classes:
        return build_group(classes, node.id, {}, depth + 1)
    if isinstance(node, ast.Call) and isinstance(node.func, ast.Name) and node.func.id in classes and not node.args:
        return build_group(classes, node.func.id, {k.arg: k.value for k in node.keywords}, depth + 1)
    return None


def field_value(classes, name, default, override, depth):
    if override is not None:
        g = instance_of(classes, override, depth) if isinstance(override, ast.Call) else None
        if g is not None:
            return "grp", g
        return "atom", atom_text(override)
    if default is None:
        raise Unsupported(f"field {name} without default")
    if isinstance(default, ast.Call) and dotted(default.func) in ("field", "dataclasses.field"):
        kw = {k.arg: k.value for k in default.keywords}
        if "default_factory" in kw:
            fac = kw["default_factory"]
            if isinstance(fac, ast.Lambda) and not fac.args.args:
                g = instance_of(classes, fac.body, depth)
                if g is not None:
                    return "grp", g
                return "atom", atom_text(fac.body)
            if isinstance(fac, ast.Name):
                g = instance_of(classes, fac, depth)
                if g is not None:
                    return "grp", g
                if fac.id in ("dict", "list"):
                    return "atom", "{}" if fac.id == "dict" else "[]"
            raise Unsupported(f"default factory of {name}")
        if "default" in kw:
            return "atom", atom_text(kw["default"])
        raise Unsupported(f"field() of {name}")
    return "atom", atom_text(default)


def translate_tree(tree) -> str:
    classes = dataclasses_of(tree)
    g = build_group(classes, "MPDrawParams", {})
    nested = {c: [n for n, a, v in f if instance_or_none(classes, v)] for c, (b, f) in classes.items()}
    _ = nested
    return (f"/-- {DPR}: the default `MPDrawParams()` — every dataclass with its own and inherited fields in `__dict__` order "
            f"(a nested group for a field whose default factory builds a parameter class, keyword arguments of the factory "
            f"applied; a plain field as the JSON text of its default) -/\n"
            f"def mpDrawParams : CR.Params.Grp :=\n  {g}\n")


def instance_or_none(classes, v):
    try:
        return field_value(classes, "?", v, None, 0)[0] == "grp"
    except Exception:
        return False


# --------------------------------------------------------------------------------------------------------------------
# draw_params.py: BaseParam.__setattr__ (shape), __post_init__, __getitem__, __setitem__ (functional over the model's primitives)

def translate_setattr_shape(tree) -> str:
    fn = find_func(tree, "BaseParam", "__setattr__")
    args = [a.arg for a in fn.args.args]
    if len(args) != 3:
        raise Unsupported("signature of __setattr__")
    me, name, value = args
    body = [s for s in fn.body if not (isinstance(s, ast.Expr) and isinstance(s.value, ast.Constant))]
    if len(body) != 2 or not all(isinstance(s, ast.If) and not s.orelse for s in body):
        raise Unsupported("__setattr__ is not `if …: store` followed by `if …: visit`")

    def is_store(s):
        return isinstance(s, ast.If) and len(s.body) == 1 and isinstance(s.body[0], ast.Expr) and isinstance(s.body[0].value, ast.Call) \
            and dotted(s.body[0].value.func) == "super().__setattr__"
    store_first = is_store(body[0])
    st, vis = (body[0], body[1]) if store_first else (body[1], body[0])
    if not is_store(st):
        raise Unsupported("own store not found")
    # store guard: name in {f.name for f in dataclasses.fields(self)}
    t = st.test
    declared = (isinstance(t, ast.Compare) and len(t.ops) == 1 and isinstance(t.ops[0], ast.In) and dotted(t.left) == name
                and isinstance(t.comparators[0], (ast.SetComp, ast.ListComp, ast.GeneratorExp))
                and len(t.comparators[0].generators) == 1 and not t.comparators[0].generators[0].ifs
                and isinstance(t.comparators[0].elt, ast.Attribute) and t.comparators[0].elt.attr == "name"
                and dotted(t.comparators[0].elt.value) == dotted(t.comparators[0].generators[0].target)
                and dotted(t.comparators[0].generators[0].iter) in (f"dataclasses.fields({me})()", "dataclasses.fields()", "fields()")
                and [dotted(a) for a in t.comparators[0].generators[0].iter.args] == [me])
    sargs = [dotted(a) for a in st.body[0].value.args]
    store_same = sargs == [name, value]
    # visit
    vis_init = dotted(vis.test) in (f"{me}.__initialized", f"{me}._BaseParam__initialized")
    loop = vis.body[0] if len(vis.body) == 1 and isinstance(vis.body[0], ast.For) else None
    all_items = iff_base = same_args = False
    if loop is not None and not loop.orelse:
        tg = loop.target
        if isinstance(loop.iter, ast.Call) and dotted(loop.iter.func) == f"{me}.__dict__.items" and isinstance(tg, ast.Tuple) and len(tg.elts) == 2:
            all_items = True
            v = dotted(tg.elts[1])
        elif isinstance(loop.iter, ast.Call) and dotted(loop.iter.func) == f"{me}.__dict__.values" and isinstance(tg, ast.Name):
            all_items = True
            v = tg.id
        else:
            v = None
        if v and len(loop.body) == 1 and isinstance(loop.body[0], ast.If) and not loop.body[0].orelse:
            i = loop.body[0]
            iff_base = (isinstance(i.test, ast.Call) and dotted(i.test.func) == "isinstance" and len(i.test.args) == 2
                        and dotted(i.test.args[0]) == v and dotted(i.test.args[1]) == "BaseParam")
            if len(i.body) == 1 and isinstance(i.body[0], ast.Expr) and isinstance(i.body[0].value, ast.Call):
                c = i.body[0].value
                if dotted(c.func) == f"{v}.__setattr__" and [dotted(a) for a in c.args] == [name, value]:
                    same_args = True
                if dotted(c.func) == "setattr" and [dotted(a) for a in c.args] == [v, name, value]:
                    same_args = True
    b = lambda x: "true" if x else "false"   # noqa
    return (f"/-- {DPR}: BaseParam.__setattr__ — what its syntax tree says about the own store and the visit of the nested groups -/\n"
            f"def setattrShape : CR.PyC19.SetattrShape :=\n"
            f"  {{ storeIfDeclared := {b(declared)}, storeSameArgs := {b(store_same)}, storeFirst := {b(store_first)},\n"
            f"    visitIfInitialized := {b(vis_init)}, visitAllDictItems := {b(all_items)}, visitIffBaseParam := {b(iff_base)},\n"
            f"    visitSameArgs := {b(same_args)} }}\n")


def translate_post_init(tree) -> str:
    fn = find_func(tree, "BaseParam", "__post_init__")
    me = fn.args.args[0].arg
    lines = []
    for s in fn.body:
        if isinstance(s, ast.Expr) and isinstance(s.value, ast.Constant):
            continue
        if isinstance(s, ast.Assign) and len(s.targets) == 1 and isinstance(s.targets[0], ast.Attribute) and dotted(s.targets[0].value) == me:
            a = s.targets[0].attr
            if a in ("__initialized", "_BaseParam__initialized") and isinstance(s.value, ast.Constant) and s.value.value is True:
                lines.append(f"  let {me} := {me}.markInit")
                continue
            if dotted(s.value) == f"{me}.{a}":
                lines.append(f"  let {me} ← {me}.reassign {json.dumps(a)}")
                continue
        raise Unsupported(f"__post_init__ statement {type(s).__name__}")
    return (f"/-- {DPR}: BaseParam.__post_init__ over the group as the generated `__init__` left it (`self.x = self.x` is "
            f"`Grp.reassign`, i.e. `__setattr__` with the current value; `self.__initialized = True` is `Grp.markInit`) -/\n"
            f"def BaseParam_post_init ({me} : CR.Params.Grp) : Res CR.Params.Grp := do\n" + "\n".join(lines) + f"\n  return {me}\n")


def translate_items(tree) -> str:
    out = []
    g = find_func(tree, "BaseParam", "__getitem__")
    me, item = [a.arg for a in g.args.args]
    body = [s for s in g.body if not (isinstance(s, ast.Expr) and isinstance(s.value, ast.Constant))]

    def handler_ok(t):
        return (isinstance(t, ast.Try) and len(t.handlers) == 1 and dotted(t.handlers[0].type) == "AttributeError" and not t.orelse
                and not t.finalbody and len(t.handlers[0].body) == 1 and isinstance(t.handlers[0].body[0], ast.Raise)
                and isinstance(t.handlers[0].body[0].exc, ast.Call) and dotted(t.handlers[0].body[0].exc.func) == "KeyError")
    if not (len(body) == 2 and handler_ok(body[0]) and isinstance(body[1], ast.Return) and len(body[0].body) == 1
            and isinstance(body[0].body[0], ast.Assign) and dotted(body[0].body[0].targets[0]) == dotted(body[1].value)):
        raise Unsupported("__getitem__ shape")
    rd = body[0].body[0].value
    if not (isinstance(rd, ast.Call) and ((dotted(rd.func) == f"{me}.__getattribute__" and [dotted(a) for a in rd.args] == [item])
                                          or (dotted(rd.func) == "getattr" and [dotted(a) for a in rd.args] == [me, item]))):
        raise Unsupported("__getitem__ read")
    out.append(f"/-- {DPR}: BaseParam.__getitem__ — `__getattribute__`, `AttributeError` re-raised as `KeyError` -/\n"
               f"def BaseParam_getitem ({me} : CR.Params.Grp) ({item} : String) : Res CR.Params.Val :=\n"
               f"  match CR.Params.Grp.getAttr {item} {me} with\n  | .error .attr => .error .key\n  | r => r\n")
    s = find_func(tree, "BaseParam", "__setitem__")
    me, key, value = [a.arg for a in s.args.args]
    body = [x for x in s.body if not (isinstance(x, ast.Expr) and isinstance(x.value, ast.Constant))]
    if not (len(body) == 1 and handler_ok(body[0]) and len(body[0].body) == 1 and isinstance(body[0].body[0], ast.Expr)):
        raise Unsupported("__setitem__ shape")
    c = body[0].body[0].value
    if not (isinstance(c, ast.Call) and ((dotted(c.func) == f"{me}.__setattr__" and [dotted(a) for a in c.args] == [key, value])
                                         or (dotted(c.func) == "setattr" and [dotted(a) for a in c.args] == [me, key, value]))):
        raise Unsupported("__setitem__ store")
    out.append(f"/-- {DPR}: BaseParam.__setitem__ — `__setattr__`, `AttributeError` re-raised as `KeyError` -/\n"
               f"def BaseParam_setitem ({me} : CR.Params.Grp) ({key} : String) ({value} : CR.Params.Val) : Res CR.Params.Grp :=\n"
               f"  match CR.Params.Grp.setPy {key} {value} {me} with\n  | .error .attr => .error .key\n  | r => r\n")
    return "\n".join(out)


def flags_of_text() -> str:
    """`Gen.flagsOf`: the translator's own parameter table (GROUP_ATTRS) as a function on parameter trees, so that the table the
    drawing functions are translated with is itself tied to the model's `flagsOf`."""
    def paths(group, prefix, lean_prefix):
        res = {}
        for (g, a), (ty, tmpl) in GROUP_ATTRS.items():
            if g != group:
                continue
            if ty.startswith("Grp:"):
                res.update(paths(ty[4:], prefix + [a], tmpl.format(x=lean_prefix)))
            else:
                res[tmpl.format(x=lean_prefix)] = (prefix + [a], ty)
        return res
    p = paths("Top", [], "f")

    def rd(field):
        path, ty = p[field]
        fn = "atomInt" if ty == "Int" else "atomBool"
        return f"← CR.Draw.{fn} g [{', '.join(json.dumps(x) for x in path)}]"
    dyn = ",\n    ".join(f"{f} := {rd('f.dyn.' + f)}" for f in DYN_FIELDS)
    ph = ",\n    ".join(f"{f} := {rd('f.ph.' + f)}" for f in PH_FIELDS)
    return ("/-- the parameter table of harness/translate/src_c19.py (which attribute path of `MPDrawParams` is which field of "
            "`CR.Draw.Flags`) as a function on parameter trees -/\n"
            "def flagsOf (g : CR.Params.Grp) : Option CR.Draw.Flags := do\n"
            f"  let dyn : CR.Draw.DynFlags := {{\n    {dyn} }}\n"
            f"  let ph : CR.Draw.PhFlags := {{\n    {ph} }}\n"
            f"  pure {{ dyn := dyn, ph := ph, tbStatic := {rd('f.tbStatic')}, tbEnv := {rd('f.tbEnv')} }}\n")


# --------------------------------------------------------------------------------------------------------------------

HEADER = """/-
  Gen.SrcC19 — GENERATED on every run by harness/translate/src_c19.py from the current source of
  commonroad/visualization/mp_renderer.py and draw_params.py. Do not edit.
-/
import CRModel.PyExtC19
import CRModel.DrawParams
set_option linter.unusedVariables false
set_option maxRecDepth 4096
namespace Gen
open CR CR.Draw

"""


def jobs(repo):
    """[(name, thunk producing lean text)] in file order (callees before callers)."""
    cache = {}

    def tree(path):
        if path not in cache:
            cache[path] = ast.parse(open(os.path.join(repo, path), encoding="utf-8").read())
        return cache[path]
    js = [("C19_flagsOf", lambda: flags_of_text())]
    for t in draw_targets():
        js.append(("C19_" + t.name, (lambda t=t: translate_draw(tree(MPR), t))))
    js.append(("C19_lanelet_filter", lambda: translate_lanelet_filter(tree(MPR))))
    js.append(("C19_mpDrawParams", lambda: translate_tree(tree(DPR))))
    js.append(("C19_setattrShape", lambda: translate_setattr_shape(tree(DPR))))
    js.append(("C19_BaseParam_post_init", lambda: translate_post_init(tree(DPR))))
    js.append(("C19_BaseParam_items", lambda: translate_items(tree(DPR))))
    return js


def regenerate(repo, gen_dir):
    os.makedirs(gen_dir, exist_ok=True)
    os.makedirs(LASTGOOD, exist_ok=True)
    status, chunks = {}, []
    for name, thunk in jobs(repo):
        lg = os.path.join(LASTGOOD, name + ".lean")
        try:
            txt = thunk()
            status[name] = "ok"
        except (Unsupported, SyntaxError, KeyError, IndexError, AttributeError, OSError, ValueError, TypeError) as e:
            if os.path.exists(lg):
                txt = open(lg).read()
                status[name] = f"lost ({type(e).__name__}: {e}); last good translation used"
            else:
                txt = f"-- {name}: not translatable ({e})\n"
                status[name] = f"lost ({type(e).__name__}: {e}); no fallback"
        chunks.append(txt)
    new = HEADER + "\n".join(chunks) + "\nend Gen\n"
    path = os.path.join(gen_dir, "SrcC19.lean")
    old = open(path).read() if os.path.exists(path) else None
    if old != new:
        with open(path, "w") as f:
            f.write(new)
    return status


def update_lastgood(repo):
    os.makedirs(LASTGOOD, exist_ok=True)
    for name, thunk in jobs(repo):
        open(os.path.join(LASTGOOD, name + ".lean"), "w").write(thunk())


if __name__ == "__main__":
    import sys
    repo = os.environ.get("VERIF_REPO", "/repo")
    if len(sys.argv) > 1 and sys.argv[1] == "--update-lastgood":
        update_lastgood(repo)
    st = regenerate(repo, os.path.join(os.path.dirname(os.path.dirname(HERE)), "lean", "Gen"))
    for k, v in st.items():
        print(k, v)
