-- EnvironmentObstacleXMLNode.create_node :: b_EnvironmentObstacle_create_node b_EnvironmentObstacle_create_node_shape
def b_EnvironmentObstacle_create_node : CR.SrcW.Builder where
  key := "EnvironmentObstacleXMLNode.create_node"
  kind := .node
  tag := "?obstacle_role.value + 'Obstacle'"
  xsd := "environmentObstacle"
  path := []
  parent := ""
  attrs := []
  gattrs := []
  text := none
  atoms := []
  body :=
    (.seq
      (.splice "ObstacleXMLNode.create_obstacle_node_header")
      (.emit "shape" "EnvironmentObstacleXMLNode.create_node/shape"))

def b_EnvironmentObstacle_create_node_shape : CR.SrcW.Builder where
  key := "EnvironmentObstacleXMLNode.create_node/shape"
  kind := .node
  tag := "shape"
  xsd := "environmentObstacle"
  path := ["shape"]
  parent := "EnvironmentObstacleXMLNode.create_node"
  attrs := []
  gattrs := []
  text := none
  atoms := []
  body :=
    (.splice "ShapeXMLNode.create_node")
