/-- commonroad/scenario/scenario.py: Location.__eq__ / Location.__hash__ -/
def src_Location : ClassSrc :=
  { guard := "Location",
    eqs := [
      ⟨"geo_name_id", [(.eq .id)]⟩,
      ⟨"gps_latitude", [(.eq .id)]⟩,
      ⟨"gps_longitude", [(.eq .id)]⟩,
      ⟨"geo_transformation", [(.eq .id)]⟩,
      ⟨"environment", [(.eq .id)]⟩],
    hashes := [
      ⟨"geo_name_id", .it⟩,
      ⟨"gps_latitude", .it⟩,
      ⟨"gps_longitude", .it⟩,
      ⟨"geo_transformation", .it⟩,
      ⟨"environment", .it⟩] }
