/-- commonroad/scenario/scenario.py: Scenario.phantom_obstacle -/
def Scenario_phantom_obstacle (s : CR.Occ.Scn) : List (Nat × CR.Occ.Obst) := Id.run do
  return (CR.PyC04.values s.ph)
