def GoalRegion_is_reached.loop1 (F : CR.Goal.Fns) (τ ε : Rat) (goals : List CR.Goal.GState) (state : CR.Goal.St) : (List Bool) → List (CR.Goal.GState) → Res (Bool)
  | is_reached_list, [] => do
    return (CR.PyG.npAny is_reached_list)
  | is_reached_list, goal_state :: rest_ => do
    let goal_state_tmp := goal_state
    let goal_state_fields := (CR.PyG.setOf (CR.PyG.gUsedAttrs goal_state))
    let state_fields := (CR.PyG.setOf (CR.PyG.sUsedAttrs state))
    let (state_new, state_fields, goal_state_tmp, goal_state_fields) := (← GoalRegion_harmonize_state_types F state goal_state_tmp state_fields goal_state_fields)
    if (!(CR.PyG.issubset goal_state_fields state_fields)) then
      throw CR.Err.value
    else
      let is_reached := true
      let is_reached ← (if ((some goal_state.time)).isSome then (do
          let is_reached := (← CR.PyG.andM is_reached (do return (← GoalRegion_check_value_in_interval_I state_new.t goal_state.time)))
          pure is_reached)
        else (do
          pure is_reached))
      let is_reached ← (if ((CR.PyG.gHasValue goal_state CR.Goal.Fld.position) && (CR.PyG.sHasValue state_new CR.Goal.Fld.position)) then (do
          let is_reached := (← CR.PyG.andM is_reached (do return (← CR.PyG.containsPoint goal_state.pos state_new.pos)))
          pure is_reached)
        else (do
          pure is_reached))
      let is_reached ← (if ((CR.PyG.gHasValue goal_state CR.Goal.Fld.orientation) && (CR.PyG.sHasValue state_new CR.Goal.Fld.orientation)) then (do
          let is_reached := (← CR.PyG.andM is_reached (do return (← GoalRegion_check_value_in_interval_A τ ε (← CR.PyG.need state_new.ori) (← CR.PyG.need goal_state.ori))))
          pure is_reached)
        else (do
          pure is_reached))
      let is_reached ← (if ((CR.PyG.gHasValue goal_state CR.Goal.Fld.velocity) && (CR.PyG.sHasValue state_new CR.Goal.Fld.velocity)) then (do
          let is_reached := (← CR.PyG.andM is_reached (do return (← GoalRegion_check_value_in_interval_I (← CR.PyG.need state_new.vel) (← CR.PyG.need goal_state.vel))))
          pure is_reached)
        else (do
          pure is_reached))
      let is_reached_list := is_reached_list ++ [is_reached]
      GoalRegion_is_reached.loop1 F τ ε goals state is_reached_list rest_

/-- commonroad/planning/goal.py: GoalRegion.is_reached — self.state_list is the parameter goals; goal attributes are validated Interval / AngleInterval / Shape objects -/
def GoalRegion_is_reached (F : CR.Goal.Fns) (τ ε : Rat) (goals : List CR.Goal.GState) (state : CR.Goal.St) : Res (Bool) := do
  let is_reached_list : List Bool := []
  GoalRegion_is_reached.loop1 F τ ε goals state is_reached_list (goals)
