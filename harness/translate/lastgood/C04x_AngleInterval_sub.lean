/-- commonroad/common/util.py: Interval.__sub__ — Interval.__sub__ run on an AngleInterval -/
def AngleInterval_sub (τ : Rat) (fuel : Nat) (self : CR.Iv.I) (other : Rat) : Res (CR.Iv.I) := do
  return (← AngleInterval_new τ fuel (self.lo - other) (self.hi - other))
