def make_valid_orientation.loop1 (τ : Rat) : Nat → Rat → Rat
  | 0, angle => (angle)
  | n + 1, angle =>
    if decide (angle > τ) then
      let angle := (angle - τ)
      make_valid_orientation.loop1 τ n angle
    else (angle)

def make_valid_orientation.loop2 (τ : Rat) : Nat → Rat → Rat
  | 0, angle => (angle)
  | n + 1, angle =>
    if decide (angle < (-τ)) then
      let angle := (angle + τ)
      make_valid_orientation.loop2 τ n angle
    else (angle)

/-- commonroad/common/util.py: make_valid_orientation -/
def make_valid_orientation (τ : Rat) (fuel : Nat) (angle : Rat) : Rat := Id.run do
  let angle := make_valid_orientation.loop1 τ fuel angle
  let angle := make_valid_orientation.loop2 τ fuel angle
  return angle
