/-- commonroad/common/writer/file_writer_protobuf.py TrafficLightMessage.create_message -/
def W_TrafficLight (t : Light) : PB :=
  PB.msg [("traffic_light_id", (PB.u32 t.id)), ("cycle_elements", PB.rep (List.map (fun v1 => (W_CycleElement v1)) t.cycle)), ("position", (PB.ofOpt (Option.map (fun v2 => (W_Point v2)) t.pos))), ("time_offset", (PB.ofOpt (Option.map (fun v3 => (PB.u32 v3)) t.offset))), ("direction", (PB.ofOpt (Option.map (fun v4 => (PB.enum "TrafficLightDirection" v4)) t.direction))), ("active", (PB.ofOpt (Option.map (fun v5 => (PB.bool v5)) t.active)))]
