/-- commonroad/common/writer/file_writer_protobuf.py TrafficLightMessage.create_message -/
def W_TrafficLight (t : Light) : PB :=
  PB.msg [("traffic_light_id", (PB.u32 t.id)), ("cycle_elements", PB.rep (List.map (fun x1 => (W_CycleElement x1)) t.cycle)), ("position", (PB.ofOpt (Option.map (fun x2 => (W_Point x2)) t.pos))), ("time_offset", (PB.ofOpt (Option.map (fun x3 => (PB.u32 x3)) t.offset))), ("direction", (PB.ofOpt (Option.map (fun x4 => (PB.enum "TrafficLightDirection" x4)) t.direction))), ("active", (PB.ofOpt (Option.map (fun x5 => (PB.bool x5)) t.active)))]
