/-- commonroad/common/reader/file_reader_xml.py: StateFactory._map_to_prop -/
def reader_map_to_prop (xml_prop : String) : String := Id.run do
  if (xml_prop == "time") then
    let prop := "time_step"
    return prop
  else
    if (xml_prop == "deltaYFront") then
      let prop := "delta_y_f"
      return prop
    else
      if (xml_prop == "deltaYRear") then
        let prop := "delta_y_r"
        return prop
      else
        if (xml_prop == "curvatureChange") then
          let prop := "curvature_rate"
          return prop
        else
          let prop := (CR.PyC01.strLower (CR.PyC01.reSnakeSep xml_prop))
          return prop
