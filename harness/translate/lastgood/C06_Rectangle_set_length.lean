/-- commonroad/geometry/shape.py: Rectangle.length — the validity asserts on the argument are outside the model (well-typed arguments) -/
def Rectangle_set_length (self : CR.ShapeObj.RectObj) (length : Rat) : CR.ShapeObj.RectObj :=
  let self := { self with length := length }
  let self := (Rectangle_invalidate_vertices self)
  self
