/-- commonroad/geometry/shape.py: ShapeGroup.translate_rotate — s.translate_rotate on a member is the model's dispatch Shape.move (its branches are the four ties of this file) -/
def ShapeGroup_translate_rotate (m : CR.Rigid.Mo) (ss : List CR.Rigid.Shape) : Res (CR.Rigid.Shape) := do
  CR.Py.assert (CR.Iv.validOrientation m.τ m.a)
  let new_shapes ← CR.PyC05.forEach (fun s => do
      return (← CR.Rigid.Shape.move m s)) ss
  return (CR.Rigid.Shape.group new_shapes)
