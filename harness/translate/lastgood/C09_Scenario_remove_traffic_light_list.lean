/-- commonroad/scenario/scenario.py: Scenario.remove_traffic_light — list form -/
def Scenario_remove_traffic_light_list (s : St) (traffic_light : List (Nat)) : St × Out :=
  PyC09.tryE (PyC09.forE (fun s light =>
      PyC09.tryE (Scenario_remove_traffic_light s light) (fun s =>
        (s, .ok)) (fun s o_ => (s, o_))) s (traffic_light)) (fun s =>
    (s, .ok)) (fun s o_ =>
    (s, o_))
