/-- commonroad/common/validity.py: is_valid_orientation -/
def is_valid_orientation (τ : Rat) (theta : Rat) : Res (Bool) := do
  return (← is_in_interval theta (-τ) τ)
