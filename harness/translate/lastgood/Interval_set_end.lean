/-- commonroad/common/util.py: Interval.end — property setter on a partially initialised object (start?, end?) -/
def Interval_set_end (self : Option Rat × Option Rat) (end_ : Rat) : Res (Option Rat × Option Rat) := do
  if (self.1).isSome then
    CR.Py.assert (decide (end_ ≥ (self.1.getD 0)))
    let self := (self.1, (some end_))
    return self
  else
    let self := (self.1, (some end_))
    return self
