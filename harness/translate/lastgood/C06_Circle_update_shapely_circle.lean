/-- commonroad/geometry/shape.py: Circle._update_shapely_circle — the exported geometry Point(c).buffer(ρ) as the pair (c, ρ): the disc of radius ρ around c -/
def Circle_update_shapely_circle (self : CR.ShapeObj.CircObj) : CR.ShapeObj.CircObj :=
  let self := { self with shapely := (some ((⟨(self.center).x, (self.center).y⟩ : CR.Geom.Pt), (self.radius / 2))) }
  self
