/-- commonroad/scenario/lanelet.py: Lanelet.merge_lanelets — geometry and links; the obstacle registries of the merged lanelet are not part of the property -/
def Lanelet_merge_lanelets (lanelet1 : CR.Arc.Lanelet) (lanelet2 : CR.Arc.Lanelet) : Res (CR.Arc.Lanelet) := do
  CR.Py.assert (true)
  CR.Py.assert (true)
  CR.Py.assert ((decide (lanelet1.id ∈ lanelet2.succ) || decide (lanelet2.id ∈ lanelet1.succ) || decide (lanelet1.id ∈ lanelet2.pred) || decide (lanelet2.id ∈ lanelet1.pred)))
  let (pred, suc) := (
    if (decide (lanelet1.id ∈ lanelet2.pred) || decide (lanelet2.id ∈ lanelet1.succ)) then
      let pred := lanelet1
      let suc := lanelet2
      (pred, suc)
    else
      let pred := lanelet2
      let suc := lanelet1
      (pred, suc))
  let idx := (
    if (CR.Arc.ptClose (← CR.Py.getItem pred.left (-1)) (← CR.Py.getItem suc.left 0)) then
      let idx : Int := 1
      idx
    else
      let idx : Int := 0
      idx)
  let left_vertices := (pred.left ++ (CR.PyC20.sliceFrom suc.left idx))
  let right_vertices := (pred.right ++ (CR.PyC20.sliceFrom suc.right idx))
  let center_vertices := (pred.center ++ (CR.PyC20.sliceFrom suc.center idx))
  let lanelet_id := (CR.Arc.concatId pred.id suc.id)
  let predecessor := pred.pred
  let successor := suc.succ
  let new_lanelet := (← CR.PyC20.newLanelet left_vertices center_vertices right_vertices lanelet_id predecessor successor)
  return new_lanelet
