/-- commonroad/geometry/shape.py: Circle.radius -/
def Circle_set_radius (self : CR.ShapeObj.CircObj) (radius : Rat) : CR.ShapeObj.CircObj :=
  let self := { self with radius := radius }
  if (self.shapely).isSome then
    let self := (Circle_update_shapely_circle self)
    self
  else
    self
