/-- commonroad/common/writer/file_writer_xml.py: XMLFileWriter._get_suffix -/
def XMLFileWriter_get_suffix : String := FileFormat_XML_value
