/-- commonroad/common/writer/file_writer_protobuf.py CycleElementMessage.create_message -/
def W_CycleElement (e : CycEl) : PB :=
  PB.msg [("duration", (PB.u32 e.dur)), ("color", (PB.enum "TrafficLightState" e.state))]
