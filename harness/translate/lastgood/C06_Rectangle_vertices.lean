/-- commonroad/geometry/shape.py: Rectangle.vertices — memoising property: returns (object afterwards, vertices); a `None` cache would read as the empty array -/
def Rectangle_vertices (self : CR.ShapeObj.RectObj) : CR.ShapeObj.RectObj × List CR.Geom.Pt :=
  if (self.vertices).isNone then
    let self := { self with vertices := (some (Rectangle_compute_vertices self.length self.width self.center self.orientation)) }
    (self, (self.vertices.getD []))
  else
    (self, (self.vertices.getD []))
