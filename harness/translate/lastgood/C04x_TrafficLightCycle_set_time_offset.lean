/-- commonroad/scenario/traffic_light.py: TrafficLightCycle.time_offset -/
def TrafficLightCycle_set_time_offset (self : CR.TL.Hist.Obj) (time_offset : Int) : CR.TL.Hist.Obj := Id.run do
  let self := { self with off := time_offset }
  let self := TrafficLightCycle_invalidate self
  return self
