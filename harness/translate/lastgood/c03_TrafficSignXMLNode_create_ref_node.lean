-- TrafficSignXMLNode.create_ref_node :: b_TrafficSign_create_ref_node
def b_TrafficSign_create_ref_node : CR.SrcW.Builder where
  key := "TrafficSignXMLNode.create_ref_node"
  kind := .node
  tag := "trafficSignRef"
  xsd := "trafficSignRef"
  path := []
  parent := ""
  attrs := [("ref", (.str "_"))]
  gattrs := []
  text := none
  atoms := []
  body :=
    .skip
