/-- commonroad/geometry/shape.py: Rectangle.orientation — the validity asserts on the argument are outside the model (well-typed arguments) -/
def Rectangle_set_orientation (self : CR.ShapeObj.RectObj) (orientation : Rat × Rat) : CR.ShapeObj.RectObj :=
  let self := { self with orientation := orientation }
  let self := (Rectangle_invalidate_vertices self)
  self
