def PlanningProblem_goal_reached.loop1 (F : CR.Goal.Fns) (τ ε : Rat) (goals : List CR.Goal.GState) (trajectory : List CR.Goal.St) : List (Nat × CR.Goal.St) → Res (Bool × Int)
  | [] => do
    return (false, (-1))
  | (i, state) :: rest_ => do
    if (← GoalRegion_is_reached F τ ε goals state) then
      return (true, (i : Int))
    else
      PlanningProblem_goal_reached.loop1 F τ ε goals trajectory rest_

/-- commonroad/planning/planning_problem.py: PlanningProblem.goal_reached — the trajectory is its state list; self.goal.state_list is the parameter goals -/
def PlanningProblem_goal_reached (F : CR.Goal.Fns) (τ ε : Rat) (goals : List CR.Goal.GState) (trajectory : List CR.Goal.St) : Res (Bool × Int) := do
  PlanningProblem_goal_reached.loop1 F τ ε goals trajectory (((CR.Goal.enumFrom 0 trajectory)).reverse)
