/-- commonroad/common/common_lanelet.py: StopLine.translate_rotate -/
def StopLine_translate_rotate (m : CR.Rigid.Mo) (sl : CR.Rigid.Pt × CR.Rigid.Pt) : Res (CR.Rigid.Pt × CR.Rigid.Pt) := do
  let mut p := sl.1
  let mut q := sl.2
  CR.Py.assert (CR.Iv.validOrientation m.τ m.a)
  let mut t_m := (transform_translation_rotation_matrix m.c m.s m.a m.t)
  let mut line_vertices := [p, q]
  let mut tmp := ((((line_vertices).map CR.PyC05.toH)).map (CR.PyC05.M3.app t_m))
  let mut tmp_1 := ((tmp).map CR.PyC05.fromH)
  let t_2 := (← CR.Py.getItem tmp_1 0)
  let t_3 := (← CR.Py.getItem tmp_1 1)
  p := t_2
  q := t_3
  return (p, q)
