/-- commonroad/scenario/scenario.py: ScenarioID.__init__ — the attributes the constructor leaves (prediction_id dynamically typed) -/
def ScenarioID_init (cs : List Str) (cooperative : Bool) (country_id : Option (Str)) (map_name : Str) (map_id : Int) (configuration_id : Option (Int)) (obstacle_behavior : Option (Str)) (prediction_id : CR.PyC13.PV) (scenario_version : Str) : Res (CR.PyC13.SId) := do
  CR.Py.assert ((SUPPORTED_COMMONROAD_VERSIONS).contains scenario_version)
  let self_scenario_version : Str := scenario_version
  let self_cooperative : Bool := cooperative
  let self__country_id : Str ← ScenarioID_set_country_id cs country_id
  let self__map_name : Str := ScenarioID_set_map_name map_name
  let self_map_id : Int := map_id
  let is_map : Bool := ((configuration_id).isNone && ((obstacle_behavior).isNone && (CR.PyC13.PV.isNone prediction_id)))
  let has_prediction : Bool := ((obstacle_behavior).isSome || (!CR.PyC13.PV.isNone prediction_id))
  CR.Py.assert ((CR.PyC13.PV.isNone prediction_id) || (obstacle_behavior).isSome)
  if (!is_map) then
    if has_prediction then
      let prediction_id : CR.PyC13.PV := (CR.PyC13.PV.orElse prediction_id (CR.PyC13.PV.sc (CR.PyC13.Sc.int (1 : Int))))
      let configuration_id : Int := (CR.PyC13.optIntOr configuration_id (1 : Int))
      let self_obstacle_behavior : Option (Str) := obstacle_behavior
      let self_configuration_id : Int := configuration_id
      let self_prediction_id : CR.PyC13.PV := prediction_id
      CR.Py.assert (([none, (some (['S'] : Str)), (some (['T'] : Str)), (some (['P'] : Str)), (some (['I'] : Str))] : List (Option (Str))).contains self_obstacle_behavior)
      CR.Py.assert (decide (self_map_id > (0 : Int)))
      CR.Py.assert (is_map || decide (self_configuration_id > (0 : Int)))
      let prediction_id : CR.PyC13.PV := (if (CR.PyC13.PV.isList prediction_id) then prediction_id else (CR.PyC13.PV.list1 prediction_id))
      CR.Py.assert (← (if (!has_prediction) then pure true else (do return (← CR.PyC13.allM (fun p => (do return (← CR.PyC13.Sc.gt p (0 : Int)))) (← CR.PyC13.PV.iter prediction_id)))))
      return { coop := self_cooperative, country := self__country_id, mapName := self__map_name, mapId := self_map_id, config := (some self_configuration_id), beh := self_obstacle_behavior, pred := self_prediction_id, version := self_scenario_version }
    else
      let configuration_id : Int := (CR.PyC13.optIntOr configuration_id (1 : Int))
      let self_obstacle_behavior : Option (Str) := obstacle_behavior
      let self_configuration_id : Int := configuration_id
      let self_prediction_id : CR.PyC13.PV := prediction_id
      CR.Py.assert (([none, (some (['S'] : Str)), (some (['T'] : Str)), (some (['P'] : Str)), (some (['I'] : Str))] : List (Option (Str))).contains self_obstacle_behavior)
      CR.Py.assert (decide (self_map_id > (0 : Int)))
      CR.Py.assert (is_map || decide (self_configuration_id > (0 : Int)))
      let prediction_id : CR.PyC13.PV := (if (CR.PyC13.PV.isList prediction_id) then prediction_id else (CR.PyC13.PV.list1 prediction_id))
      CR.Py.assert (← (if (!has_prediction) then pure true else (do return (← CR.PyC13.allM (fun p => (do return (← CR.PyC13.Sc.gt p (0 : Int)))) (← CR.PyC13.PV.iter prediction_id)))))
      return { coop := self_cooperative, country := self__country_id, mapName := self__map_name, mapId := self_map_id, config := (some self_configuration_id), beh := self_obstacle_behavior, pred := self_prediction_id, version := self_scenario_version }
  else
    let self_obstacle_behavior : Option (Str) := obstacle_behavior
    let self_configuration_id : Option (Int) := configuration_id
    let self_prediction_id : CR.PyC13.PV := prediction_id
    CR.Py.assert (([none, (some (['S'] : Str)), (some (['T'] : Str)), (some (['P'] : Str)), (some (['I'] : Str))] : List (Option (Str))).contains self_obstacle_behavior)
    CR.Py.assert (decide (self_map_id > (0 : Int)))
    CR.Py.assert (← (if is_map then pure true else (do return (← CR.PyC13.optGt self_configuration_id (0 : Int)))))
    let prediction_id : CR.PyC13.PV := (if (CR.PyC13.PV.isList prediction_id) then prediction_id else (CR.PyC13.PV.list1 prediction_id))
    CR.Py.assert (← (if (!has_prediction) then pure true else (do return (← CR.PyC13.allM (fun p => (do return (← CR.PyC13.Sc.gt p (0 : Int)))) (← CR.PyC13.PV.iter prediction_id)))))
    return { coop := self_cooperative, country := self__country_id, mapName := self__map_name, mapId := self_map_id, config := self_configuration_id, beh := self_obstacle_behavior, pred := self_prediction_id, version := self_scenario_version }
