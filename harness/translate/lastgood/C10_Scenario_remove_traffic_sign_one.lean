/-- commonroad/scenario/scenario.py: Scenario.remove_traffic_sign — argument is one TrafficSign -/
def Scenario_remove_traffic_sign_one (self : CR.Refs.Scn) (traffic_sign : CR.Refs.Elem) : CR.Refs.Scn × Option CR.Err :=
  if (CR.PyR.findSign self.net traffic_sign.1).isNone then
    (self, some .key)
  else
    let self := { self with net := (LaneletNetwork_remove_traffic_sign self.net traffic_sign.1) }
    CR.PyR.andThen (CR.PyR.idSetRemove self traffic_sign.1) (fun self =>
      (self, none))
