/-- commonroad/scenario/lanelet.py: LaneletNetwork.find_lanelet_by_shape — argument is a ShapeGroup with the member list `shapes`; the recursive call sees a primitive shape -/
def LaneletNetwork_find_lanelet_by_shape_group (env isects : List CR.Geom.Pt → CR.Geom.Prim → Bool) (self : CR.Index.Net) (shapes : List CR.Geom.Prim) : Res (List Int) := do
  let res : List Int := []
  let res ← CR.Py06.lfoldlM (shapes) res (fun res x1_ => do
      let res := CR.Py06.lfoldl ((← LaneletNetwork_find_lanelet_by_shape_prim env isects self x1_)) res (fun res x5_ =>
          if (!(CR.Py06.listHas res x5_)) then
            let res := res ++ [x5_]
            res
          else
            res)
      return res)
  return res
