/-- state.py: every class below State, and whether it keeps State's `__eq__` / `__hash__` (a dataclass decorator
    without `eq=False` would generate a field-tuple `__eq__` and set `__hash__` to None) -/
def stateSubclasses : List (String × Bool) :=
  [("InitialState", true),
   ("PMState", true),
   ("ExtendedPMState", true),
   ("KSState", true),
   ("KSTState", true),
   ("STState", true),
   ("STDState", true),
   ("MBState", true),
   ("LongitudinalState", true),
   ("LateralState", true),
   ("InputState", true),
   ("PMInputState", true),
   ("LKSInputState", true),
   ("CustomState", true)]
