@[simp] def Lanelet_find_lanelet_predecessors_in_range.for3 (succ pred : Nat → List Nat) (len : Nat → Rat) (selfId : Nat) (fuel : Nat) (max_length : Rat) (p : _) (le : _) :=
  fun (paths_final, paths_next, lengths_next) pred =>
    if (decide (pred ∈ p) || decide (pred = selfId) || decide (le ≥ max_length)) then
      let paths_final := paths_final ++ [p]
      (paths_final, paths_next, lengths_next)
    else
      let l_next := (le + (len pred))
      let (paths_next, lengths_next, paths_final) := (
        if decide (l_next < max_length) then
          let paths_next := paths_next ++ [(p ++ [pred])]
          let lengths_next := lengths_next ++ [l_next]
          (paths_next, lengths_next, paths_final)
        else
          let paths_final := paths_final ++ [(p ++ [pred])]
          (paths_next, lengths_next, paths_final))
      (paths_final, paths_next, lengths_next)

@[simp] def Lanelet_find_lanelet_predecessors_in_range.for2 (succ pred : Nat → List Nat) (len : Nat → Rat) (selfId : Nat) (fuel : Nat) (max_length : Rat)  :=
  fun (paths_final, paths_next, lengths_next) (p, le) =>
    let predecessors := (CR.PyC20.nbrOpt pred (CR.pyGet? p (-1)))
    if (!(CR.PyC20.truthy predecessors)) then
      let paths_final := paths_final ++ [p]
      (paths_final, paths_next, lengths_next)
    else
      let (paths_final, paths_next, lengths_next) := (predecessors).foldl (Lanelet_find_lanelet_predecessors_in_range.for3 succ pred len selfId fuel max_length p le) (paths_final, paths_next, lengths_next)
      (paths_final, paths_next, lengths_next)

@[simp] def Lanelet_find_lanelet_predecessors_in_range.while1 (succ pred : Nat → List Nat) (len : Nat → Rat) (selfId : Nat) (fuel : Nat) (max_length : Rat)  :=
  CR.PyC20.mkLoop (fun (paths_final, paths, lengths) => (CR.PyC20.truthy paths)) (fun (paths_final, paths, lengths) =>
    let paths_next := []
    let lengths_next := []
    let (paths_final, paths_next, lengths_next) := ((List.zip paths lengths)).foldl (Lanelet_find_lanelet_predecessors_in_range.for2 succ pred len selfId fuel max_length) (paths_final, paths_next, lengths_next)
    let paths := paths_next
    let lengths := lengths_next
    (paths_final, paths, lengths))

/-- commonroad/scenario/lanelet.py: Lanelet.find_lanelet_predecessors_in_range — see the successor version -/
def Lanelet_find_lanelet_predecessors_in_range (succ pred : Nat → List Nat) (len : Nat → Rat) (selfId : Nat) (fuel : Nat) (max_length : Rat) : Option (List (List Nat)) :=
  let paths := (((pred selfId)).map (fun p => [p]))
  let paths_final := []
  let lengths := (((pred selfId)).map (fun p => (len p)))
  Option.bind (CR.PyC20.whileLoop (Lanelet_find_lanelet_predecessors_in_range.while1 succ pred len selfId fuel max_length).1 (Lanelet_find_lanelet_predecessors_in_range.while1 succ pred len selfId fuel max_length).2 fuel (paths_final, paths, lengths)) (fun (paths_final, paths, lengths) =>
    some paths_final)
