/-- commonroad/common/util.py: default of `decimals` in rounded_array_key (and the body rounds with it) -/
def roundedKeyDecimals : Nat := 10
