/-- commonroad/scenario/lanelet.py: Lanelet.translate_rotate -/
def Lanelet_translate_rotate (m : CR.Rigid.Mo) (la : CR.Rigid.Lanelet) : Res (CR.Rigid.Lanelet) := do
  let mut left := la.left
  let mut center := la.center
  let mut right := la.right
  let mut stop := la.stop
  let mut poly := la.poly
  CR.Py.assert (CR.Iv.validOrientation m.τ m.a)
  let mut t_m := (transform_translation_rotation_matrix m.c m.s m.a m.t)
  let mut tmp := ((((center).map CR.PyC05.toH)).map (CR.PyC05.M3.app t_m))
  let mut tmp_1 := ((tmp).map CR.PyC05.fromH)
  center := tmp_1
  let mut tmp_2 := ((((left).map CR.PyC05.toH)).map (CR.PyC05.M3.app t_m))
  let mut tmp_3 := ((tmp_2).map CR.PyC05.fromH)
  left := tmp_3
  let mut tmp_4 := ((((right).map CR.PyC05.toH)).map (CR.PyC05.M3.app t_m))
  let mut tmp_5 := ((tmp_4).map CR.PyC05.fromH)
  right := tmp_5
  match stop with
  | none => pure ()
  | some stop_v =>
      let mut stop_v := stop_v
      stop_v ← StopLine_translate_rotate m stop_v
      stop := some stop_v
  poly := (← CR.Rigid.polyMk (right ++ (left).reverse))
  return (⟨left, center, right, stop, poly⟩ : CR.Rigid.Lanelet)
