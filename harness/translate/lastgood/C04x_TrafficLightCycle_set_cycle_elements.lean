/-- commonroad/scenario/traffic_light.py: TrafficLightCycle.cycle_elements — the new list comes with the identity classes of its element objects -/
def TrafficLightCycle_set_cycle_elements (self : CR.TL.Hist.Obj) (cycle_elements : List CR.TL.Elem × List Nat) : CR.TL.Hist.Obj := Id.run do
  let self := { self with es := (cycle_elements).1, cls := (cycle_elements).2 }
  let self := TrafficLightCycle_invalidate self
  return self
