-- ObstacleXMLNode.create_obstacle_node_header :: b_Obstacle_create_obstacle_node_header b_Obstacle_create_obstacle_node_header_type
def b_Obstacle_create_obstacle_node_header : CR.SrcW.Builder where
  key := "ObstacleXMLNode.create_obstacle_node_header"
  kind := .node
  tag := "?obstacle_role.value + 'Obstacle'"
  xsd := "staticObstacle"
  path := []
  parent := ""
  attrs := [("id", (.str "_"))]
  gattrs := []
  text := none
  atoms := []
  body :=
    (.emit "type" "ObstacleXMLNode.create_obstacle_node_header/type")

def b_Obstacle_create_obstacle_node_header_type : CR.SrcW.Builder where
  key := "ObstacleXMLNode.create_obstacle_node_header/type"
  kind := .node
  tag := "type"
  xsd := "staticObstacle"
  path := ["type"]
  parent := "ObstacleXMLNode.create_obstacle_node_header"
  attrs := []
  gattrs := []
  text := some (.enumValue "obstacle_type")
  atoms := []
  body :=
    .skip
