/-- commonroad/common/validity.py: is_in_interval — scalar arguments, both bounds given -/
def is_in_interval (x : Rat) (x_min : Rat) (x_max : Rat) : Res (Bool) := do
  CR.Py.assert (true)
  CR.Py.assert (true)
  if decide (x_min > x_max) then
    return (decide (x ≥ x_min) && decide (x_max ≥ x))
  else
    return (decide (x ≥ x_min) && decide (x_max ≥ x))
