/-- commonroad/common/solution.py: StateType.xml_fields — property -/
def Sol_StateType_xml_fields (self : CR.Sol.TType) : Res (List CR.Sol.XName) := do
  return (← CR.PyS.enumGet Sol_XMLStateFields self.name)
