/-- commonroad/common/writer/file_writer_protobuf.py LocationMessage.create_message -/
def W_Location (l : Loc) : PB :=
  PB.msg [("geo_name_id", (PB.i32 l.geo_name_id)), ("gps_latitude", (PB.dbl l.lat)), ("gps_longitude", (PB.dbl l.lon)), ("geo_transformation", (PB.ofOpt (Option.map (fun v1 => (W_GeoTransformation v1)) l.geo))), ("environment", (PB.ofOpt (Option.map (fun v2 => (W_Environment v2)) l.env)))]
