/-- commonroad/scenario/scenario.py: Scenario._lanelet_network_object_ids -/
def Scenario_lanelet_network_object_ids (lanelet_network : Net) : List (Nat) :=
  let object_ids : List (Nat) := (lanelet_network.lanelets.map (fun lanelet => lanelet.id))
  let object_ids : List (Nat) := (object_ids ++ lanelet_network.signs)
  let object_ids : List (Nat) := (object_ids ++ lanelet_network.lights)
  let object_ids := (lanelet_network.inters).foldl (fun object_ids intersection =>
    let object_ids : List (Nat) := object_ids ++ [intersection.id]
    let object_ids : List (Nat) := (object_ids ++ intersection.incs)
    object_ids) object_ids
  object_ids
