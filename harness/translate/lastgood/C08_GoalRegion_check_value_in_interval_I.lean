/-- commonroad/planning/goal.py: GoalRegion._check_value_in_interval — desired_interval is an Interval; `.contains` is the model function tied in T16 -/
def GoalRegion_check_value_in_interval_I (value : Rat) (desired_interval : CR.Iv.I) : Res (Bool) := do
  let is_reached := (CR.Iv.contains desired_interval value)
  return is_reached
