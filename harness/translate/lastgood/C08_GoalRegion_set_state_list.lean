def GoalRegion_set_state_list.loop1 (state_list : List CR.Goal.RawG) : List (CR.Goal.RawG) → Res (List CR.Goal.RawG)
  | [] => do
    return state_list
  | state :: rest_ => do
    let _ ← GoalRegion_validate_goal_state state
    GoalRegion_set_state_list.loop1 state_list rest_

/-- commonroad/planning/goal.py: GoalRegion.state_list — property setter; the result is the list stored in self._state_list -/
def GoalRegion_set_state_list (state_list : List CR.Goal.RawG) : Res (List CR.Goal.RawG) := do
  GoalRegion_set_state_list.loop1 state_list (state_list)
