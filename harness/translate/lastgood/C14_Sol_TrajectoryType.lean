/-- commonroad/common/solution.py: enum TrajectoryType — (member name, value) in definition order -/
def Sol_TrajectoryType : List (String × String) := [("MB", "mbTrajectory"), ("ST", "stTrajectory"), ("KS", "ksTrajectory"), ("KST", "kstTrajectory"), ("PM", "pmTrajectory"), ("Input", "inputVector"), ("PMInput", "pmInputVector")]
