/-- commonroad/common/writer/file_writer_protobuf.py TrajectoryMessage.create_message -/
def W_Trajectory (t0 : Int) (states : List St) : PB :=
  PB.msg [("initial_time_step", (PB.u32 t0)), ("states", PB.rep (List.map (fun v1 => (CR.PBF.encState v1)) states))]
