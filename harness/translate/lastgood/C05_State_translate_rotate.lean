/-- commonroad/scenario/state.py: State.translate_rotate — the dynamic type tests on position / orientation are the predicates of CRModel/PyExtC05.lean -/
def State_translate_rotate (m : CR.Rigid.Mo) (pos : CR.Rigid.Pos) (ori : CR.Rigid.Ori) (vel : Option CR.Rigid.Pt) : Res (CR.Rigid.State) := do
  CR.Py.assert (CR.Iv.validOrientation m.τ m.a)
  let o_1 := (⟨pos, ori, vel⟩ : CR.Rigid.State)
  let mut tpos := o_1.pos
  let mut tori := o_1.ori
  let mut tvel := o_1.vel
  if (CR.PyC05.posIsSome pos) then
    if (CR.PyC05.posIsArray pos) then
      tpos := CR.Rigid.Pos.pt (← CR.Py.getItem (transform_translate_rotate m.c m.s m.a [(CR.PyC05.posArray pos)] m.t) 0)
    else
      if (CR.PyC05.posIsShape pos) then
        tpos := CR.Rigid.Pos.region (← CR.Rigid.Shape.move m (CR.PyC05.posShape pos))
      else
        throw CR.Err.type
  if (CR.PyC05.oriIsSome ori) then
    if (CR.PyC05.oriIsNum ori) then
      tori := CR.Rigid.Ori.exact (CR.Iv.makeValid m.τ ((CR.PyC05.oriNum ori) + m.a))
    else
      if (CR.PyC05.oriIsIv ori) then
        tori := CR.Rigid.Ori.iv (← CR.Iv.addAngle m.τ (CR.PyC05.oriIv tori) m.a)
      else
        throw CR.Err.type
  return (⟨tpos, tori, tvel⟩ : CR.Rigid.State)
