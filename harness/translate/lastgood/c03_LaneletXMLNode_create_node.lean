-- LaneletXMLNode.create_node :: b_Lanelet_create_node b_Lanelet_create_node_userBidirectional b_Lanelet_create_node_userOneWay b_Lanelet_create_node_laneletType_n2 b_Lanelet_create_node_laneletType b_Lanelet_create_node_adjacentRight b_Lanelet_create_node_adjacentLeft b_Lanelet_create_node_successor b_Lanelet_create_node_predecessor b_Lanelet_create_node_rightBound b_Lanelet_create_node_rightBound_lineMarking b_Lanelet_create_node_leftBound b_Lanelet_create_node_leftBound_lineMarking
def b_Lanelet_create_node : CR.SrcW.Builder where
  key := "LaneletXMLNode.create_node"
  kind := .node
  tag := "lanelet"
  xsd := "lanelet"
  path := []
  parent := ""
  attrs := [("id", (.str "_.lanelet_id"))]
  gattrs := []
  text := none
  atoms := ["hasattr(_, 'line_marking_left_vertices')", "isinstance(_.line_marking_left_vertices, LineMarking)", "_.line_marking_left_vertices is not LineMarking.UNKNOWN", "hasattr(_, 'line_marking_right_vertices')", "isinstance(_.line_marking_right_vertices, LineMarking)", "_.line_marking_right_vertices is not LineMarking.UNKNOWN"]
  body :=
    (.seq
      (.emit "leftBound" "LaneletXMLNode.create_node/leftBound")
      (.seq
        (.emit "rightBound" "LaneletXMLNode.create_node/rightBound")
        (.seq
          (.each "_.predecessor"
            (.emit "predecessor" "LaneletXMLNode.create_node/predecessor"))
          (.seq
            (.each "_.successor"
              (.emit "successor" "LaneletXMLNode.create_node/successor"))
            (.seq
              (.ite (.truthy "_.adj_left")
                (.emit "adjacentLeft" "LaneletXMLNode.create_node/adjacentLeft")
                .skip)
              (.seq
                (.ite (.truthy "_.adj_right")
                  (.emit "adjacentRight" "LaneletXMLNode.create_node/adjacentRight")
                  .skip)
                (.seq
                  (.ite (.truthy "_.stop_line")
                    (.emit "stopLine" "LaneletStopLineXMLNode.create_node")
                    .skip)
                  (.seq
                    (.ite (.lenPos "_.lanelet_type")
                      (.each "_.lanelet_type"
                        (.emit "laneletType" "LaneletXMLNode.create_node/laneletType"))
                      (.emit "laneletType" "LaneletXMLNode.create_node/laneletType#2"))
                    (.seq
                      (.ite (.truthy "_.user_one_way")
                        (.each "_.user_one_way"
                          (.emit "userOneWay" "LaneletXMLNode.create_node/userOneWay"))
                        .skip)
                      (.seq
                        (.ite (.truthy "_.user_bidirectional")
                          (.each "_.user_bidirectional"
                            (.emit "userBidirectional" "LaneletXMLNode.create_node/userBidirectional"))
                          .skip)
                        (.seq
                          (.ite (.truthy "_.traffic_signs")
                            (.each "_.traffic_signs"
                              (.emit "trafficSignRef" "TrafficSignXMLNode.create_ref_node"))
                            .skip)
                          (.ite (.truthy "_.traffic_lights")
                            (.each "_.traffic_lights"
                              (.emit "trafficLightRef" "TrafficLightXMLNode.create_ref_node"))
                            .skip))))))))))))

def b_Lanelet_create_node_userBidirectional : CR.SrcW.Builder where
  key := "LaneletXMLNode.create_node/userBidirectional"
  kind := .node
  tag := "userBidirectional"
  xsd := "lanelet"
  path := ["userBidirectional"]
  parent := "LaneletXMLNode.create_node"
  attrs := []
  gattrs := []
  text := some (.enumValue "it1")
  atoms := []
  body :=
    .skip

def b_Lanelet_create_node_userOneWay : CR.SrcW.Builder where
  key := "LaneletXMLNode.create_node/userOneWay"
  kind := .node
  tag := "userOneWay"
  xsd := "lanelet"
  path := ["userOneWay"]
  parent := "LaneletXMLNode.create_node"
  attrs := []
  gattrs := []
  text := some (.enumValue "it1")
  atoms := []
  body :=
    .skip

def b_Lanelet_create_node_laneletType_n2 : CR.SrcW.Builder where
  key := "LaneletXMLNode.create_node/laneletType#2"
  kind := .node
  tag := "laneletType"
  xsd := "lanelet"
  path := ["laneletType"]
  parent := "LaneletXMLNode.create_node"
  attrs := []
  gattrs := []
  text := some (.enumValue "LaneletType.UNKNOWN")
  atoms := []
  body :=
    .skip

def b_Lanelet_create_node_laneletType : CR.SrcW.Builder where
  key := "LaneletXMLNode.create_node/laneletType"
  kind := .node
  tag := "laneletType"
  xsd := "lanelet"
  path := ["laneletType"]
  parent := "LaneletXMLNode.create_node"
  attrs := []
  gattrs := []
  text := some (.enumValue "it1")
  atoms := []
  body :=
    .skip

def b_Lanelet_create_node_adjacentRight : CR.SrcW.Builder where
  key := "LaneletXMLNode.create_node/adjacentRight"
  kind := .node
  tag := "adjacentRight"
  xsd := "lanelet"
  path := ["adjacentRight"]
  parent := "LaneletXMLNode.create_node"
  attrs := [("ref", (.str "_.adj_right")), ("drivingDir", (.cond (.const "same") (.const "opposite")))]
  gattrs := []
  text := none
  atoms := []
  body :=
    .skip

def b_Lanelet_create_node_adjacentLeft : CR.SrcW.Builder where
  key := "LaneletXMLNode.create_node/adjacentLeft"
  kind := .node
  tag := "adjacentLeft"
  xsd := "lanelet"
  path := ["adjacentLeft"]
  parent := "LaneletXMLNode.create_node"
  attrs := [("ref", (.str "_.adj_left")), ("drivingDir", (.cond (.const "same") (.const "opposite")))]
  gattrs := []
  text := none
  atoms := []
  body :=
    .skip

def b_Lanelet_create_node_successor : CR.SrcW.Builder where
  key := "LaneletXMLNode.create_node/successor"
  kind := .node
  tag := "successor"
  xsd := "lanelet"
  path := ["successor"]
  parent := "LaneletXMLNode.create_node"
  attrs := [("ref", (.str "it1"))]
  gattrs := []
  text := none
  atoms := []
  body :=
    .skip

def b_Lanelet_create_node_predecessor : CR.SrcW.Builder where
  key := "LaneletXMLNode.create_node/predecessor"
  kind := .node
  tag := "predecessor"
  xsd := "lanelet"
  path := ["predecessor"]
  parent := "LaneletXMLNode.create_node"
  attrs := [("ref", (.str "it1"))]
  gattrs := []
  text := none
  atoms := []
  body :=
    .skip

def b_Lanelet_create_node_rightBound : CR.SrcW.Builder where
  key := "LaneletXMLNode.create_node/rightBound"
  kind := .node
  tag := "rightBound"
  xsd := "lanelet"
  path := ["rightBound"]
  parent := "LaneletXMLNode.create_node"
  attrs := []
  gattrs := []
  text := none
  atoms := []
  body :=
    (.seq
      (.each "_.right_vertices"
        (.emit "point" "Point.create_node"))
      (.ite (.and (.atom 3) (.and (.atom 4) (.atom 5)))
        (.emit "lineMarking" "LaneletXMLNode.create_node/rightBound/lineMarking")
        .skip))

def b_Lanelet_create_node_rightBound_lineMarking : CR.SrcW.Builder where
  key := "LaneletXMLNode.create_node/rightBound/lineMarking"
  kind := .node
  tag := "lineMarking"
  xsd := "lanelet"
  path := ["rightBound", "lineMarking"]
  parent := "LaneletXMLNode.create_node/rightBound"
  attrs := []
  gattrs := []
  text := some (.enumValue "_.line_marking_right_vertices")
  atoms := []
  body :=
    .skip

def b_Lanelet_create_node_leftBound : CR.SrcW.Builder where
  key := "LaneletXMLNode.create_node/leftBound"
  kind := .node
  tag := "leftBound"
  xsd := "lanelet"
  path := ["leftBound"]
  parent := "LaneletXMLNode.create_node"
  attrs := []
  gattrs := []
  text := none
  atoms := []
  body :=
    (.seq
      (.each "_.left_vertices"
        (.emit "point" "Point.create_node"))
      (.ite (.and (.atom 0) (.and (.atom 1) (.atom 2)))
        (.emit "lineMarking" "LaneletXMLNode.create_node/leftBound/lineMarking")
        .skip))

def b_Lanelet_create_node_leftBound_lineMarking : CR.SrcW.Builder where
  key := "LaneletXMLNode.create_node/leftBound/lineMarking"
  kind := .node
  tag := "lineMarking"
  xsd := "lanelet"
  path := ["leftBound", "lineMarking"]
  parent := "LaneletXMLNode.create_node/leftBound"
  attrs := []
  gattrs := []
  text := some (.enumValue "_.line_marking_left_vertices")
  atoms := []
  body :=
    .skip
